/-
C20: the strings of a quantity.  Core Lean only.

Modelled after (src/barril/units/_quantity.py, as it is now, i.e. with the separator repair 0e344ab):
* `Quantity._MakeStr`                                → `makeStr` (two loops `makeStrNum`, `makeStrDen`)
* `Quantity.GetComposingUnitsJoiningExponents`       → `joinExps` (an `OrderedDict` accumulation)
* `Quantity._CreateUnitsWithJoinedExponentsString`   → `renderUnit` (`renderUnitNum`, `renderUnitDen`)
* `Quantity.GetUnitName`                             → `Quantity.unitName`
* `ObtainQuantity(dict)` "one entry with exponent 1 is simple" + the two branches of
  `Quantity.__init__`                                → `obtainFromDict`, `newSimple`, `newDerived`
* `Scalar.__repr__`, `GetFormattedSuffix`, `GetFormatted`, `Array.__repr__/__str__`
                                                     → `scalarRepr`, `formattedSuffix`, …
Strings are byte lists (`Str`).  The registry is reduced to the two lookups these functions use:
`GetCategoryQuantityType` and `GetUnitName`.
-/
import Barril.Model.Str

namespace Barril.Str

/-! ### `_MakeStr` -/

abbrev sepMul : Str := [32, 42, 32]          -- " * "
abbrev sepDiv : Str := [32, 47, 32]          -- " / "
abbrev oneDiv : Str := [49, 32, 47, 32]      -- "1 / "

/-- `f"({rep}) ** {n}"` -/
def powText (rep : Str) (n : Nat) : Str := [40] ++ rep ++ [41, 32, 42, 42, 32] ++ decimal n

/-- first loop of `_MakeStr` (`ret` is the string built so far; the separator is added when `ret` is
truthy, i.e. not empty) -/
def makeStrNum : Str → List (Str × Int) → Str
  | ret, [] => ret
  | ret, (rep, exp) :: rest =>
    if exp > 0 then
      let ret1 := if ret ≠ [] then ret ++ sepMul else ret
      let ret2 := if exp ≠ 1 then ret1 ++ powText rep exp.toNat else ret1 ++ rep
      makeStrNum ret2 rest
    else makeStrNum ret rest

/-- second loop of `_MakeStr` (`added` is `added_div`) -/
def makeStrDen : Str → Bool → List (Str × Int) → Str
  | ret, _, [] => ret
  | ret, added, (rep, exp) :: rest =>
    if exp < 0 then
      let ret1 := if added = false then (if ret ≠ [] then ret ++ sepDiv else ret ++ oneDiv) else ret ++ sepMul
      let ret2 := if exp ≠ -1 then ret1 ++ powText rep exp.natAbs else ret1 ++ rep
      makeStrDen ret2 true rest
    else makeStrDen ret added rest

/-- `Quantity._MakeStr(repr_and_exp)` -/
def makeStr (items : List (Str × Int)) : Str := makeStrDen (makeStrNum [] items) false items

/-! ### joined exponents (`OrderedDict`: an existing key keeps its place, a new key goes last) -/

/-- `d[k] = d.get(k, 0) + e` -/
def addExp : List (Str × Int) → Str → Int → List (Str × Int)
  | [], k, e => [(k, e)]
  | (v, f) :: rest, k, e => if v = k then (v, f + e) :: rest else (v, f) :: addExp rest k e

def joinExpsFrom (acc : List (Str × Int)) : List (Str × Int) → List (Str × Int)
  | [] => acc
  | (k, e) :: rest => joinExpsFrom (addExp acc k e) rest

/-- the accumulation loop shared by `GetComposingUnitsJoiningExponents`, the quantity-type string and
`GetUnitName` -/
def joinExps (pairs : List (Str × Int)) : List (Str × Int) := joinExpsFrom [] pairs

/-! ### `_CreateUnitsWithJoinedExponentsString` -/

/-- first loop: `unit` or `f"{unit}{exp}"`, '.' between factors -/
def renderUnitNum : Str → List (Str × Int) → Str
  | ret, [] => ret
  | ret, (unit, exp) :: rest =>
    if exp > 0 then
      let ret1 := if ret ≠ [] then ret ++ [cDot] else ret
      let ret2 := if exp ≠ 1 then ret1 ++ (unit ++ decimal exp.toNat) else ret1 ++ unit
      renderUnitNum ret2 rest
    else renderUnitNum ret rest

/-- second loop: '/' (or '1/') before the first factor, '.' before the others (repair 0e344ab) -/
def renderUnitDen : Str → Bool → List (Str × Int) → Str
  | ret, _, [] => ret
  | ret, added, (unit, exp) :: rest =>
    if exp < 0 then
      let ret1 := if added = false then (if ret ≠ [] then ret ++ [cSlash] else ret ++ [cOne, cSlash]) else ret ++ [cDot]
      let ret2 := ret1 ++ unit
      let ret3 := if exp ≠ -1 then ret2 ++ decimal exp.natAbs else ret2
      renderUnitDen ret3 true rest
    else renderUnitDen ret added rest

/-- the unit string of joined composing units -/
def renderUnit (joined : List (Str × Int)) : Str := renderUnitDen (renderUnitNum [] joined) false joined

/-! ### quantities -/

/-- one item of `_category_to_unit_and_exps` -/
structure Entry where
  cat : Str
  unit : Str
  exp : Int
deriving DecidableEq, Repr

/-- the registry facts the strings depend on -/
structure Reg where
  /-- category → quantity type -/
  cats : List (Str × Str)
  /-- (quantity type, unit) → registered unit name -/
  names : List ((Str × Str) × Str)

/-- `GetCategoryQuantityType`: `InvalidQuantityTypeError` (a `UnitsError`) for an unknown category -/
def Reg.qtypeOf (r : Reg) (c : Str) : Except ErrKind Str :=
  match r.cats.find? (fun p => p.1 == c) with
  | some p => .ok p.2
  | none => .error .units

/-- `UnitDatabase.GetUnitName(quantity_type, unit)`: a `UnitsError` when the pair is not registered -/
def Reg.unitName (r : Reg) (qt u : Str) : Except ErrKind Str :=
  match r.names.find? (fun p => p.1 == (qt, u)) with
  | some p => .ok p.2
  | none => .error .units

/-- the attributes of a `Quantity` the property talks about -/
structure Quantity where
  entries : List Entry
  derived : Bool
  category : Str
  qtype : Str
  unit : Str
deriving DecidableEq, Repr

/-- simple branch of `Quantity.__init__` (the entry comes from an existing quantity: the validity
check of the unit is engine Conv's) -/
def newSimple (reg : Reg) (c u : Str) : Except ErrKind Quantity :=
  match reg.qtypeOf c with
  | .error e => .error e
  | .ok qt => .ok { entries := [⟨c, u, 1⟩], derived := false, category := c, qtype := qt, unit := u }

/-- `(quantity type, exp)` of every entry, in order; fails at the first unknown category -/
def typePairs (reg : Reg) : List Entry → Except ErrKind (List (Str × Int))
  | [] => .ok []
  | e :: rest =>
    match reg.qtypeOf e.cat with
    | .error err => .error err
    | .ok qt =>
      match typePairs reg rest with
      | .error err => .error err
      | .ok ps => .ok ((qt, e.exp) :: ps)

def catPairs (entries : List Entry) : List (Str × Int) := entries.map (fun e => (e.cat, e.exp))
def unitPairs (entries : List Entry) : List (Str × Int) := entries.map (fun e => (e.unit, e.exp))

/-- `GetComposingUnitsJoiningExponents` -/
def joinedUnits (entries : List Entry) : List (Str × Int) := joinExps (unitPairs entries)

/-- derived branch of `Quantity.__init__` (`category.__class__ is OrderedDict`) -/
def newDerived (reg : Reg) (entries : List Entry) : Except ErrKind Quantity :=
  match typePairs reg entries with
  | .error e => .error e
  | .ok tps =>
    .ok { entries := entries, derived := true,
          category := makeStr (catPairs entries),
          qtype := makeStr (joinExps tps),
          unit := renderUnit (joinedUnits entries) }

/-- `ObtainQuantity(OrderedDict)`: one entry with exponent 1 is a simple quantity -/
def obtainFromDict (reg : Reg) (entries : List Entry) : Except ErrKind Quantity :=
  match entries with
  | [e] => if e.exp = 1 then newSimple reg e.cat e.unit else newDerived reg entries
  | _ => newDerived reg entries

/-! ### the list/tuple form of `ObtainQuantity` (what `GetComposingUnits()` / `GetComposingCategories()`
return): `ObtainQuantity([(unit, exp), ...], [category, ...])` -/

/-- `d[e.cat] = [e.unit, e.exp]` on an `OrderedDict`: an existing key keeps its place -/
def odictSet : List Entry → Entry → List Entry
  | [], e => [e]
  | x :: rest, e => if x.cat = e.cat then e :: rest else x :: odictSet rest e

/-- `zip(category, unit)`: cut to the shorter of the two -/
def zipEntries : List Str → List (Str × Int) → List Entry
  | c :: cs, (u, x) :: ps => ⟨c, u, x⟩ :: zipEntries cs ps
  | _, _ => []

/-- `OrderedDict((cat, unit_and_exp) for ... in zip(category, unit))` -/
def odictOf (es : List Entry) : List Entry := es.foldl odictSet []

/-- the `isinstance(unit, (list, tuple))` block of `ObtainQuantity` followed by the dict block (the category
argument is a list or tuple here): exactly one pair with exponent 1 is the simple case and takes
`category[0]` (an `IndexError` when there is none), everything else goes through the dict form -/
def obtainFromList (reg : Reg) (pairs : List (Str × Int)) (cats : List Str) : Except ErrKind Quantity :=
  match pairs with
  | [(u, e)] =>
    if e = 1 then
      match cats with
      | c :: _ => newSimple reg c u
      | [] => .error .index
    else obtainFromDict reg (odictOf (zipEntries cats pairs))
  | _ => obtainFromDict reg (odictOf (zipEntries cats pairs))

/-- `(unit name, exp)` of every entry, in order; fails at the first failing lookup -/
def namePairs (reg : Reg) : List Entry → Except ErrKind (List (Str × Int))
  | [] => .ok []
  | e :: rest =>
    match reg.qtypeOf e.cat with
    | .error err => .error err
    | .ok qt =>
      match reg.unitName qt e.unit with
      | .error err => .error err
      | .ok n =>
        match namePairs reg rest with
        | .error err => .error err
        | .ok ps => .ok ((n, e.exp) :: ps)

/-- `Quantity.GetUnitName` (the same code for simple and derived quantities) -/
def Quantity.unitName (reg : Reg) (q : Quantity) : Except ErrKind Str :=
  match namePairs reg q.entries with
  | .error e => .error e
  | .ok ps => .ok (makeStr (joinExps ps))

/-! ### value objects -/

/-- what follows the value in `Scalar.__repr__`: `", '{unit}', '{category}')"` -/
def scalarReprTail (q : Quantity) : Str := [44, 32, 39] ++ q.unit ++ [39, 44, 32, 39] ++ q.category ++ [39, 41]

/-- `"{}({}, '{}', '{}')".format(class name, value, GetUnit(), GetCategory())` -/
def scalarRepr (cls val : Str) (q : Quantity) : Str := cls ++ [40] ++ val ++ scalarReprTail q

/-- `GetFormattedSuffix`: `" [%s]" % unit` -/
def formattedSuffix (q : Quantity) : Str := [32, 91] ++ q.unit ++ [93]

/-- `GetFormatted` / `__str__` of Scalar and Array: formatted value(s) + suffix -/
def valueStr (val : Str) (q : Quantity) : Str := val ++ formattedSuffix q

/-- `"{}({}, {}, {})".format(class name, GetQuantityType(), values_str, GetUnit())` -/
def arrayReprHead (q : Quantity) : Str := q.qtype ++ [44, 32]
def arrayReprTail (q : Quantity) : Str := [44, 32] ++ q.unit ++ [41]
def arrayRepr (cls vals : Str) (q : Quantity) : Str := cls ++ [40] ++ arrayReprHead q ++ vals ++ arrayReprTail q

/-! ### arithmetic on the entry lists (products, quotients, powers) — value-free

What the STRINGS of `a * b`, `a / b`, `number / b`, `q ** n` are is decided by the entry list the operation
builds from the entry lists of the OPERANDS (`UnitDatabase._DoOperationResultingInNewQuantity`): the values do
not influence it.  Written after the same Python as engine Alg's `matchOne / mergeAll / dropZero / opNew`
(Model/Alg.lean), without the numbers and on byte strings, with the two registry lookups of `Reg`:

* `_MatchQuantities`                         → `matchOne`, `matchEntries` (left operand first, one shared `used` dict)
* "add the categories to the resulting one"  → `mergeOne`, `mergeAll`
* "remove the ones that have exponent = 0"   → `keepEntry`, `dropZero`
* `Quantity.CreateDerived` → `ObtainQuantity(dict)` → `obtainFromDict` (the validity of the units of existing
  operands is engine Conv's)
* `Quantity.__pow__` (`result = self * result`, `range(exponent - 1)`) → `qpow`;
  `Scalar.__pow__` (`result = result * self`)                        → `spow`
The `quantities_cache` is not modelled: a memo keyed by the ORDERED entry list returns what would be recomputed. -/

/-- `dict.get(quantity_type)` on the `quantity type -> used unit` dict -/
def lookupUsed (k : Str) : List (Str × Str) → Option Str
  | [] => none
  | (a, b) :: t => if a = k then some b else lookupUsed k t

/-- one operand's pass of the loop in `_MatchQuantities`: the first unit seen for a quantity type is kept, every
later entry of that type gets that unit -/
def matchOne (reg : Reg) : List (Str × Str) → List Entry → Except ErrKind (List (Str × Str) × List Entry)
  | used, [] => .ok (used, [])
  | used, e :: es =>
    match reg.qtypeOf e.cat with
    | .error err => .error err
    | .ok qt =>
      match lookupUsed qt used with
      | none =>
        match matchOne reg ((qt, e.unit) :: used) es with
        | .error err => .error err
        | .ok (u', es') => .ok (u', e :: es')
      | some w =>
        match matchOne reg used es with
        | .error err => .error err
        | .ok (u', es') => .ok (u', { e with unit := w } :: es')

/-- `_MatchQuantities` on the entry lists: the left operand first, then the right one -/
def matchEntries (reg : Reg) (e1 e2 : List Entry) : Except ErrKind (List Entry × List Entry) :=
  match matchOne reg [] e1 with
  | .error err => .error err
  | .ok (used, a) =>
    match matchOne reg used e2 with
    | .error err => .error err
    | .ok (_, b) => .ok (a, b)

inductive NewOp | mul | div
deriving DecidableEq, Repr

/-- `operation_exp` -/
def expOp : NewOp → Int → Int → Int
  | .mul, a, b => a + b
  | .div, a, b => a - b

/-- one iteration of "add the categories to the resulting one": a new category is appended with
`operation_exp(0, exp2)`, an existing one (same unit, otherwise `RuntimeError`) gets the combined exponent -/
def mergeOne (f : Int → Int → Int) : List Entry → Entry → Except ErrKind (List Entry)
  | [], x => .ok [⟨x.cat, x.unit, f 0 x.exp⟩]
  | e :: rest, x =>
    if e.cat = x.cat then
      if e.unit = x.unit then .ok ({ e with exp := f e.exp x.exp } :: rest) else .error .runtime
    else
      match mergeOne f rest x with
      | .error err => .error err
      | .ok rest' => .ok (e :: rest')

def mergeAll (f : Int → Int → Int) : List Entry → List Entry → Except ErrKind (List Entry)
  | e1, [] => .ok e1
  | e1, x :: xs =>
    match mergeOne f e1 x with
    | .error err => .error err
    | .ok e1' => mergeAll f e1' xs

/-- `only_units_expoents[unit]` -/
def unitTotal (u : Str) : List Entry → Int
  | [] => 0
  | e :: es => (if e.unit = u then e.exp else 0) + unitTotal u es

/-- "remove the ones that have exponent = 0": own exponent 0 or accumulated exponent of the unit 0 -/
def keepEntry (all : List Entry) (e : Entry) : Bool := !(decide (e.exp = 0) || decide (unitTotal e.unit all = 0))

def dropZero (es : List Entry) : List Entry := es.filter (keepEntry es)

/-- the entry list `_DoOperationResultingInNewQuantity` hands to `Quantity.CreateDerived` -/
def opEntries (reg : Reg) (op : NewOp) (e1 e2 : List Entry) : Except ErrKind (List Entry) :=
  match matchEntries reg e1 e2 with
  | .error err => .error err
  | .ok (a, b) =>
    match mergeAll (expOp op) a b with
    | .error err => .error err
    | .ok m => .ok (dropZero m)

/-- `q1 * q2`, `q1 / q2` (Quantity, Scalar and Array operands alike: the quantity of the result) -/
def opQ (reg : Reg) (op : NewOp) (q1 q2 : Quantity) : Except ErrKind Quantity :=
  match opEntries reg op q1.entries q2.entries with
  | .error err => .error err
  | .ok es => obtainFromDict reg es

/-- `Quantity.CreateEmpty()`: the left operand of `number / x` -/
def emptyQuantity : Quantity := { entries := [], derived := true, category := [], qtype := [], unit := [] }

/-- the loop of `Quantity.__pow__`: `result = self * result`, `k` times -/
def qpowLoop (reg : Reg) (q : Quantity) : Nat → Quantity → Except ErrKind Quantity
  | 0, r => .ok r
  | k + 1, r =>
    match opQ reg .mul q r with
    | .error err => .error err
    | .ok r' => qpowLoop reg q k r'

/-- `Quantity.__pow__(exponent)`: `range(exponent - 1)` is empty for exponents below 2 (q ** 0, q ** -3 are q) -/
def qpow (reg : Reg) (q : Quantity) (n : Int) : Except ErrKind Quantity := qpowLoop reg q (n - 1).toNat q

/-- the loop of `Scalar.__pow__`: `result = result * self`, `k` times -/
def spowLoop (reg : Reg) (q : Quantity) : Nat → Quantity → Except ErrKind Quantity
  | 0, r => .ok r
  | k + 1, r =>
    match opQ reg .mul r q with
    | .error err => .error err
    | .ok r' => spowLoop reg q k r'

/-- `Scalar.__pow__(exponent)` -/
def spow (reg : Reg) (q : Quantity) (n : Int) : Except ErrKind Quantity := spowLoop reg q (n - 1).toNat q

/-- the `n`-fold product `q * (q * (... * q))` written as the mathematical recursion (`n` = number of
multiplications) -/
def nfoldProduct (reg : Reg) (q : Quantity) : Nat → Except ErrKind Quantity
  | 0 => .ok q
  | k + 1 =>
    match nfoldProduct reg q k with
    | .error err => .error err
    | .ok r => opQ reg .mul q r

/-- every exponent multiplied by `n` -/
def scaleEntries (n : Int) (es : List Entry) : List Entry := es.map (fun e => { e with exp := e.exp * n })

/-- expressions over simple quantities, as the harness builds them on Scalars / Quantities / value-less Arrays -/
inductive Expr
  | leaf (cat unit : Str)
  | mul (a b : Expr)
  | div (a b : Expr)
  | rdiv (a : Expr)
  | spow (a : Expr) (n : Int)
  | qpow (a : Expr) (n : Int)

def Expr.eval (reg : Reg) : Expr → Except ErrKind Quantity
  | .leaf c u => newSimple reg c u
  | .mul a b =>
    match a.eval reg with
    | .error err => .error err
    | .ok qa => match b.eval reg with
      | .error err => .error err
      | .ok qb => opQ reg .mul qa qb
  | .div a b =>
    match a.eval reg with
    | .error err => .error err
    | .ok qa => match b.eval reg with
      | .error err => .error err
      | .ok qb => opQ reg .div qa qb
  | .rdiv a =>
    match a.eval reg with
    | .error err => .error err
    | .ok qa => opQ reg .div emptyQuantity qa
  | .spow a n =>
    match a.eval reg with
    | .error err => .error err
    | .ok qa => Barril.Str.spow reg qa n
  | .qpow a n =>
    match a.eval reg with
    | .error err => .error err
    | .ok qa => Barril.Str.qpow reg qa n

/-- `Quantity.__repr__` without caption, for texts whose Python `repr` is the text in single quotes:
`"Quantity('<category>', '<unit>')"` -/
def quantityRepr (q : Quantity) : Str :=
  [81, 117, 97, 110, 116, 105, 116, 121, 40, 39] ++ q.category ++ [39, 44, 32, 39] ++ q.unit ++ [39, 41]

/-- `Quantity.__repr__` of a quantity with an unknown-unit caption:
`"Quantity('<category>', '<unit>', '<caption>')"` (an empty caption is falsy: the two-argument form) -/
def quantityReprCaption (q : Quantity) (cap : Str) : Str :=
  if cap = [] then quantityRepr q
  else [81, 117, 97, 110, 116, 105, 116, 121, 40, 39] ++ q.category ++ [39, 44, 32, 39] ++ q.unit
    ++ [39, 44, 32, 39] ++ cap ++ [39, 41]

end Barril.Str
