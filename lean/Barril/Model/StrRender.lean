/-
C20: the strings of a quantity.  Core Lean only.

Modelled after (src/barril/units/_quantity.py, as it is now, i.e. with the separator repair 0e344ab):
* `Quantity._MakeStr`                                → `makeStr` (two loops `makeStrNum`, `makeStrDen`)
* `Quantity.GetComposingUnitsJoiningExponents`       → `joinExps` (an `OrderedDict` accumulation)
* `Quantity._CreateUnitsWithJoinedExponentsString`   → `renderUnit` (`renderUnitNum`, `renderUnitDen`)
* `Quantity.GetUnitName`                             → `Quantity.unitName`
* `ObtainQuantity(dict)` "one entry with exponent 1 is simple" + the two branches of
  `Quantity.__init__`                                → `obtainFromDict`, `newSimple`, `newDerived`
* `Scalar.__repr__`, `GetFormattedSuffix`, `GetFormatted`, `Array.__repr__/__str__`
                                                     → `scalarRepr`, `formattedSuffix`, …
Strings are byte lists (`Str`).  The registry is reduced to the two lookups these functions use:
`GetCategoryQuantityType` and `GetUnitName`.
-/
import Barril.Model.Str

namespace Barril.Str

/-! ### `_MakeStr` -/

abbrev sepMul : Str := [32, 42, 32]          -- " * "
abbrev sepDiv : Str := [32, 47, 32]          -- " / "
abbrev oneDiv : Str := [49, 32, 47, 32]      -- "1 / "

/-- `f"({rep}) ** {n}"` -/
def powText (rep : Str) (n : Nat) : Str := [40] ++ rep ++ [41, 32, 42, 42, 32] ++ decimal n

/-- first loop of `_MakeStr` (`ret` is the string built so far; the separator is added when `ret` is
truthy, i.e. not empty) -/
def makeStrNum : Str → List (Str × Int) → Str
  | ret, [] => ret
  | ret, (rep, exp) :: rest =>
    if exp > 0 then
      let ret1 := if ret ≠ [] then ret ++ sepMul else ret
      let ret2 := if exp ≠ 1 then ret1 ++ powText rep exp.toNat else ret1 ++ rep
      makeStrNum ret2 rest
    else makeStrNum ret rest

/-- second loop of `_MakeStr` (`added` is `added_div`) -/
def makeStrDen : Str → Bool → List (Str × Int) → Str
  | ret, _, [] => ret
  | ret, added, (rep, exp) :: rest =>
    if exp < 0 then
      let ret1 := if added = false then (if ret ≠ [] then ret ++ sepDiv else ret ++ oneDiv) else ret ++ sepMul
      let ret2 := if exp ≠ -1 then ret1 ++ powText rep exp.natAbs else ret1 ++ rep
      makeStrDen ret2 true rest
    else makeStrDen ret added rest

/-- `Quantity._MakeStr(repr_and_exp)` -/
def makeStr (items : List (Str × Int)) : Str := makeStrDen (makeStrNum [] items) false items

/-! ### joined exponents (`OrderedDict`: an existing key keeps its place, a new key goes last) -/

/-- `d[k] = d.get(k, 0) + e` -/
def addExp : List (Str × Int) → Str → Int → List (Str × Int)
  | [], k, e => [(k, e)]
  | (v, f) :: rest, k, e => if v = k then (v, f + e) :: rest else (v, f) :: addExp rest k e

def joinExpsFrom (acc : List (Str × Int)) : List (Str × Int) → List (Str × Int)
  | [] => acc
  | (k, e) :: rest => joinExpsFrom (addExp acc k e) rest

/-- the accumulation loop shared by `GetComposingUnitsJoiningExponents`, the quantity-type string and
`GetUnitName` -/
def joinExps (pairs : List (Str × Int)) : List (Str × Int) := joinExpsFrom [] pairs

/-! ### `_CreateUnitsWithJoinedExponentsString` -/

/-- first loop: `unit` or `f"{unit}{exp}"`, '.' between factors -/
def renderUnitNum : Str → List (Str × Int) → Str
  | ret, [] => ret
  | ret, (unit, exp) :: rest =>
    if exp > 0 then
      let ret1 := if ret ≠ [] then ret ++ [cDot] else ret
      let ret2 := if exp ≠ 1 then ret1 ++ (unit ++ decimal exp.toNat) else ret1 ++ unit
      renderUnitNum ret2 rest
    else renderUnitNum ret rest

/-- second loop: '/' (or '1/') before the first factor, '.' before the others (repair 0e344ab) -/
def renderUnitDen : Str → Bool → List (Str × Int) → Str
  | ret, _, [] => ret
  | ret, added, (unit, exp) :: rest =>
    if exp < 0 then
      let ret1 := if added = false then (if ret ≠ [] then ret ++ [cSlash] else ret ++ [cOne, cSlash]) else ret ++ [cDot]
      let ret2 := ret1 ++ unit
      let ret3 := if exp ≠ -1 then ret2 ++ decimal exp.natAbs else ret2
      renderUnitDen ret3 true rest
    else renderUnitDen ret added rest

/-- the unit string of joined composing units -/
def renderUnit (joined : List (Str × Int)) : Str := renderUnitDen (renderUnitNum [] joined) false joined

/-! ### quantities -/

/-- one item of `_category_to_unit_and_exps` -/
structure Entry where
  cat : Str
  unit : Str
  exp : Int
deriving DecidableEq, Repr

/-- the registry facts the strings depend on -/
structure Reg where
  /-- category → quantity type -/
  cats : List (Str × Str)
  /-- (quantity type, unit) → registered unit name -/
  names : List ((Str × Str) × Str)

/-- `GetCategoryQuantityType`: `InvalidQuantityTypeError` (a `UnitsError`) for an unknown category -/
def Reg.qtypeOf (r : Reg) (c : Str) : Except ErrKind Str :=
  match r.cats.find? (fun p => p.1 == c) with
  | some p => .ok p.2
  | none => .error .units

/-- `UnitDatabase.GetUnitName(quantity_type, unit)`: a `UnitsError` when the pair is not registered -/
def Reg.unitName (r : Reg) (qt u : Str) : Except ErrKind Str :=
  match r.names.find? (fun p => p.1 == (qt, u)) with
  | some p => .ok p.2
  | none => .error .units

/-- the attributes of a `Quantity` the property talks about -/
structure Quantity where
  entries : List Entry
  derived : Bool
  category : Str
  qtype : Str
  unit : Str
deriving DecidableEq, Repr

/-- simple branch of `Quantity.__init__` (the entry comes from an existing quantity: the validity
check of the unit is engine Conv's) -/
def newSimple (reg : Reg) (c u : Str) : Except ErrKind Quantity :=
  match reg.qtypeOf c with
  | .error e => .error e
  | .ok qt => .ok { entries := [⟨c, u, 1⟩], derived := false, category := c, qtype := qt, unit := u }

/-- `(quantity type, exp)` of every entry, in order; fails at the first unknown category -/
def typePairs (reg : Reg) : List Entry → Except ErrKind (List (Str × Int))
  | [] => .ok []
  | e :: rest =>
    match reg.qtypeOf e.cat with
    | .error err => .error err
    | .ok qt =>
      match typePairs reg rest with
      | .error err => .error err
      | .ok ps => .ok ((qt, e.exp) :: ps)

def catPairs (entries : List Entry) : List (Str × Int) := entries.map (fun e => (e.cat, e.exp))
def unitPairs (entries : List Entry) : List (Str × Int) := entries.map (fun e => (e.unit, e.exp))

/-- `GetComposingUnitsJoiningExponents` -/
def joinedUnits (entries : List Entry) : List (Str × Int) := joinExps (unitPairs entries)

/-- derived branch of `Quantity.__init__` (`category.__class__ is OrderedDict`) -/
def newDerived (reg : Reg) (entries : List Entry) : Except ErrKind Quantity :=
  match typePairs reg entries with
  | .error e => .error e
  | .ok tps =>
    .ok { entries := entries, derived := true,
          category := makeStr (catPairs entries),
          qtype := makeStr (joinExps tps),
          unit := renderUnit (joinedUnits entries) }

/-- `ObtainQuantity(OrderedDict)`: one entry with exponent 1 is a simple quantity -/
def obtainFromDict (reg : Reg) (entries : List Entry) : Except ErrKind Quantity :=
  match entries with
  | [e] => if e.exp = 1 then newSimple reg e.cat e.unit else newDerived reg entries
  | _ => newDerived reg entries

/-! ### the list/tuple form of `ObtainQuantity` (what `GetComposingUnits()` / `GetComposingCategories()`
return): `ObtainQuantity([(unit, exp), ...], [category, ...])` -/

/-- `d[e.cat] = [e.unit, e.exp]` on an `OrderedDict`: an existing key keeps its place -/
def odictSet : List Entry → Entry → List Entry
  | [], e => [e]
  | x :: rest, e => if x.cat = e.cat then e :: rest else x :: odictSet rest e

/-- `zip(category, unit)`: cut to the shorter of the two -/
def zipEntries : List Str → List (Str × Int) → List Entry
  | c :: cs, (u, x) :: ps => ⟨c, u, x⟩ :: zipEntries cs ps
  | _, _ => []

/-- `OrderedDict((cat, unit_and_exp) for ... in zip(category, unit))` -/
def odictOf (es : List Entry) : List Entry := es.foldl odictSet []

/-- the `isinstance(unit, (list, tuple))` block of `ObtainQuantity` followed by the dict block (the category
argument is a list or tuple here): exactly one pair with exponent 1 is the simple case and takes
`category[0]` (an `IndexError` when there is none), everything else goes through the dict form -/
def obtainFromList (reg : Reg) (pairs : List (Str × Int)) (cats : List Str) : Except ErrKind Quantity :=
  match pairs with
  | [(u, e)] =>
    if e = 1 then
      match cats with
      | c :: _ => newSimple reg c u
      | [] => .error .index
    else obtainFromDict reg (odictOf (zipEntries cats pairs))
  | _ => obtainFromDict reg (odictOf (zipEntries cats pairs))

/-- `(unit name, exp)` of every entry, in order; fails at the first failing lookup -/
def namePairs (reg : Reg) : List Entry → Except ErrKind (List (Str × Int))
  | [] => .ok []
  | e :: rest =>
    match reg.qtypeOf e.cat with
    | .error err => .error err
    | .ok qt =>
      match reg.unitName qt e.unit with
      | .error err => .error err
      | .ok n =>
        match namePairs reg rest with
        | .error err => .error err
        | .ok ps => .ok ((n, e.exp) :: ps)

/-- `Quantity.GetUnitName` (the same code for simple and derived quantities) -/
def Quantity.unitName (reg : Reg) (q : Quantity) : Except ErrKind Str :=
  match namePairs reg q.entries with
  | .error e => .error e
  | .ok ps => .ok (makeStr (joinExps ps))

/-! ### value objects -/

/-- what follows the value in `Scalar.__repr__`: `", '{unit}', '{category}')"` -/
def scalarReprTail (q : Quantity) : Str := [44, 32, 39] ++ q.unit ++ [39, 44, 32, 39] ++ q.category ++ [39, 41]

/-- `"{}({}, '{}', '{}')".format(class name, value, GetUnit(), GetCategory())` -/
def scalarRepr (cls val : Str) (q : Quantity) : Str := cls ++ [40] ++ val ++ scalarReprTail q

/-- `GetFormattedSuffix`: `" [%s]" % unit` -/
def formattedSuffix (q : Quantity) : Str := [32, 91] ++ q.unit ++ [93]

/-- `GetFormatted` / `__str__` of Scalar and Array: formatted value(s) + suffix -/
def valueStr (val : Str) (q : Quantity) : Str := val ++ formattedSuffix q

/-- `"{}({}, {}, {})".format(class name, GetQuantityType(), values_str, GetUnit())` -/
def arrayReprHead (q : Quantity) : Str := q.qtype ++ [44, 32]
def arrayReprTail (q : Quantity) : Str := [44, 32] ++ q.unit ++ [41]
def arrayRepr (cls vals : Str) (q : Quantity) : Str := cls ++ [40] ++ arrayReprHead q ++ vals ++ arrayReprTail q

end Barril.Str
