/-
C17: `UnitSystemManager` (src/barril/units/unit_system_manager.py) and `UnitSystem`
(src/barril/units/unit_system.py) as a state machine with a callback log.

Python objects are heap cells: `Mgr.heap` lists every `UnitSystem` object the manager ever created
for a caller, in allocation order; address 0 is the private `__null_unit_system`.  An object
argument of a call (`SetCurrent(system)`, `system.SetDefaultUnit(..)`) is an address.  Python
references cannot dangle; an address outside the heap has no counterpart in the code and is
answered `.error .other` with nothing changed (the driver never sends one).

Dicts (`_units_mapping`, the `OrderedDict` `_unit_systems`) are association lists in insertion
order with Python's update rules (`dset` keeps the position of an existing key, appends a new one).

oop_ext callbacks: `system.on_default_unit` has at most one listener the manager ever registers,
the bound method `_CategoryUnitChange` (Register is idempotent, Unregister of an absent method is a
no-op), so it is the bit `USys.listening`.  The manager's own `on_current` / `on_unit_changed`
callbacks are the observable log: every call appends `Event`s.

Value objects (`Register(obj)`): the manager keeps `_IdentityWrap`s (a weak reference each, identity hash:
every `Register` call adds a new wrap, the `_OnRefKilled` callback of a dying object removes its wraps)
and rewrites `obj.unit` from the current system at `Register` and in `UpdateObjects` (called at the end
of EVERY `SetCurrent`, and by nobody else: a default-unit change of the current system fires
`on_unit_changed` but does not touch the objects).  `Mgr.objs` lists every value object ever registered
with what the manager uses of it (`GetCategory()`, the settable attribute `unit`, alive or not, number of
wraps).  Objects whose `unit` cannot be assigned (every barril `Scalar`/`Array`: read-only property) make
`UpdateObjects` raise after the state changed; they are not modelled (finding C17-updateobjects-readonly-unit).

Listeners of the manager's own callbacks: `Res.log` lists the INVOCATIONS of `on_current` /
`on_unit_changed`; the observer's two listeners are the bits `obsCur` / `obsUnit` (`ResetInstance`
clears both, `on_current.Register(f)` / `on_unit_changed.Register(f)` set one), and `seen` is what the
observer receives.

Modelled as the code is NOW (after `fix:` b44ce2a and b5b3988): `UnitSystem.__init__` copies the
mapping, `RemoveUnitSystem` works when nothing is current, `SetCurrent` accepts ANY system
(registered or not: known finding C17-setcurrent-unregistered), `SetDefaultUnit` checks neither the
read-only flag nor the unit, `RemoveUnitSystem` compares the current system's *id* (not identity).
-/
import Barril.Model.Conv

namespace Barril.Mgr
open Barril

/-! ### ordered dicts `category ↦ unit` -/

abbrev Dict := List (Sym × Sym)

/-- `d.get(k)` -/
def dget : Dict → Sym → Option Sym
  | [], _ => none
  | (k', v) :: r, k => if k' == k then some v else dget r k

/-- `k in d` -/
def dhas : Dict → Sym → Bool
  | [], _ => false
  | (k', _) :: r, k => k' == k || dhas r k

/-- `d[k] = v`: an existing key keeps its position, a new key goes to the end -/
def dset : Dict → Sym → Sym → Dict
  | [], k, v => [(k, v)]
  | (k', v') :: r, k, v => if k' == k then (k', v) :: r else (k', v') :: dset r k v

/-- `del d[k]` (for a key that is present; otherwise unchanged) -/
def derase : Dict → Sym → Dict
  | [], _ => []
  | (k', v') :: r, k => if k' == k then r else (k', v') :: derase r k

/-- `list(d.keys())` -/
def dkeys (d : Dict) : List Sym := d.map (·.1)

/-- `dict(pairs)`: later pairs overwrite earlier ones -/
def dofList (l : List (Sym × Sym)) : Dict := l.foldl (fun d p => dset d p.1 p.2) []

/-- `set(d.keys()).issuperset(set(required))` (`_CheckUnitSystemMapping`) -/
def covers (d : Dict) (required : List Sym) : Bool := required.all (fun k => dhas d k)

/-- dict equality: same size and every item of `a` is an item of `b` (keys are unique) -/
def deq (a b : Dict) : Bool := a.length == b.length && a.all (fun p => dget b p.1 == some p.2)

/-! ### `UnitSystem` -/

structure USys where
  /-- `_id` (`None` only for the manager's null system) -/
  id : Option Sym
  caption : Sym
  /-- `_units_mapping` -/
  mapping : Dict
  readOnly : Bool
  /-- the manager's `_CategoryUnitChange` is registered in `on_default_unit` -/
  listening : Bool
deriving DecidableEq, Repr

/-- `UnitSystem.__init__`: copies the mapping (`dict(units_mapping)`), fresh empty callback -/
def USys.new (id : Option Sym) (caption : Sym) (mapping : List (Sym × Sym)) (ro : Bool) : USys :=
  ⟨id, caption, dofList mapping, ro, false⟩

/-- `GetDefaultUnit`: `None` for a falsy category (the empty string = symbol 0) -/
def USys.getDefaultUnit (o : USys) (c : Sym) : Option Sym :=
  if c == 0 then none else dget o.mapping c

/-- `__eq__` between two unit systems -/
def USys.eq (a b : USys) : Bool :=
  a.id == b.id && a.caption == b.caption && deq a.mapping b.mapping && a.readOnly == b.readOnly

/-- what the listeners of the manager see -/
inductive Event
  /-- `on_current(system)`; the null system is address 0 -/
  | current (a : Nat)
  /-- `on_unit_changed(category, unit)` -/
  | unitChanged (c : Sym) (u : Option Sym)
deriving DecidableEq, Repr

/-- `self.on_default_unit(category, unit)`: reaches the manager's `on_unit_changed` exactly when the
manager's listener is registered on this system -/
def USys.fire (o : USys) (c : Sym) (u : Option Sym) : List Event :=
  if o.listening then [.unitChanged c u] else []

/-! ### value objects -/

/-- what the manager uses of a registered `AbstractValueWithQuantityObject` -/
structure VObj where
  /-- `GetCategory()` -/
  cat : Sym
  /-- the attribute `unit` -/
  unit : Sym
  /-- number of `_IdentityWrap`s of this object in `_object_refs` -/
  wraps : Nat
  /-- the caller still holds the object (a dead object is only remembered by the model) -/
  alive : Bool
deriving DecidableEq, Repr

/-- `unit = system.GetDefaultUnit(obj.GetCategory()); if unit is not None: obj.unit = unit` for a live
object (a dead one has no wrap left / its `wrap.ref()` is `None`) -/
def VObj.update (s : USys) (o : VObj) : VObj :=
  if o.alive then
    match s.getDefaultUnit o.cat with
    | some u => { o with unit := u }
    | none => o
  else o

/-- the same guarded by `if current is not None` -/
def VObj.refresh : Option USys → VObj → VObj
  | none, o => o
  | some s, o => o.update s

/-! ### `UnitSystemManager` -/

structure Mgr where
  heap : List USys
  /-- `_unit_systems`: id ↦ object, insertion order -/
  reg : List (Sym × Nat)
  /-- `_current` -/
  cur : Option Nat
  /-- `_unit_system_template` (not in `heap`: callers only read its mapping) -/
  tmpl : Option USys
  /-- every value object ever passed to `Register`, in order of first registration -/
  objs : List VObj
  /-- the observer's listener is registered on `on_current` -/
  obsCur : Bool
  /-- the observer's listener is registered on `on_unit_changed` -/
  obsUnit : Bool
deriving DecidableEq, Repr

def symNull : Sym := Sym.ofString "Null"
def symTemplate : Sym := Sym.ofString "template"
def symTemplateCaption : Sym := Sym.ofString "Unit system template"

def nullSys : USys := USys.new none symNull [] true

/-- `UnitSystemManager.__init__` -/
def Mgr.init : Mgr := ⟨[nullSys], [], none, none, [], false, false⟩

inductive Out
  | none
  /-- a `UnitSystem` object -/
  | sys (a : Nat)
  | unit (u : Option Sym)
  | bool (b : Bool)
  /-- `(value, unit)` of `ConvertToCurrent` -/
  | value (x : Rat) (u : Sym)
  /-- value, unit, category of the Scalar returned by `ConvertScalarToCurrent` -/
  | scalar (x : Rat) (u c : Sym)
  | newId (s : Sym)
  | systems (l : List (Sym × Nat))
deriving DecidableEq, Repr

/-- new state, result or error, callbacks fired during the call -/
structure Res where
  mgr : Mgr
  out : Except ErrKind Out
  log : List Event

def Res.reject (m : Mgr) (e : ErrKind) : Res := ⟨m, .error e, []⟩
def Res.answer (m : Mgr) (o : Out) : Res := ⟨m, .ok o, []⟩

def regHas (reg : List (Sym × Nat)) (id : Sym) : Bool := reg.any (·.1 == id)
def regGet (reg : List (Sym × Nat)) (id : Sym) : Option Nat := (reg.find? (·.1 == id)).map (·.2)
/-- `del self._unit_systems[id]` (keys are unique, see `MgrWf`) -/
def regErase (reg : List (Sym × Nat)) (id : Sym) : List (Sym × Nat) := reg.filter (·.1 != id)

/-- `on_default_unit.Register/Unregister(self._CategoryUnitChange)` on the object at `a` -/
def setListening (h : List USys) (a : Nat) (b : Bool) : List USys :=
  h.modify a (fun o => { o with listening := b })

/-- first statement of `SetCurrent`: unregister from the old current system -/
def unregisterCurrent (m : Mgr) : List USys :=
  match m.cur with
  | none => m.heap
  | some c => setListening m.heap c false

/-- the object in `self._current` -/
def Mgr.curSys (m : Mgr) : Option USys :=
  match m.cur with
  | none => none
  | some c => m.heap[c]?

/-- `UpdateObjects()`: every live registered object takes the current system's default unit of its
category, if there is one (the order of the set iteration does not matter: the objects are independent) -/
def updateObjects (m : Mgr) : Mgr := { m with objs := m.objs.map (VObj.refresh m.curSys) }

/-- `SetCurrent(unit_system)`: move the listener, notify `on_current`, then `UpdateObjects()` -/
def setCurrent (m : Mgr) : Option Nat → Mgr × List Event
  | none => (updateObjects { m with heap := unregisterCurrent m, cur := none }, [.current 0])
  | some a =>
    (updateObjects { m with heap := setListening (unregisterCurrent m) a true, cur := some a }, [.current a])

/-- address of the object `GetCurrent()` returns -/
def Mgr.currentAddr (m : Mgr) : Nat :=
  match m.cur with
  | none => 0
  | some c => c

/-- `GetCurrent().GetDefaultUnit(category)` -/
def Mgr.currentDefault (m : Mgr) (c : Sym) : Option Sym :=
  match m.heap[m.currentAddr]? with
  | some o => o.getDefaultUnit c
  | none => none

/-- ids of the registered systems that do not cover the categories (`invalid_unit_systems`) -/
def invalidSystems (m : Mgr) (required : List Sym) : List (Option Sym) :=
  m.reg.filterMap (fun p =>
    match m.heap[p.2]? with
    | some o => if covers o.mapping required then none else some o.id
    | none => none)

/-- `SetTemplateUnitSystemByUnitsMapping` -/
def setTemplate (m : Mgr) (mp : List (Sym × Sym)) : Res :=
  if (invalidSystems m (dkeys mp)).isEmpty then
    ⟨{ m with tmpl := some (USys.new (some symTemplate) symTemplateCaption mp true) }, .ok .none, []⟩
  else Res.reject m .runtime

/-- the mapping a new system gets: template check of `AddUnitSystem` -/
def resolveMapping (tmpl : Option USys) (mp : Option (List (Sym × Sym))) :
    Except ErrKind (List (Sym × Sym)) :=
  match tmpl, mp with
  | some t, none => .ok t.mapping                              -- deepcopy of the template's mapping
  | some t, some d => if covers d (dkeys t.mapping) then .ok d else .error .key
  | none, none => .ok []
  | none, some d => .ok d

/-- `unit_system = UnitSystem(id, caption, units_mapping, read_only); self._unit_systems[id] = unit_system`
for an id that is not in use: a new object at the next address, appended to the registry -/
def Mgr.register (m : Mgr) (id cap : Sym) (d : List (Sym × Sym)) (ro : Bool) : Mgr :=
  { m with heap := m.heap ++ [USys.new (some id) cap d ro], reg := m.reg ++ [(id, m.heap.length)] }

/-- `AddUnitSystem(id, caption, units_mapping, read_only)` -/
def addUnitSystem (m : Mgr) (id cap : Sym) (mp : Option (List (Sym × Sym))) (ro : Bool) : Res :=
  if regHas m.reg id then Res.reject m .key else
  match resolveMapping m.tmpl mp with
  | .error e => Res.reject m e
  | .ok d =>
    match m.cur with
    | none =>
      ⟨(setCurrent (m.register id cap d ro) (some m.heap.length)).1, .ok (.sys m.heap.length),
       (setCurrent (m.register id cap d ro) (some m.heap.length)).2⟩
    | some _ => ⟨m.register id cap d ro, .ok (.sys m.heap.length), []⟩

/-- `self._current.GetId()` -/
def Mgr.currentId (m : Mgr) : Option Sym :=
  match m.cur with
  | none => none
  | some c =>
    match m.heap[c]? with
    | some o => o.id
    | none => none

/-- the selection `RemoveUnitSystem` makes after removing the current system -/
def nextCurrent (reg : List (Sym × Nat)) : Option Nat :=
  match reg with
  | p :: _ => some p.2
  | [] => none

/-- `del self._unit_systems[id]` -/
def Mgr.unregister (m : Mgr) (id : Sym) : Mgr := { m with reg := regErase m.reg id }

/-- `RemoveUnitSystem(id)` -/
def removeUnitSystem (m : Mgr) (id : Sym) : Res :=
  if !regHas m.reg id then Res.reject m .key else
  if m.cur.isSome && m.currentId == some id then
    ⟨(setCurrent (m.unregister id) (nextCurrent (m.unregister id).reg)).1, .ok .none,
     (setCurrent (m.unregister id) (nextCurrent (m.unregister id).reg)).2⟩
  else ⟨m.unregister id, .ok .none, []⟩

/-- `system.SetDefaultUnit(category, unit)` for the object at `a` -/
def setDefaultUnit (m : Mgr) (a : Nat) (c u : Sym) : Res :=
  match m.heap[a]? with
  | none => Res.reject m .other
  | some o =>
    ⟨{ m with heap := m.heap.set a { o with mapping := dset o.mapping c u } }, .ok .none, o.fire c (some u)⟩

/-- `system.RemoveCategory(category)`: `KeyError` is swallowed, nothing fired -/
def removeCategory (m : Mgr) (a : Nat) (c : Sym) : Res :=
  match m.heap[a]? with
  | none => Res.reject m .other
  | some o =>
    if dhas o.mapping c then
      ⟨{ m with heap := m.heap.set a { o with mapping := derase o.mapping c } }, .ok .none, o.fire c none⟩
    else Res.answer m .none

/-- `ConvertToCurrent(category, unit, value)` with the database `db` -/
def convertToCurrent (db : Db) (m : Mgr) (c u : Sym) (x : Rat) : Except ErrKind (Rat × Sym) :=
  match m.currentDefault c with
  | none => .ok (x, u)
  | some t =>
    match db.convert c u t x with
    | .ok y => .ok (y, t)
    | .error e => .error e

/-- `ConvertScalarToCurrent(Scalar(value, unit, category))`: the construction of the argument, the
conversion, and `CreateCopy(value=…[, unit=…])` which re-validates a changed unit -/
def convertScalarToCurrent (db : Db) (m : Mgr) (c u : Sym) (x : Rat) : Except ErrKind Out :=
  if !db.categoryUnitValid c u then .error .units else
  match convertToCurrent db m c u x with
  | .error e => .error e
  | .ok (y, t) =>
    if t == u then .ok (.scalar y u c)
    else if db.categoryUnitValid c t then .ok (.scalar y t c) else .error .units

/-! ### value objects, observers, caption / read-only flag -/

/-- `Register(obj)` for an object the manager has not seen: one new wrap, and the object is brought to
the current system at once -/
def registerNew (m : Mgr) (c u : Sym) : Res :=
  ⟨{ m with objs := m.objs ++ [VObj.refresh m.curSys ⟨c, u, 1, true⟩] }, .ok .none, []⟩

/-- `Register(obj)` for the (live) object number `i` again: ANOTHER wrap (`_IdentityWrap` defines neither
`__eq__` nor `__hash__`), and the object is brought to the current system -/
def registerAgain (m : Mgr) (i : Nat) : Res :=
  match m.objs[i]? with
  | none => Res.reject m .other
  | some o =>
    if o.alive then
      ⟨{ m with objs := m.objs.set i (VObj.refresh m.curSys { o with wraps := o.wraps + 1 }) }, .ok .none, []⟩
    else Res.reject m .other

/-- the caller drops its last reference to object `i`: `_OnRefKilled` removes every wrap of it -/
def killObj (m : Mgr) (i : Nat) : Res :=
  match m.objs[i]? with
  | none => Res.reject m .other
  | some o => ⟨{ m with objs := m.objs.set i { o with wraps := 0, alive := false } }, .ok .none, []⟩

/-- the caller assigns `obj.unit = u` itself (no call into the library) -/
def objSetUnit (m : Mgr) (i : Nat) (u : Sym) : Res :=
  match m.objs[i]? with
  | none => Res.reject m .other
  | some o =>
    if o.alive then ⟨{ m with objs := m.objs.set i { o with unit := u } }, .ok .none, []⟩
    else Res.reject m .other

/-- `ResetInstance()`: `UnregisterAll` on both callbacks of the manager — and nothing else (registry,
current system, the manager's own listener on the current system and the registered objects stay) -/
def resetInstance (m : Mgr) : Res := ⟨{ m with obsCur := false, obsUnit := false }, .ok .none, []⟩

/-- `system.SetCaption(caption)` -/
def setCaption (m : Mgr) (a : Nat) (cap : Sym) : Res :=
  match m.heap[a]? with
  | none => Res.reject m .other
  | some o => ⟨{ m with heap := m.heap.set a { o with caption := cap } }, .ok .none, []⟩

/-- `system.SetReadOnly(flag)` (the flag is stored and compared by `__eq__`; nothing consults it) -/
def setReadOnly (m : Mgr) (a : Nat) (b : Bool) : Res :=
  match m.heap[a]? with
  | none => Res.reject m .other
  | some o => ⟨{ m with heap := m.heap.set a { o with readOnly := b } }, .ok .none, []⟩

/-- which invocations of the manager's callbacks reach the observer -/
def Event.seenBy (m : Mgr) : Event → Bool
  | .current _ => m.obsCur
  | .unitChanged _ _ => m.obsUnit

/-- what the observer receives of a callback log produced in state `m` -/
def seen (m : Mgr) (log : List Event) : List Event := log.filter (Event.seenBy m)

/-! ### `GetNewId` -/

/-- `"%d" % n`, most significant digit first, as bytes -/
def decDigitsFuel : Nat → Nat → List Nat
  | 0, _ => []
  | fuel + 1, n => if n < 10 then [48 + n] else decDigitsFuel fuel (n / 10) ++ [48 + n % 10]

def decDigits (n : Nat) : List Nat := decDigitsFuel (n + 1) n

/-- bytes of `"system "` -/
def systemPrefix : List Nat := [115, 121, 115, 116, 101, 109, 32]

/-- `"%s %d" % ("system", count)` -/
def newIdCandidate (count : Nat) : Sym := Sym.ofBytes (systemPrefix ++ decDigits count)

/-- the `while new_id in ids` loop; the fuel is the number of candidates tried -/
def findNewId : Nat → Nat → List Sym → Option Sym
  | 0, _, _ => none
  | fuel + 1, count, ids =>
    if ids.contains (newIdCandidate count) then findNewId fuel (count + 1) ids
    else some (newIdCandidate count)

/-- `GetNewId()`: `ids.length + 1` candidates always suffice (`getNewId_fresh`) -/
def getNewId (m : Mgr) : Option Sym := findNewId (m.reg.length + 1) 1 (m.reg.map (·.1))

/-! ### the state machine -/

inductive Op
  | setTemplate (mp : List (Sym × Sym))
  | add (id cap : Sym) (mp : Option (List (Sym × Sym))) (ro : Bool)
  | remove (id : Sym)
  | setCurrent (a : Option Nat)
  | setDefaultUnit (a : Nat) (c u : Sym)
  | removeCategory (a : Nat) (c : Sym)
  | getDefaultUnit (a : Nat) (c : Sym)
  | sysEq (a b : Nat)
  | convertToCurrent (c u : Sym) (x : Rat)
  | convertScalarToCurrent (c u : Sym) (x : Rat)
  | getCategoryDefaultUnit (c : Sym)
  | getQuantityDefaultUnit (c u : Sym)
  | getNewId
  | getById (id : Sym)
  | getUnitSystems
  | getCurrent
  /-- `Register(obj)` with a new object of category `c` and unit `u` -/
  | register (c u : Sym)
  | registerAgain (i : Nat)
  | kill (i : Nat)
  | objSetUnit (i : Nat) (u : Sym)
  /-- a direct call of the public `UpdateObjects()` -/
  | updateObjects
  | resetInstance
  /-- `on_current.Register(observer)` -/
  | observeCurrent
  /-- `on_unit_changed.Register(observer)` -/
  | observeUnit
  | setCaption (a : Nat) (cap : Sym)
  | setReadOnly (a : Nat) (b : Bool)
  /-- `system == x` for an `x` that is no unit system -/
  | sysEqOther (a : Nat)
  /-- `SetDefaultUnitSystemClass(cls)`; `ok` = `cls` implements `IUnitSystem`.  The class of the systems created
  later is not part of the modelled state: an accepted class is a subclass of `UnitSystem` that behaves like it. -/
  | setSystemClass (ok : Bool)
deriving Repr

/-- one public call on the manager or on one of its unit systems -/
def step (db : Db) (m : Mgr) : Op → Res
  | .setTemplate mp => setTemplate m mp
  | .add id cap mp ro => addUnitSystem m id cap mp ro
  | .remove id => removeUnitSystem m id
  | .setCurrent none => ⟨(setCurrent m none).1, .ok .none, (setCurrent m none).2⟩
  | .setCurrent (some a) =>
    if a < m.heap.length then ⟨(setCurrent m (some a)).1, .ok .none, (setCurrent m (some a)).2⟩
    else Res.reject m .other
  | .setDefaultUnit a c u => setDefaultUnit m a c u
  | .removeCategory a c => removeCategory m a c
  | .getDefaultUnit a c =>
    match m.heap[a]? with
    | some o => Res.answer m (.unit (o.getDefaultUnit c))
    | none => Res.reject m .other
  | .sysEq a b =>
    match m.heap[a]?, m.heap[b]? with
    | some x, some y => Res.answer m (.bool (x.eq y))
    | _, _ => Res.reject m .other
  | .convertToCurrent c u x =>
    match convertToCurrent db m c u x with
    | .ok (y, t) => Res.answer m (.value y t)
    | .error e => Res.reject m e
  | .convertScalarToCurrent c u x =>
    match convertScalarToCurrent db m c u x with
    | .ok o => Res.answer m o
    | .error e => Res.reject m e
  | .getCategoryDefaultUnit c => Res.answer m (.unit (m.currentDefault c))
  | .getQuantityDefaultUnit c u =>
    -- the argument `ObtainQuantity(u, c)` must exist; the quantity's own unit is the fallback
    if !db.categoryUnitValid c u then Res.reject m .units else
    match m.currentDefault c with
    | some t => Res.answer m (.unit (some t))
    | none => Res.answer m (.unit (some u))
  | .getNewId =>
    match getNewId m with
    | some s => Res.answer m (.newId s)
    | none => Res.reject m .other
  | .getById id =>
    match regGet m.reg id with
    | some a => Res.answer m (.sys a)
    | none => Res.reject m .value
  | .getUnitSystems => Res.answer m (.systems m.reg)
  | .getCurrent => Res.answer m (.sys m.currentAddr)
  | .register c u => registerNew m c u
  | .registerAgain i => registerAgain m i
  | .kill i => killObj m i
  | .objSetUnit i u => objSetUnit m i u
  | .updateObjects => ⟨updateObjects m, .ok .none, []⟩
  | .resetInstance => resetInstance m
  | .observeCurrent => ⟨{ m with obsCur := true }, .ok .none, []⟩
  | .observeUnit => ⟨{ m with obsUnit := true }, .ok .none, []⟩
  | .setCaption a cap => setCaption m a cap
  | .setReadOnly a b => setReadOnly m a b
  | .sysEqOther a =>
    match m.heap[a]? with
    | some _ => Res.answer m (.bool false)
    | none => Res.reject m .other
  | .setSystemClass ok => if ok then Res.answer m .none else Res.reject m .assertion

/-- the manager after a history -/
def run (db : Db) (m : Mgr) : List Op → Mgr
  | [] => m
  | op :: ops => run db (step db m op).mgr ops

/-- the callback log of a history -/
def runLog (db : Db) (m : Mgr) : List Op → List Event
  | [] => []
  | op :: ops => (step db m op).log ++ runLog db (step db m op).mgr ops

/-- what the observer receives during a history -/
def runSeen (db : Db) (m : Mgr) : List Op → List Event
  | [] => []
  | op :: ops => seen m (step db m op).log ++ runSeen db (step db m op).mgr ops

end Barril.Mgr
