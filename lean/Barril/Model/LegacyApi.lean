/-
C16 engine `Legacy`: every API entry of barril that takes a unit string and gives legacy spellings a
meaning, written after the Python function by function (memo tables `_category_unit_valid` and
`quantities_cache` left out: they are C07/C15's subject and are emptied by every registration).

Modelled after
* `UnitDatabase.GetDefaultCategory`                         → `getDefaultCategory`
* simple branch of `Quantity.__init__(category, unit)`       → `newQuantity`   (legacy retry after
  `CheckCategoryUnit` said `InvalidUnitError`, then `GetInfo(.., fix_unknown=True)` for `_tobase`)
* `ObtainQuantity(unit: str, category: str | None)`          → `obtainQuantity`
* `ObtainQuantity({category: (unit, exp)})` / `ObtainQuantity([(unit, exp)], [category])` (composing
  mapping forms, cold cache) → `obtainFromMapping`, `obtainFromLists`
* `Scalar/Array/FractionScalar(value, unit[, category])`     → `create`        (= `ObtainQuantity`)
* `Quantity.ConvertScalarValue` (`Scalar.GetValue(unit)`)    → `getValue`
* `Array.GetValues(unit)` → `Quantity.Convert` → `UnitDatabase.Convert` on a list → `getValues`,
  `convertList`
* `AbstractValueWithQuantityObject.CreateCopy(unit=…)`       → `createCopy`
* the unit handling of `UnitDatabase.AddCategory` (valid units, default unit; `from_category`,
  limits and the caption default are not modelled: the caption is always passed)  → `addCategory`
* `AbstractValueWithQuantityObject.__init__(category, None, unit)` with `Scalar._GetDefaultValue` /
  `FractionScalar._GetDefaultValue` / `Array._GetDefaultValue` / `FixedArray._GetDefaultValue`
  → `createValueless`, `defaultValueIn`, `constDefault`, `createDefault`, `createDefaultList`
* `Array.CreateCopy(unit=…)` → `createCopyList`; `UnitDatabase.GetUnitName` → `getUnitName`
* `AddCategory` with `default_value`, limits and exclusivity flags → `addCategoryFull`
`UnitDatabase.GetInfo`/`Convert`/`CheckCategoryUnit` are `Db.getInfo`/`Db.convert`/
`Db.categoryUnitValid` of `Model/Conv.lean`; `FixUnitIfIsLegacy` is `fixLegacy`/`isLegacy` of
`Model/Legacy.lean`.
-/
import Barril.Model.Conv

namespace Barril

/-! ### derived legacy spellings (the quantifier of C16) -/

/-- `pat in s` on byte strings -/
def containsB : List Nat → List Nat → Bool
  | [], pat => isPrefixB pat []
  | c :: cs, pat => isPrefixB pat (c :: cs) || containsB cs pat

/-- the legacy spellings of one current symbol: for every entry `(legacy, current)` of the list whose
`current` fragment occurs in the symbol, the symbol with that fragment written the legacy way -/
def deriveFor (legacy : List (Sym × Sym)) (u : Sym) : List (Sym × Sym) :=
  (legacy.filter (fun lc => lc.2 != 0 && containsB (Sym.bytes u) (Sym.bytes lc.2))).map
    (fun lc => (Sym.ofBytes (replaceAll (Sym.bytes u) (Sym.bytes lc.2) (Sym.bytes lc.1)), u))

/-- all pairs (legacy spelling, current symbol) of a database -/
def Db.derive (db : Db) : List (Sym × Sym) := db.units.flatMap (fun r => deriveFor db.legacy r.sym)

/-- no entry of the list occurs in `s` (the decidable side condition of generic idempotence) -/
def noFragment (legacy : List (Sym × Sym)) (s : List Nat) : Bool :=
  legacy.all (fun lc => !containsB s (Sym.bytes lc.1))

/-! ### table predicates (proved per 100-row chunk by `decide +kernel` over regenerated data) -/

/-- a current symbol is not rewritten -/
def UnitRow.notRewritten (legacy : List (Sym × Sym)) (r : UnitRow) : Bool :=
  fixLegacy legacy r.sym == r.sym

/-- a derived spelling: rewritten to its current symbol, really a different string, a fixed point
after one rewrite -/
def derivedPairOk (legacy : List (Sym × Sym)) (p : Sym × Sym) : Bool :=
  fixLegacy legacy p.1 == p.2 && p.1 != p.2
  && fixLegacy legacy (fixLegacy legacy p.1) == fixLegacy legacy p.1

/-- the row is the only one with its symbol (`AddUnit` refuses a symbol twice) -/
def UnitRow.onlyOne (db : Db) (r : UnitRow) : Bool := db.units.filter (·.sym == r.sym) == [r]

/-- if the row's quantity type is also the name of a category, that category belongs to the type
(so that `GetInfo`'s "category or quantity type" argument means one thing) -/
def UnitRow.typeNameStable (db : Db) (r : UnitRow) : Bool :=
  match db.catByName r.qtype with
  | some ci => ci.qtype == r.qtype
  | none => true

/-- a row without legacy spellings asks for nothing; for a row with legacy spellings every one of
them is fine, the row is the only one with its symbol, its quantity type is not the `<unknown>`
placeholder's and is not re-routed by a category of the same name -/
def UnitRow.derivedOk (db : Db) (r : UnitRow) : Bool :=
  (deriveFor db.legacy r.sym).isEmpty
  || ((deriveFor db.legacy r.sym).all (derivedPairOk db.legacy)
      && r.qtype != unknownQType && r.onlyOne db && r.typeNameStable db)

/-! ### `GetDefaultCategory` -/

def Db.hasCat (db : Db) (c : Sym) : Bool := (db.catByName c).isSome

/-- tail of `GetDefaultCategory` once the `UnitInfo` is known -/
def Db.defaultCategoryOf (db : Db) (r : UnitRow) : Option Sym :=
  if r.defaultCat != 0 then some r.defaultCat
  else if db.hasCat r.qtype then some r.qtype else none

/-- `UnitDatabase.GetDefaultCategory(unit)`; `none` is Python's `None`; the unguarded second
dictionary access raises `KeyError` when the rewritten string is no unit either -/
def Db.getDefaultCategory (db : Db) (u : Sym) : Except ErrKind (Option Sym) :=
  match db.unitBySym u with
  | some r => .ok (db.defaultCategoryOf r)
  | none =>
    if !isLegacy db.legacy u then .ok none
    else
      match db.unitBySym (fixLegacy db.legacy u) with
      | some r => .ok (db.defaultCategoryOf r)
      | none => .error .key

/-! ### `Quantity.__init__` (simple branch) and `ObtainQuantity` -/

/-- a simple quantity as stored: category and (rewritten) unit -/
structure Simple where
  cat : Sym
  unit : Sym
deriving DecidableEq, Repr

/-- `self._tobase = GetInfo(self._quantity_type, self._unit, fix_unknown=True).tobase` -/
def Db.finishQuantity (db : Db) (ci : CatRow) (c u : Sym) : Except ErrKind Simple :=
  match db.getInfo ci.qtype u true with
  | .ok _ => .ok ⟨c, u⟩
  | .error e => .error e

/-- `Quantity(category, unit)` for two strings -/
def Db.newQuantity (db : Db) (c u : Sym) : Except ErrKind Simple :=
  match db.catByName c with
  | none => .error .units                        -- GetCategoryInfo: InvalidQuantityTypeError
  | some ci =>
    if db.categoryUnitValid c u then db.finishQuantity ci c u
    else if isLegacy db.legacy u then
      if db.categoryUnitValid c (fixLegacy db.legacy u) then
        db.finishQuantity ci c (fixLegacy db.legacy u)
      else .error .units
    else .error .units

/-- Python truthiness of an optional string -/
def falsy : Option Sym → Bool
  | none => true
  | some c => c == 0

/-- `Quantity(category, unit)` where the category may be `None` (`TypeError: Only str is accepted`) -/
def Db.quantityOfOpt (db : Db) : Option Sym → Sym → Except ErrKind Simple
  | none, _ => .error .type
  | some c, u => db.newQuantity c u

/-- `ObtainQuantity(unit)` without a category -/
def Db.obtainNoCat (db : Db) (u : Sym) : Except ErrKind Simple :=
  match db.getDefaultCategory u with
  | .error e => .error e
  | .ok dc =>
    if !falsy dc then db.quantityOfOpt dc u
    else if isLegacy db.legacy u then
      match db.getDefaultCategory (fixLegacy db.legacy u) with
      | .error e => .error e
      | .ok dc2 => db.quantityOfOpt dc2 (fixLegacy db.legacy u)
    else .error .units

/-- `ObtainQuantity(unit, category)`, `unit : str`, `category : str | None` -/
def Db.obtainQuantity (db : Db) (u : Sym) : Option Sym → Except ErrKind Simple
  | some c => db.newQuantity c u
  | none => db.obtainNoCat u

/-- `Scalar(value, unit, category)`, `Array(values, unit, category)`, `FractionScalar(value, unit,
category)`: the value is stored as given, the quantity comes from `ObtainQuantity` -/
def Db.create {α : Type} (db : Db) (v : α) (u : Sym) (cat : Option Sym) : Except ErrKind (Simple × α) :=
  match db.obtainQuantity u cat with
  | .ok q => .ok (q, v)
  | .error e => .error e

/-! ### `ObtainQuantity` with a composing mapping (dict form, parallel-lists form) -/

/-- one entry `category -> (unit, exponent)` of a composing mapping -/
structure MapCell where
  cat : Sym
  unit : Sym
  exp : Int
deriving DecidableEq, Repr

/-- what `ObtainQuantity` gives back for a mapping: a simple quantity, or a derived one (its
composing categories, units and exponents in order) -/
inductive Obtained
  | simple (q : Simple)
  | derived (cells : List MapCell)
deriving DecidableEq, Repr

/-- `len(unit) == 1 and next(iter(unit.values()))[1] == 1`: "although passed as composing, it's a
simple case" -/
def simpleCell : List MapCell → Option MapCell
  | [c] => if c.exp == 1 then some c else none
  | _ => none

/-- the loop `CheckQuantityTypeUnit(GetCategoryQuantityType(category), unit)` over the mapping (which
uses `fix_legacy=False`); an unknown category is `InvalidQuantityTypeError` -/
def Db.checkCells (db : Db) : List MapCell → Except ErrKind Unit
  | [] => .ok ()
  | c :: cs =>
    match db.catByName c.cat with
    | none => .error .units
    | some ci =>
      match db.checkQuantityTypeUnit ci.qtype c.unit with
      | .error e => .error e
      | .ok _ => db.checkCells cs

/-- the dict branch of `ObtainQuantity` (`category` is `None`, no caption) on a cold cache: one entry
with exponent 1 is unpacked and goes through the ordinary `(unit, category)` path; anything else is
validated cell by cell and handed to `Quantity(mapping, None)`, which builds a derived quantity from
an `OrderedDict` (`ordered`) and raises `TypeError` for any other mapping class -/
def Db.obtainFromMapping (db : Db) (ordered : Bool) (cells : List MapCell) : Except ErrKind Obtained :=
  match simpleCell cells with
  | some c =>
    match db.obtainQuantity c.unit (some c.cat) with
    | .ok q => .ok (.simple q)
    | .error e => .error e
  | none =>
    match db.checkCells cells with
    | .error e => .error e
    | .ok _ => if ordered then .ok (.derived cells) else .error .type

/-- `d[cat] = (unit, exp)` on an ordered dict: an existing key keeps its position and takes the new
value -/
def odictSet (cat : Sym) (ue : Sym × Int) : List MapCell → List MapCell
  | [] => [⟨cat, ue.1, ue.2⟩]
  | c :: cs => if c.cat == cat then ⟨cat, ue.1, ue.2⟩ :: cs else c :: odictSet cat ue cs

/-- `OrderedDict((cat, unit_and_exp) for (cat, unit_and_exp) in zip(category, unit))`, onto `acc` -/
def odictOfZip : List MapCell → List Sym → List (Sym × Int) → List MapCell
  | acc, c :: cs, ue :: ues => odictOfZip (odictSet c ue acc) cs ues
  | acc, _, _ => acc

/-- the `category` argument next to a list of `(unit, exponent)`: `None`, a string, or a list/tuple -/
inductive CatArg
  | none
  | str (c : Sym)
  | list (cs : List Sym)
deriving DecidableEq, Repr

/-- `len(unit) == 1 and unit[0][1] == 1` -/
def simplePair : List (Sym × Int) → Option Sym
  | [ue] => if ue.2 == 1 then some ue.1 else none
  | _ => none

/-- `ObtainQuantity([(unit, exp), …], category)`: a single pair with exponent 1 is the plain form
(with the first element of a category list: `IndexError` for an empty one); otherwise the category must
be a list/tuple (`assert`) and the zipped ordered dict goes through the dict branch -/
def Db.obtainFromLists (db : Db) (units : List (Sym × Int)) (cat : CatArg) : Except ErrKind Obtained :=
  match simplePair units with
  | some u =>
    match cat with
    | .list [] => .error .index
    | .list (c :: _) =>
      match db.obtainQuantity u (some c) with
      | .ok q => .ok (.simple q)
      | .error e => .error e
    | .str c =>
      match db.obtainQuantity u (some c) with
      | .ok q => .ok (.simple q)
      | .error e => .error e
    | .none =>
      match db.obtainQuantity u none with
      | .ok q => .ok (.simple q)
      | .error e => .error e
  | none =>
    match cat with
    | .list cs => db.obtainFromMapping true (odictOfZip [] cs units)
    | _ => .error .assertion

/-! ### reading values in another unit -/

/-- `Quantity.ConvertScalarValue(value, to_unit)` of a simple quantity (`Scalar.GetValue(unit)`) -/
def Db.getValue (db : Db) (q : Simple) (x : Rat) (toU : Sym) : Except ErrKind Rat :=
  if q.unit == toU then .ok x else
  match db.catByName q.cat with
  | none => .error .units
  | some ci =>
    match db.getInfo ci.qtype toU true with
    | .error e => .error e
    | .ok other =>
      match db.getInfo ci.qtype q.unit true with
      | .error e => .error e
      | .ok this => convRows this other x

/-- `List.mapM` for `Except`, structurally (the generator expression of `Convert`) -/
def mapRows (this other : UnitRow) : List Rat → Except ErrKind (List Rat)
  | [] => .ok []
  | x :: xs =>
    match convRows this other x with
    | .error e => .error e
    | .ok y =>
      match mapRows this other xs with
      | .error e => .error e
      | .ok ys => .ok (y :: ys)

/-- `UnitDatabase.Convert(category_or_quantity_type, from_unit, to_unit, values)` for a list or
tuple of numbers: the two rows are looked up once, before the first element -/
def Db.convertList (db : Db) (cq fromU toU : Sym) (xs : List Rat) : Except ErrKind (List Rat) :=
  if fromU == toU then .ok xs else
  match db.typeOf cq with
  | .error e => .error e
  | .ok qt =>
    match db.getInfo qt fromU true with
    | .error e => .error e
    | .ok this =>
      match db.getInfo qt toU true with
      | .error e => .error e
      | .ok other => mapRows this other xs

/-- `Array.GetValues(unit)` for a flat list: own-unit shortcut, then `Quantity.Convert` =
`UnitDatabase.Convert(category, unit, to_unit, values)` -/
def Db.getValues (db : Db) (q : Simple) (xs : List Rat) (toU : Sym) : Except ErrKind (List Rat) :=
  if toU == q.unit then .ok xs else db.convertList q.cat q.unit toU xs

/-- `Scalar.CreateCopy(unit=u)`: value read in the new unit, quantity obtained for the new unit in
the old category (or without category for the empty quantity) -/
def Db.createCopy (db : Db) (q : Simple) (x : Rat) (u : Sym) : Except ErrKind (Simple × Rat) :=
  match db.getValue q x u with
  | .error e => .error e
  | .ok v =>
    match db.obtainQuantity u (if q.cat != 0 then some q.cat else none) with
    | .error e => .error e
    | .ok q' => .ok (q', v)

/-! ### value objects created WITHOUT a value (`Scalar(category, unit=u)`, …) -/

/-- `Scalar._GetDefaultValue(category_info, unit)` (and `FractionScalar._GetDefaultValue`): the
default value of the category, which is expressed in the category's default unit, converted to the
requested unit through `ObtainQuantity(default_unit, category).ConvertScalarValue(value, unit)`;
without a unit the number itself -/
def Db.defaultValueIn (db : Db) (ci : CatRow) : Option Sym → Except ErrKind Rat
  | none => .ok ci.defaultValue
  | some u =>
    match db.newQuantity ci.name ci.defaultUnit with
    | .error e => .error e
    | .ok q => db.getValue q ci.defaultValue u

/-- `Array._GetDefaultValue` (`n = 0`: the empty list) and `FixedArray._GetDefaultValue`
(`[0.0] * dimension`): the unit is ignored -/
def constDefault (n : Nat) (_ : CatRow) (_ : Option Sym) : Except ErrKind (List Rat) :=
  .ok (List.replicate n 0)

/-- `AbstractValueWithQuantityObject.__init__(category, None, unit)` for a category string: the
category info is fetched (`InvalidQuantityTypeError` for an unknown one), the default value is asked
from the subclass (`dv`), a missing unit becomes the default unit of the category, and the quantity
comes from `ObtainQuantity(unit, category)` -/
def Db.createValueless {α : Type} (db : Db) (dv : CatRow → Option Sym → Except ErrKind α) (c : Sym)
    (u : Option Sym) : Except ErrKind (Simple × α) :=
  match db.catByName c with
  | none => .error .units
  | some ci =>
    match dv ci u with
    | .error e => .error e
    | .ok v =>
      match db.obtainQuantity (match u with | some u => u | none => ci.defaultUnit) (some c) with
      | .error e => .error e
      | .ok q => .ok (q, v)

/-- `Scalar(category, unit=u)` / `FractionScalar(category, unit=u)` -/
def Db.createDefault (db : Db) (c : Sym) (u : Option Sym) : Except ErrKind (Simple × Rat) :=
  db.createValueless db.defaultValueIn c u

/-- `Array(category, unit=u)` (`n = 0`) / `FixedArray(n, category, unit=u)` -/
def Db.createDefaultList (db : Db) (n : Nat) (c : Sym) (u : Option Sym) :
    Except ErrKind (Simple × List Rat) :=
  db.createValueless (constDefault n) c u

/-- `Array.CreateCopy(unit=u)` / `FixedArray.CreateCopy(unit=u)` for a flat list: the values read in
the new unit, the quantity obtained for the new unit in the old category -/
def Db.createCopyList (db : Db) (q : Simple) (xs : List Rat) (u : Sym) :
    Except ErrKind (Simple × List Rat) :=
  match db.getValues q xs u with
  | .error e => .error e
  | .ok vs =>
    match db.obtainQuantity u (if q.cat != 0 then some q.cat else none) with
    | .error e => .error e
    | .ok q' => .ok (q', vs)

/-- `UnitDatabase.GetUnitName(quantity_type, unit)` = `GetInfo(quantity_type, unit).name` -/
def Db.getUnitName (db : Db) (qt u : Sym) : Except ErrKind Sym :=
  match db.getInfo qt u false true with
  | .ok r => .ok r.name
  | .error e => .error e

/-! ### `AddCategory`: the unit arguments -/

/-- the loop over `valid_units`: each entry is rewritten and must be a unit of the quantity type
(`ValueError` otherwise) -/
def Db.fixValid (db : Db) (qt : Sym) : List Sym → Except ErrKind (List Sym)
  | [] => .ok []
  | v :: vs =>
    if (db.unitsOfType qt).any (·.sym == fixLegacy db.legacy v) then
      match db.fixValid qt vs with
      | .ok r => .ok (fixLegacy db.legacy v :: r)
      | .error e => .error e
    else .error .value

def Db.fixValidOpt (db : Db) (qt : Sym) : Option (List Sym) → Except ErrKind (Option (List Sym))
  | none => .ok none
  | some vs =>
    match db.fixValid qt vs with
    | .ok r => .ok (some r)
    | .error e => .error e

/-- `GetBaseUnit(quantity_type)` -/
def Db.baseUnit (db : Db) (qt : Sym) : Option Sym := ((db.unitsOfType qt).head?).map (·.sym)

/-- the `default_unit` argument: `None` → base unit (or the first valid unit when the base unit is
not among the valid ones); a string → rewritten, must be a unit of the type (`ValueError`) -/
def Db.chooseDefault (db : Db) (qt : Sym) (valid : Option (List Sym)) : Option Sym → Except ErrKind Sym
  | none =>
    match db.baseUnit qt with
    | none => .error .units
    | some b =>
      match valid with
      | some (v :: vs) => if (v :: vs).contains b then .ok b else .ok v
      | _ => .ok b
  | some d =>
    if (db.unitsOfType qt).any (·.sym == fixLegacy db.legacy d) then .ok (fixLegacy db.legacy d)
    else .error .value

/-- `categories_to_quantity_types[category] = info` -/
def upsertCat (row : CatRow) : List CatRow → List CatRow
  | [] => [row]
  | c :: cs => if c.name == row.name then row :: cs else c :: upsertCat row cs

/-- `AddCategory(category, quantity_type, valid_units, override, default_unit, caption=caption)`
without limits, default value and `from_category`; the caption argument is non-empty -/
def Db.addCategory (db : Db) (name qt : Sym) (valid : Option (List Sym)) (dflt : Option Sym)
    (caption : Sym) (override : Bool) : Except ErrKind Db :=
  if !override && db.hasCat name then .error .units else
  if !db.hasType qt then .error .units else
  match db.fixValidOpt qt valid with
  | .error e => .error e
  | .ok valid' =>
    match db.chooseDefault qt valid' dflt with
    | .error e => .error e
    | .ok d =>
      .ok { db with cats := upsertCat ⟨name, qt, valid', d, 0, none, none, false, false, caption⟩ db.cats }

/-! ### `AddCategory` with default value and limits -/

/-- is `v` outside the lower limit `mn` (exclusive or not)? -/
def belowMin (mn : Option Rat) (minx : Bool) (v : Rat) : Bool :=
  match mn with
  | none => false
  | some m => if minx then !(m < v) else !(m ≤ v)

def aboveMax (mx : Option Rat) (maxx : Bool) (v : Rat) : Bool :=
  match mx with
  | none => false
  | some m => if maxx then !(v < m) else !(v ≤ m)

/-- the `default_value` argument: `None` → the lower limit, else the upper limit, else zero
(`RuntimeError` when a limit is exclusive); a number → must respect the limits (`assert`) -/
def chooseDefaultValue (dv mn mx : Option Rat) (minx maxx : Bool) : Except ErrKind Rat :=
  match dv with
  | none =>
    if minx || maxx then .error .runtime else
    match mn with
    | some m => .ok m
    | none =>
      match mx with
      | some m => .ok m
      | none => .ok 0
  | some v =>
    if belowMin mn minx v then .error .assertion
    else if aboveMax mx maxx v then .error .assertion
    else .ok v

/-- `max_value < min_value` when both are given (`ValueError`) -/
def limitsCrossed : Option Rat → Option Rat → Bool
  | some a, some b => decide (b < a)
  | _, _ => false

/-- `AddCategory(category, quantity_type, valid_units, override, default_unit, default_value,
min_value, max_value, is_min_exclusive, is_max_exclusive, caption)` (no `from_category`; the
caption argument is non-empty) -/
def Db.addCategoryFull (db : Db) (name qt : Sym) (valid : Option (List Sym)) (dflt : Option Sym)
    (caption : Sym) (override : Bool) (dv mn mx : Option Rat) (minx maxx : Bool) : Except ErrKind Db :=
  if !override && db.hasCat name then .error .units else
  if limitsCrossed mn mx then .error .value else
  if !db.hasType qt then .error .units else
  match db.fixValidOpt qt valid with
  | .error e => .error e
  | .ok valid' =>
    match db.chooseDefault qt valid' dflt with
    | .error e => .error e
    | .ok d =>
      match chooseDefaultValue dv mn mx minx maxx with
      | .error e => .error e
      | .ok v =>
        .ok { db with cats := upsertCat ⟨name, qt, valid', d, v, mn, mx, minx, maxx, caption⟩ db.cats }

end Barril
