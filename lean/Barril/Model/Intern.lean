/-
C07: quantities as interned, immutable values.  Engine `Intern` (DESIGN: `Cache` + `Heap`).

Modelled after (src/barril/units/_quantity.py, unit_database.py), function by function:
`ObtainQuantity` (all argument forms and the three cache-key shapes, double registration under the
`None` category), `Quantity.__init__` (derived and simple branch), `Quantity.CreateEmpty`,
`CreateDerived/_CreateDerived`, `MakeCopy/CreateCopyInstance`, `__copy__/__deepcopy__/Copy`,
`__reduce__/_ObtainReduced`, `__eq__/__hash__`, `GetComposingUnitsJoiningExponents`,
`SetUnknownCaption`, `UnitDatabase.GetDefaultCategory`, `_MatchQuantities`, `_ConvertMatchingExp`
(which conversions fail), `_DoOperationWithSameQuantity`, `_DoOperationResultingInNewQuantity`.

Python objects with identity are modelled explicitly:
* a `[unit, exp]` list / `(unit, exp)` tuple is a `Cell` in an append-only `Heap`, named by its index
  (requests may carry tuples; a `Quantity` copies them into lists of its own when it is created);
  an `OrderedDict` category → cell is a `Map` of references; the two arithmetic routines work on
  copies (`copyMap` = `copy.deepcopy` / `GetCategoryToUnitAndExpsCopy`) and WRITE into cells
  (`List.set`) exactly where the Python assigns `unit_exp[0] = …` / `unit_exp1[1] = …`;
* a `Quantity` object is its allocation index in `State.objs` (identity = index);
* `quantities_cache` is an insertion-ordered association list `Key → index`.
Numbers are not modelled (the float results are C03/C04's business): only which conversions raise.
-/
import Barril.Model.Conv

namespace Barril.Intern
open Barril

/-! ### heap of `[unit, exp]` cells -/

/-- a `[unit, exp]` list, or a `(unit, exp)` tuple when `frozen` (item assignment raises `TypeError`) -/
structure Cell where
  unit : Sym
  exp : Int
  frozen : Bool
deriving DecidableEq, Repr

abbrev Heap := List Cell

/-- an `OrderedDict` category → reference to a cell -/
abbrev Map := List (Sym × Nat)

/-- allocate the cells of an ordered dict given by value -/
def allocMany : Heap → List (Sym × Cell) → Heap × Map
  | h, [] => (h, [])
  | h, (k, c) :: rest =>
    let r := allocMany (h ++ [c]) rest
    (r.1, (k, h.length) :: r.2)

/-- dereference a whole map; `none` when a reference dangles -/
def readMap (h : Heap) : Map → Option (List (Sym × Cell))
  | [] => some []
  | (k, r) :: rest =>
    match h[r]?, readMap h rest with
    | some c, some cs => some ((k, c) :: cs)
    | _, _ => none

/-- `copy.deepcopy(map)` / `GetCategoryToUnitAndExpsCopy()`: a new dict with new cells -/
def copyMap (h : Heap) (m : Map) : Option (Heap × Map) :=
  match readMap h m with
  | none => none
  | some cs => some (allocMany h cs)

/-! ### ordered dict helpers -/

/-- `d[k] = v` on an ordered dict: replace in place or append -/
def odSet {α : Type} : List (Sym × α) → Sym → α → List (Sym × α)
  | [], k, v => [(k, v)]
  | (k', v') :: rest, k, v => if k' == k then (k', v) :: rest else (k', v') :: odSet rest k v

/-- `OrderedDict(pairs)` -/
def odOfPairs {α : Type} (ps : List (Sym × α)) : List (Sym × α) :=
  ps.foldl (fun m p => odSet m p.1 p.2) []

def odGet {α : Type} (m : List (Sym × α)) (k : Sym) : Option α := (m.find? (·.1 == k)).map (·.2)

/-- `ret[unit] = ret.get(unit, 0) + exp` -/
def odAdd : List (Sym × Int) → Sym → Int → List (Sym × Int)
  | [], u, e => [(u, 0 + e)]
  | (u', e') :: rest, u, e => if u' == u then (u', e' + e) :: rest else (u', e') :: odAdd rest u e

/-- `GetComposingUnitsJoiningExponents` -/
def joined (cs : List (Sym × Cell)) : List (Sym × Int) :=
  cs.foldl (fun m kc => odAdd m kc.2.unit kc.2.exp) []

/-! ### quantities, cache keys, state -/

/-- a `Quantity` object: `_category_to_unit_and_exps` (by reference), `_unknown_unit_caption`,
`_is_derived`.  The strings `_category/_quantity_type/_unit` are functions of these (engine `Str`). -/
structure Quantity where
  map : Map
  caption : Sym
  derived : Bool
deriving DecidableEq, Repr

/-- the two shapes of keys of `quantities_cache` -/
inductive Key
  /-- `(category, unit, unknown_unit_caption)`; each may be `None` -/
  | simple (cat unit cap : Option Sym)
  /-- `((category, (unit, exp)), …[, caption])`; the caption is appended only when truthy
  (`cap = 0`: not appended) -/
  | comp (items : List (Sym × Sym × Int)) (cap : Sym)
deriving DecidableEq, Repr

structure State where
  heap : Heap := []
  /-- every `Quantity` ever created, in creation order: the index is the object's identity -/
  objs : List Quantity := []
  /-- `quantities_cache`, insertion order -/
  cache : List (Key × Nat) := []
  /-- `Quantity._EMPTY_QUANTITY` -/
  empty : Option Nat := none
deriving Repr

def lookupKey (cache : List (Key × Nat)) (k : Key) : Option Nat := (cache.find? (·.1 == k)).map (·.2)

/-- `quantities_cache[k] = i` -/
def setKey : List (Key × Nat) → Key → Nat → List (Key × Nat)
  | [], k, i => [(k, i)]
  | (k', i') :: rest, k, i => if k' == k then (k', i) :: rest else (k', i') :: setKey rest k i

/-- `if unknown_unit_caption:` -/
def capTruthy : Option Sym → Bool
  | some c => c != 0
  | none => false

/-- the caption as appended to a composing key (0 = nothing appended) -/
def capKey (cap : Option Sym) : Sym := match cap with
  | some c => c
  | none => 0

/-- `self._unknown_unit_caption = caption if caption is not None else ""` -/
def capStr (cap : Option Sym) : Sym := match cap with
  | some c => c
  | none => 0

/-! ### observers: `__eq__`, `__hash__`, getters -/

def cellsOf (s : State) (q : Quantity) : Option (List (Sym × Cell)) := readMap s.heap q.map

/-- `Quantity.__eq__`: `tuple(items) == tuple(other items) and captions equal` (a list cell and a
tuple cell with the same content are NOT equal in Python) -/
def qeq (h : Heap) (a b : Quantity) : Bool :=
  match readMap h a.map, readMap h b.map with
  | some x, some y => x == y && a.caption == b.caption
  | _, _ => false

/-- what `__hash__` hashes: `((category, tuple(unit_and_exp)), …, caption)` -/
def hashKey (h : Heap) (q : Quantity) : Option (List (Sym × Sym × Int) × Sym) :=
  (readMap h q.map).map (fun cs => (cs.map (fun kc => (kc.1, kc.2.unit, kc.2.exp)), q.caption))

/-- the composing map by content (units and exponents, forgetting list/tuple) -/
def content (cs : List (Sym × Cell)) : List (Sym × Sym × Int) := cs.map (fun kc => (kc.1, kc.2.unit, kc.2.exp))

/-- "the same composing map and caption" of the property text: equality by content, forgetting
whether a cell is a list or a tuple -/
def contentEq (h : Heap) (a b : Quantity) : Bool :=
  match readMap h a.map, readMap h b.map with
  | some x, some y => content x == content y && a.caption == b.caption
  | _, _ => false

/-- everything observable about an object (all getters are functions of this) -/
def view (h : Heap) (q : Quantity) : Option (List (Sym × Cell)) × Sym × Bool :=
  (readMap h q.map, q.caption, q.derived)

/-- `__copy__`, `__deepcopy__`, `Copy()`, `MakeCopy()`, `CreateCopyInstance()`, `__abs__`, and
arithmetic with a plain number: `return self` -/
def copyOf (i : Nat) : Nat := i

/-- `SetUnknownCaption`: `raise ReadOnlyError` -/
def setUnknownCaption (_i : Nat) (_caption : Sym) : Except ErrKind Unit := .error .readonly

/-- the arguments of a direct call of the constructor protocol on an existing instance:
`q.__init__(category, unit, caption)` with a category string (simple form; the unit may be `None`) or
an `OrderedDict` of `category -> [unit, exp]` as `category` and `unit = None` (derived form; the empty
`OrderedDict` is the empty quantity's form) -/
inductive InitArg
  | simple (cat : Sym) (unit : Option Sym)
  | derived (items : List (Sym × Cell))
deriving Repr

/-- `Quantity.__init__` run again on an instance that is already configured (every live object is:
`__init__` assigns `_unknown_unit_caption` before anything else can fail, on the simple and on the
derived branch alike): `try: self._unknown_unit_caption; return` — the arguments are not looked at,
nothing is assigned, nothing is raised, the call returns `None` and the caller still holds object `i` -/
def reInit (i : Nat) (_a : InitArg) (_caption : Option Sym) : Nat := i

/-! ### database lookups used here -/

/-- the tail of `GetDefaultCategory`: `default_category` if truthy, else the quantity type when it is
a registered category -/
def rowCategory (db : Db) (r : UnitRow) : Option Sym :=
  if r.defaultCat != 0 then some r.defaultCat
  else if (db.catByName r.qtype).isSome then some r.qtype else none

/-- `UnitDatabase.GetDefaultCategory(unit)`; `KeyError` when the legacy-fixed unit is not registered -/
def defaultCategory (db : Db) (u : Sym) : Except ErrKind (Option Sym) :=
  match db.unitBySym u with
  | some r => .ok (rowCategory db r)
  | none =>
    if !isLegacy db.legacy u then .ok none
    else match db.unitBySym (fixLegacy db.legacy u) with
      | none => .error .key
      | some r => .ok (rowCategory db r)

/-- `if not category:` -/
def catFalsy : Option Sym → Bool
  | some c => c == 0
  | none => true

/-- is `Convert(qt, from, to, value)` going to raise (independent of the value)? -/
def convertCheck (db : Db) (cq fromU toU : Sym) : Except ErrKind Unit :=
  if fromU == toU then .ok () else
  match db.typeOf cq with
  | .error e => .error e
  | .ok qt =>
    match db.getInfo qt fromU true with
    | .error e => .error e
    | .ok _ =>
      match db.getInfo qt toU true with
      | .error e => .error e
      | .ok _ => .ok ()

/-! ### `Quantity.__init__` -/

/-- `CheckCategoryUnit(category, unit)` with the legacy retry of the simple branch -/
def resolveSimpleUnit (db : Db) (cat unit : Sym) : Except ErrKind Sym :=
  if db.categoryUnitValid cat unit then .ok unit
  else if isLegacy db.legacy unit then
    (if db.categoryUnitValid cat (fixLegacy db.legacy unit) then .ok (fixLegacy db.legacy unit)
     else .error .units)
  else .error .units

/-- a new object -/
def State.push (s : State) (h : Heap) (q : Quantity) : State × Nat :=
  ({ s with heap := h, objs := s.objs ++ [q] }, s.objs.length)

/-- simple branch of `Quantity(category, unit, caption)` (both `str`) -/
def newSimple (db : Db) (s : State) (cat unit : Sym) (cap : Option Sym) : State × Except ErrKind Nat :=
  match db.catByName cat with
  | none => (s, .error .units)                           -- GetCategoryInfo
  | some ci =>
    match resolveSimpleUnit db cat unit with
    | .error e => (s, .error e)
    | .ok u =>
      match db.getInfo ci.qtype u true with              -- self._tobase = GetInfo(…, fix_unknown=True)
      | .error e => (s, .error e)
      | .ok _ =>
        let r := s.push (s.heap ++ [⟨u, 1, false⟩]) ⟨[(cat, s.heap.length)], capStr cap, false⟩
        (r.1, .ok r.2)

/-- `OrderedDict((cat, list(unit_and_exp)) for …)`: the quantity's own copy of the composing map;
every cell becomes a `[unit, exp]` list, whatever the caller passed -/
def thaw (items : List (Sym × Cell)) : List (Sym × Cell) :=
  items.map (fun kc => (kc.1, ⟨kc.2.unit, kc.2.exp, false⟩))

/-- derived branch of `Quantity(odict, None, caption)`; a plain `dict` falls through to the simple
branch and raises `TypeError`; categories are looked up (the units were checked by `ObtainQuantity`); the mapping is
copied into fresh list cells (`thaw`) -/
def newDerived (db : Db) (s : State) (items : List (Sym × Cell)) (od : Bool) (cap : Option Sym) :
    State × Except ErrKind Nat :=
  if !od then (s, .error .type)
  else if items.any (fun kc => (db.catByName kc.1).isNone) then (s, .error .units)
  else
    let hm := allocMany s.heap (thaw items)
    let r := s.push hm.1 ⟨hm.2, capStr cap, true⟩
    (r.1, .ok r.2)

/-! ### `ObtainQuantity` -/

inductive UnitArg
  | none
  | str (u : Sym)
  /-- list/tuple of `(unit, exp)` pairs (each a list or a tuple) -/
  | seq (items : List Cell)
  /-- `dict` / `OrderedDict` category → `[unit, exp]` -/
  | dict (items : List (Sym × Cell)) (od : Bool)
deriving Repr

inductive CatArg
  | none
  | str (c : Sym)
  | seq (cs : List Sym) (tup : Bool)
deriving Repr

def UnitArg.isSingleOne : List Cell → Option Cell
  | [c] => if c.exp == 1 then some c else Option.none
  | _ => Option.none

/-- the `isinstance(unit, (list, tuple))` block -/
def normSeq (u : UnitArg) (c : CatArg) : Except ErrKind (UnitArg × CatArg) :=
  match u with
  | .seq items =>
    match UnitArg.isSingleOne items with
    | some cell =>
      match c with
      | .seq [] _ => .error .index                       -- category[0]
      | .seq (c0 :: _) _ => .ok (.str cell.unit, .str c0)
      | c => .ok (.str cell.unit, c)
    | Option.none =>
      match c with
      | .seq cs _ => .ok (.dict (odOfPairs (cs.zip items)) true, .none)
      | _ => .error .assertion
  | u => .ok (u, c)

def dictIsSingleOne : List (Sym × Cell) → Option (Sym × Cell)
  | [kc] => if kc.2.exp == 1 then some kc else Option.none
  | _ => Option.none

def compKey (items : List (Sym × Cell)) (cap : Option Sym) : Key :=
  .comp (content items) (if capTruthy cap then capKey cap else 0)

/-- register a new object under one key -/
def cacheNew (r : State × Except ErrKind Nat) (k : Key) : State × Except ErrKind Nat :=
  match r with
  | (s, .ok i) => ({ s with cache := setKey s.cache k i }, .ok i)
  | (s, .error e) => (s, .error e)

/-- register a new object under two keys (`key_with_resolved_category`, then the `None` key) -/
def cacheNew2 (r : State × Except ErrKind Nat) (k2 k : Key) : State × Except ErrKind Nat :=
  match r with
  | (s, .ok i) => ({ s with cache := setKey (setKey s.cache k2 i) k i }, .ok i)
  | (s, .error e) => (s, .error e)

/-- the branch `elif category is None` (unit a `str`) after the first cache miss -/
def obtainDefaultCat (db : Db) (s : State) (unit : Sym) (cap : Option Sym) (key : Key) :
    State × Except ErrKind Nat :=
  match defaultCategory db unit with
  | .error e => (s, .error e)
  | .ok dc =>
    let resolved : Except ErrKind (Option Sym × Sym) :=
      if !catFalsy dc then .ok (dc, unit)
      else if isLegacy db.legacy unit then
        match defaultCategory db (fixLegacy db.legacy unit) with
        | .error e => .error e
        | .ok dc2 => .ok (dc2, fixLegacy db.legacy unit)
      else .error .units
    match resolved with
    | .error e => (s, .error e)
    | .ok (cat, unit') =>
      let key2 := Key.simple cat (some unit') cap
      match lookupKey s.cache key2 with
      | some i => (s, .ok i)
      | none =>
        match cat with
        | none => (s, .error .type)                      -- Quantity(None, unit): "Only str is accepted"
        | some c => cacheNew2 (newSimple db s c unit' cap) key2 key

/-- the common tail of `ObtainQuantity`: `key = (category, unit, caption)` -/
def obtainKey (db : Db) (s : State) (u : Option Sym) (c : CatArg) (cap : Option Sym) :
    State × Except ErrKind Nat :=
  match c with
  | .seq _ false => (s, .error .type)                    -- a list inside the key is unhashable
  | .seq _ true =>                                       -- never cached, never valid
    match u with
    | some _ => (s, .error .type)                        -- Quantity(tuple, unit)
    | none => (s, .error .units)                         -- GetDefaultUnit(tuple)
  | .str cat =>
    let key := Key.simple (some cat) u cap
    match lookupKey s.cache key with
    | some i => (s, .ok i)
    | none =>
      match u with
      | none =>                                          -- unit is given by the category
        match db.catByName cat with
        | none => (s, .error .units)
        | some ci => cacheNew (newSimple db s cat ci.defaultUnit cap) key
      | some unit => cacheNew (newSimple db s cat unit cap) key
  | .none =>
    let key := Key.simple none u cap
    match lookupKey s.cache key with
    | some i => (s, .ok i)
    | none =>
      match u with
      | none => (s, .error .assertion)
      | some unit => obtainDefaultCat db s unit cap key

/-- the validation loop of `_CreateDerived`, also run by `ObtainQuantity` on a miss of a composing key:
`CheckQuantityTypeUnit(GetCategoryQuantityType(category), unit)` for every entry (legacy spellings are not
fixed here) -/
def validateItems (db : Db) : List (Sym × Cell) → Except ErrKind Unit
  | [] => .ok ()
  | (cat, cell) :: rest =>
    match db.catByName cat with
    | none => .error .units
    | some ci =>
      match db.checkQuantityTypeUnit ci.qtype cell.unit with
      | .error e => .error e
      | .ok _ => validateItems db rest

/-- the `isinstance(unit, dict)` block -/
def obtainDict (db : Db) (s : State) (items : List (Sym × Cell)) (od : Bool) (c : CatArg)
    (cap : Option Sym) : State × Except ErrKind Nat :=
  match c with
  | .none =>
    match dictIsSingleOne items with
    | some kc => obtainKey db s (some kc.2.unit) (.str kc.1) cap
    | none =>
      match lookupKey s.cache (compKey items cap) with
      | some i => (s, .ok i)
      | none =>
        match validateItems db items with                -- only a miss pays for the check
        | .error e => (s, .error e)
        | .ok _ => cacheNew (newDerived db s items od cap) (compKey items cap)
  | _ => (s, .error .assertion)                          -- assert category is None

/-- `ObtainQuantity(unit, category, unknown_unit_caption)` -/
def obtain (db : Db) (s : State) (u : UnitArg) (c : CatArg) (cap : Option Sym) :
    State × Except ErrKind Nat :=
  match normSeq u c with
  | .error e => (s, .error e)
  | .ok (.dict items od, c') => obtainDict db s items od c' cap
  | .ok (.str unit, c') => obtainKey db s (some unit) c' cap
  | .ok (.none, c') => obtainKey db s none c' cap
  | .ok (.seq _, _) => (s, .error .other)                -- unreachable: `normSeq` removes sequences

/-- `Quantity.CreateEmpty()` -/
def createEmpty (db : Db) (s : State) : State × Except ErrKind Nat :=
  match s.empty with
  | some i => (s, .ok i)
  | none =>
    match obtain db s (.dict [] true) .none none with
    | (s1, .ok i) => ({ s1 with empty := some i }, .ok i)
    | (s1, .error e) => (s1, .error e)

/-- `Quantity.CreateDerived(map, caption)` (always validating) -/
def createDerived (db : Db) (s : State) (items : List (Sym × Cell)) (cap : Option Sym) :
    State × Except ErrKind Nat :=
  match validateItems db items with
  | .error e => (s, .error e)
  | .ok _ => obtain db s (.dict items true) .none cap

/-- `q.MakeCopy(map)` / `q.CreateCopyInstance(map)`: `_CreateDerived(map, validate=False,
caption=q._unknown_unit_caption)`; the cells are copied (`unit_and_exp[:]`) -/
def makeCopy (db : Db) (s : State) (caption : Sym) (items : List (Sym × Cell)) :
    State × Except ErrKind Nat :=
  obtain db s (.dict items true) .none (some caption)

/-- `Quantity.__reduce__`: the pickled state (cells travel by value) -/
def reduce (s : State) (q : Quantity) : Option (List (Sym × Cell) × Option Sym) :=
  (cellsOf s q).map (fun cs => (cs, if q.caption != 0 then some q.caption else none))

/-- `_ObtainReduced(state)` -/
def obtainReduced (db : Db) (s : State) (st : List (Sym × Cell) × Option Sym) :
    State × Except ErrKind Nat :=
  obtain db s (.dict st.1 true) .none st.2

/-! ### arithmetic on quantities -/

/-- one pass of the double loop of `_MatchQuantities` over one (copied) map; `found` is
`quantity_types_found_to_used_unit`.  Writes `unit_exp[0] = used`. -/
def matchPass (db : Db) : Heap → List (Sym × Sym) → Map → Except ErrKind (Heap × List (Sym × Sym))
  | h, found, [] => .ok (h, found)
  | h, found, (cat, r) :: rest =>
    match h[r]? with
    | none => .error .other
    | some cell =>
      match db.catByName cat with
      | none => .error .units                            -- GetCategoryQuantityType
      | some ci =>
        match odGet found ci.qtype with
        | none => matchPass db h ((ci.qtype, cell.unit) :: found) rest
        | some used =>
          match convertCheck db ci.qtype cell.unit used with   -- _ConvertMatchingExp
          | .error e => .error e
          | .ok _ =>
            if cell.frozen then .error .type             -- item assignment on a tuple
            else matchPass db (h.set r { cell with unit := used }) found rest

/-- `_MatchQuantities(map1, map2, …)` -/
def matchQuantities (db : Db) (h : Heap) (m1 m2 : Map) : Except ErrKind Heap :=
  match matchPass db h [] m1 with
  | .error e => .error e
  | .ok (h1, f1) =>
    match matchPass db h1 f1 m2 with
    | .error e => .error e
    | .ok (h2, _) => .ok h2

/-- `set(a) == set(b)` for lists without repeated keys -/
def sameSet (a b : List (Sym × Int)) : Bool := a.all (b.contains ·) && b.all (a.contains ·)

def joinedOf (s : State) (i : Nat) : Option (List (Sym × Int)) :=
  match s.objs[i]? with
  | none => none
  | some q => (cellsOf s q).map joined

/-- `q.CreateCopyInstance(map)` for a working copy held by reference -/
def copyInstance (db : Db) (s : State) (caption : Sym) (m : Map) : State × Except ErrKind Nat :=
  match readMap s.heap m with
  | none => (s, .error .other)
  | some items => makeCopy db s caption items

/-- the comparison of the joined composing units at the end of `_DoOperationWithSameQuantity` -/
def pickSame (s : State) (j1 j2 : Nat) : Except ErrKind Nat :=
  match joinedOf s j1, joinedOf s j2 with
  | some cu1, some cu2 =>
    if sameSet cu1 cu2 then .ok j1
    else if cu1.isEmpty then .ok j2
    else if cu2.isEmpty then .ok j1
    else .error .units                                   -- InvalidOperationError
  | _, _ => .error .other

/-- `_DoOperationWithSameQuantity` (Sum, Subtract): the resulting quantity -/
def opSame (db : Db) (s : State) (i1 i2 : Nat) : State × Except ErrKind Nat :=
  match s.objs[i1]?, s.objs[i2]? with
  | some q1, some q2 =>
    if qeq s.heap q1 q2 then (s, .ok i1) else
    match copyMap s.heap q1.map with
    | none => (s, .error .other)
    | some (h1, m1) =>
      match copyMap h1 q2.map with
      | none => (s, .error .other)
      | some (h2, m2) =>
        match matchQuantities db h2 m1 m2 with
        | .error e => (s, .error e)
        | .ok h3 =>
          match copyInstance db { s with heap := h3 } q1.caption m1 with
          | (s4, .error e) => (s4, .error e)
          | (s4, .ok j1) =>
            match copyInstance db s4 q2.caption m2 with
            | (s5, .error e) => (s5, .error e)
            | (s5, .ok j2) => (s5, pickSame s5 j1 j2)
  | _, _ => (s, .error .other)

/-- `operation_exp`: `a + b` for Multiply, `a - b` for Divide -/
def opExp (div : Bool) (a b : Int) : Int := if div then a - b else a + b

/-- the loop "add the categories to the resulting one".  Writes `unit_exp1[1] = …` or adds a new
`[unit2, exp]` list to map 1. -/
def mergePass (div : Bool) : Heap → Map → Map → Except ErrKind (Heap × Map)
  | h, m1, [] => .ok (h, m1)
  | h, m1, (c2, r2) :: rest =>
    match h[r2]? with
    | none => .error .other
    | some cell2 =>
      match odGet m1 c2 with
      | none => mergePass div (h ++ [⟨cell2.unit, opExp div 0 cell2.exp, false⟩]) (m1 ++ [(c2, h.length)]) rest
      | some r1 =>
        match h[r1]? with
        | none => .error .other
        | some cell1 =>
          if cell1.unit == cell2.unit then
            (if cell1.frozen then .error .type
             else mergePass div (h.set r1 { cell1 with exp := opExp div cell1.exp cell2.exp }) m1 rest)
          else .error .runtime                           -- "This should've been covered already"

/-- "remove the ones that have exponent = 0" (by category exponent or by joined unit exponent) -/
def dropZeros (cs : List (Sym × Cell)) : List (Sym × Cell) :=
  cs.filter (fun kc => !(kc.2.exp == 0 || odGet (joined cs) kc.2.unit == some 0))

/-- `_DoOperationResultingInNewQuantity` (Multiply, Divide): the resulting quantity -/
def opNew (db : Db) (s : State) (div : Bool) (i1 i2 : Nat) : State × Except ErrKind Nat :=
  match s.objs[i1]?, s.objs[i2]? with
  | some q1, some q2 =>
    match copyMap s.heap q1.map with
    | none => (s, .error .other)
    | some (h1, m1) =>
      match copyMap h1 q2.map with
      | none => (s, .error .other)
      | some (h2, m2) =>
        match matchQuantities db h2 m1 m2 with
        | .error e => (s, .error e)
        | .ok h3 =>
          match mergePass div h3 m1 m2 with
          | .error e => (s, .error e)
          | .ok (h4, m1') =>
            match readMap h4 m1' with
            | none => (s, .error .other)
            | some cs => createDerived db { s with heap := h4 } (dropZeros cs) none
  | _, _ => (s, .error .other)

/-! ### sessions: histories of public operations -/

/-- an arithmetic operand: an earlier result, or a plain number (the value classes then use
`Quantity.CreateEmpty()` for that side) -/
inductive Operand
  | ref (step : Nat)
  | num
deriving Repr

inductive Op
  | obtain (u : UnitArg) (c : CatArg) (cap : Option Sym)
  | empty
  | derived (items : List (Sym × Cell)) (cap : Option Sym)
  | mkcopy (q : Nat) (items : List (Sym × Cell))
  /-- copy, deepcopy, Copy, MakeCopy(), abs, `q * 2.0`, conversions, validations, getters, hash -/
  | ident (q : Nat)
  | pickle (q : Nat)
  | setcap (q : Nat) (cap : Sym)
  /-- `Scalar(q, v).CreateCopy(value, unit=u)` -/
  | withunit (q : Nat) (u : Sym)
  | same (a b : Operand)
  | new (div : Bool) (a b : Operand)
  /-- `q.__init__(category, unit, caption)` / `Quantity.__init__(q, …)` on an existing quantity -/
  | reinit (q : Nat) (a : InitArg) (cap : Option Sym)
deriving Repr

inductive Out
  | ok (i : Nat)
  | err (e : ErrKind)
  /-- the harness does not run the step (dangling reference, exponent guard) -/
  | skip
deriving DecidableEq, Repr

structure Guard where
  maxExp : Nat
  maxCells : Nat

structure Session where
  st : State := {}
  /-- per step: the identity of the quantity it returned -/
  results : List (Option Nat) := []

def resolve (results : List (Option Nat)) (r : Nat) : Option Nat :=
  match results[r]? with
  | some (some i) => some i
  | _ => none

def toOut : Except ErrKind Nat → Out
  | .ok i => .ok i
  | .error e => .err e

def operandOk (g : Guard) (s : State) (i : Nat) : Bool :=
  match s.objs[i]? with
  | none => false
  | some q =>
    match cellsOf s q with
    | none => false
    | some cs => decide (cs.length ≤ g.maxCells) && cs.all (fun kc => decide (kc.2.exp.natAbs ≤ g.maxExp))

/-- `none`: skip the step; `some none`: a number; `some (some i)`: the object `i` -/
def operand (g : Guard) (ss : Session) : Operand → Option (Option Nat)
  | .num => some none
  | .ref r =>
    match resolve ss.results r with
    | none => none
    | some i => if operandOk g ss.st i then some (some i) else none

/-- materialise an operand: a number becomes the empty quantity -/
def operandObj (db : Db) (s : State) : Option Nat → State × Except ErrKind Nat
  | some i => (s, .ok i)
  | none => createEmpty db s

/-- `GetCategory()` is truthy (a simple quantity's category; a derived one's `_MakeStr` is empty
exactly when every exponent is 0) -/
def hasCategoryStr (s : State) (q : Quantity) : Bool :=
  match cellsOf s q with
  | none => false
  | some cs => if q.derived then cs.any (fun kc => kc.2.exp != 0) else cs.any (fun kc => kc.1 != 0)

def binary (db : Db) (g : Guard) (ss : Session) (a b : Operand)
    (f : State → Nat → Nat → State × Except ErrKind Nat) : State × Out :=
  match operand g ss a, operand g ss b with
  | some oa, some ob =>
    match operandObj db ss.st oa with
    | (s1, .error e) => (s1, .err e)
    | (s1, .ok i1) =>
      match operandObj db s1 ob with
      | (s2, .error e) => (s2, .err e)
      | (s2, .ok i2) => let r := f s2 i1 i2; (r.1, toOut r.2)
  | _, _ => (ss.st, .skip)

/-- one public operation -/
def stepState (db : Db) (g : Guard) (ss : Session) : Op → State × Out
  | .obtain u c cap => let r := obtain db ss.st u c cap; (r.1, toOut r.2)
  | .empty => let r := createEmpty db ss.st; (r.1, toOut r.2)
  | .derived items cap => let r := createDerived db ss.st items cap; (r.1, toOut r.2)
  | .mkcopy q items =>
    match resolve ss.results q with
    | none => (ss.st, .skip)
    | some i =>
      match ss.st.objs[i]? with
      | none => (ss.st, .err .other)
      | some qq => let r := makeCopy db ss.st qq.caption items; (r.1, toOut r.2)
  | .ident q =>
    match resolve ss.results q with
    | none => (ss.st, .skip)
    | some i => (ss.st, .ok (copyOf i))
  | .pickle q =>
    match resolve ss.results q with
    | none => (ss.st, .skip)
    | some i =>
      match ss.st.objs[i]? with
      | none => (ss.st, .err .other)
      | some qq =>
        match reduce ss.st qq with
        | none => (ss.st, .err .other)
        | some st => let r := obtainReduced db ss.st st; (r.1, toOut r.2)
  | .setcap q cap =>
    match resolve ss.results q with
    | none => (ss.st, .skip)
    | some i =>
      match setUnknownCaption i cap with
      | .error e => (ss.st, .err e)
      | .ok _ => (ss.st, .ok i)
  | .withunit q u =>
    match resolve ss.results q with
    | none => (ss.st, .skip)
    | some i =>
      match ss.st.objs[i]? with
      | none => (ss.st, .err .other)
      | some qq =>
        if qq.derived && hasCategoryStr ss.st qq then (ss.st, .skip)
        else if hasCategoryStr ss.st qq then
          match qq.map with
          | (c, _) :: _ => let r := obtain db ss.st (.str u) (.str c) none; (r.1, toOut r.2)
          | [] => (ss.st, .err .other)
        else let r := obtain db ss.st (.str u) .none none; (r.1, toOut r.2)
  | .same a b => binary db g ss a b (opSame db)
  | .new div a b => binary db g ss a b (fun s i j => opNew db s div i j)
  | .reinit q a cap =>
    match resolve ss.results q with
    | none => (ss.st, .skip)
    | some i => (ss.st, .ok (reInit i a cap))

def outResult : Out → Option Nat
  | .ok i => some i
  | _ => none

def step (db : Db) (g : Guard) (ss : Session) (op : Op) : Session × Out :=
  let r := stepState db g ss op
  (⟨r.1, ss.results ++ [outResult r.2]⟩, r.2)

def run (db : Db) (g : Guard) : Session → List Op → Session
  | ss, [] => ss
  | ss, op :: ops => run db g (step db g ss op).1 ops

end Barril.Intern
