/-
Engine `Ops` (C10), second part: the registry of "additional conversion types" of `UnitDatabase`
(`RegisterAdditionalConversionType`, the dispatch at the head of `UnitDatabase.Convert`) and the operations of
`Array` as they run on a database whose registry holds more than the import-time entry for `numpy.ndarray`.

Modelled code (`barril/units/unit_database.py`, as it is in /repo now):
* `UnitDatabase._additional_conversions`: an insertion-ordered dict class → conversion function, a CLASS attribute
  (one registry for every database object of the process) = `Registry`, a list in registration order;
* `RegisterAdditionalConversionType(class_, func)`: appends when the class is not registered yet, otherwise
  asserts that the function is the registered one = `Registry.register`;
* the head of `Convert(category_or_quantity_type, from_unit, to_unit, value)`:
  `isinstance(value, tuple(registry))`, then the FIRST registered class with `isinstance(value, key)` —
  a value of class C is served by the entry of C or of a base class of C, never by the entry of a subclass of C
  = `Registry.dispatch`; "same unit: no conversion needed" comes before the function is used = `convertReg`;
* `_MatchQuantities` / `_ConvertMatchingExp` hand the VALUE of each operand (a number in the per-element branch
  of `Array._DoOperation`, the whole container in the vectorised branch) to `Convert`; the probes
  `Convert(…, 0.0)`, `Convert(…, 1.0)` are Python floats.  The `…V` functions are `convertMatchingExp`, `matchDict`,
  `matchQuantities`, `opSame`, `opNew`, `opFunc` of `Ops.lean` with the conversion of the first and of the second
  operand's value as parameters (`opFuncV_plain` in `Proofs/OpsRegistryLemmas.lean`: with `env.convert` for both
  they ARE the functions of `Ops.lean`).

A registered function is modelled by what it does to the amounts: `std` is `ConvertNumpyArray`
(`from_base(to_base(array))`, the number conversion on every element), `scaled k` stands for a function written for
another representation of the amounts (it answers the number conversion times `k`).
Assumption of the `…Reg` functions: no registered class is a base class of `float` (the probes and the elements of
the per-element branch are looked up with the class `numClass` all the same, so such an entry is not ignored,
but the probes inside `convertMatchingExpV` use the plain `env.convert`).
-/
import Barril.Model.Ops

namespace Barril.Ops
open Barril

/-- a Python class as `isinstance` sees it: its own tag and the tags of all its proper base classes -/
structure PyClass where
  tag : Nat
  bases : List Nat
deriving DecidableEq, Repr

/-- `issubclass(c, k)` -/
def PyClass.isSub (c : PyClass) (k : Nat) : Bool := c.tag == k || c.bases.contains k

/-- a registered conversion function, by what it does to every amount of the value -/
inductive ConvFn
  /-- `ConvertNumpyArray`: the number conversion, elementwise -/
  | std
  /-- the number conversion times `k` -/
  | scaled (k : Rat)
deriving DecidableEq, Repr

structure RegEntry where
  cls : Nat
  fn : ConvFn
deriving DecidableEq, Repr

/-- `UnitDatabase._additional_conversions` in registration order -/
abbrev Registry := List RegEntry

def Registry.lookup : Registry → Nat → Option ConvFn
  | [], _ => none
  | e :: rest, k => if e.cls == k then some e.fn else Registry.lookup rest k

/-- `RegisterAdditionalConversionType(class_, func)`; the failed `assert` is `.assertion` -/
def Registry.register (reg : Registry) (k : Nat) (fn : ConvFn) : Except ErrKind Registry :=
  match reg.lookup k with
  | none => .ok (reg ++ [⟨k, fn⟩])
  | some g => if g = fn then .ok reg else .error .assertion

/-- the loop at the head of `Convert`: the first registered class the value is an instance of -/
def Registry.dispatch : Registry → PyClass → Option ConvFn
  | [], _ => none
  | e :: rest, c => if c.isSub e.cls then some e.fn else Registry.dispatch rest c

/-- `Convert(quantity_type, from_unit, to_unit, ·)` on every amount of a value -/
abbrev Conv := Sym → Sym → Sym → Tr

def ConvFn.apply (env : Env) : ConvFn → Conv
  | .std => env.convert
  | .scaled k => fun qt f t x =>
    match env.convert qt f t x with
    | .ok y => .ok (y * k)
    | .error e => .error e

/-- `UnitDatabase.Convert` on a value of class `c`: same unit first, then the registered function of the first
registered class `c` is a subclass of, else the number / list / tuple conversion -/
def convertReg (env : Env) (reg : Registry) (c : PyClass) : Conv := fun qt f t =>
  if f == t then Tr.ident
  else
    match reg.dispatch c with
    | some fn => fn.apply env qt f t
    | none => env.convert qt f t

/-- `float` (tags: 0 `object`, 1 `float`, 2 `list`, 3 `tuple`, 4 `numpy.ndarray`) -/
def numClass : PyClass := ⟨1, [0]⟩
def listClass : PyClass := ⟨2, [0]⟩
def tupleClass : PyClass := ⟨3, [0]⟩
def ndClass : PyClass := ⟨4, [0]⟩

/-! ### `_MatchQuantities` and the five operations with the value conversions as parameters -/

def convertMatchingExpV (env : Env) (conv : Conv) (qt fromU toU : Sym) (exp : Int) (inDerived : Bool) :
    Except ErrKind Tr :=
  if fromU == toU || (exp == 1 && !inDerived) then .ok (conv qt fromU toU)
  else
    match env.convert qt fromU toU 0 with
    | .error e => .error e
    | .ok zero =>
      if exp == 1 && zero == 0 then .ok (conv qt fromU toU)
      else
        match unitRatio env qt fromU toU zero with
        | .error e => .error e
        | .ok ratio =>
          match powInt ratio exp with
          | .error e => .error e
          | .ok factor => .ok (fun v => .ok (v * factor))

def matchDictV (env : Env) (conv : Conv) (inDerived : Bool) :
    Found → List Entry → Tr → Except ErrKind (Found × List Entry × Tr)
  | found, [], tr => .ok (found, [], tr)
  | found, e :: es, tr =>
    match env.qtype e.cat with
    | .error err => .error err
    | .ok qt =>
      match found.get qt with
      | none =>
        match matchDictV env conv inDerived ((qt, e.unit) :: found) es tr with
        | .error err => .error err
        | .ok (f', es', tr') => .ok (f', e :: es', tr')
      | some used =>
        match convertMatchingExpV env conv qt e.unit used e.exp inDerived with
        | .error err => .error err
        | .ok step =>
          match matchDictV env conv inDerived found es (tr.andThen step) with
          | .error err => .error err
          | .ok (f', es', tr') => .ok (f', { e with unit := used } :: es', tr')

def matchQuantitiesV (env : Env) (conv1 conv2 : Conv) (c1 c2 : List Entry) :
    Except ErrKind (List Entry × List Entry × Tr × Tr) :=
  match matchDictV env conv1 (decide (1 < c1.length)) [] c1 Tr.ident with
  | .error e => .error e
  | .ok (f1, c1', t1) =>
    match matchDictV env conv2 (decide (1 < c2.length)) f1 c2 Tr.ident with
    | .error e => .error e
    | .ok (_, c2', t2) => .ok (c1', c2', t1, t2)

def opSameV (env : Env) (conv1 conv2 : Conv) (q1 q2 : Quantity) : Except ErrKind (Quantity × Tr × Tr) :=
  if q1 == q2 then .ok (q1, Tr.ident, Tr.ident)
  else
    match matchQuantitiesV env conv1 conv2 q1 q2 with
    | .error e => .error e
    | .ok (c1, c2, t1, t2) =>
      if sameSet (composingUnits c1) (composingUnits c2) then .ok (c1, t1, t2)
      else if (composingUnits c1).isEmpty then .ok (c2, t1, t2)
      else if (composingUnits c2).isEmpty then .ok (c1, t1, t2)
      else .error .units

def opNewV (env : Env) (conv1 conv2 : Conv) (opExp : Int → Int → Int) (q1 q2 : Quantity) :
    Except ErrKind (Quantity × Tr × Tr) :=
  match matchQuantitiesV env conv1 conv2 q1 q2 with
  | .error e => .error e
  | .ok (c1, c2, t1, t2) =>
    match mergeAll opExp c1 c2 with
    | .error e => .error e
    | .ok merged =>
      match createDerived env (dropZeros merged) with
      | .error e => .error e
      | .ok q => .ok (q, t1, t2)

def opFuncV (env : Env) (conv1 conv2 : Conv) (op : Op) (q1 q2 : Quantity) : Except ErrKind (Quantity × Tr × Tr) :=
  match op with
  | .sum | .sub => opSameV env conv1 conv2 q1 q2
  | .mul => opNewV env conv1 conv2 (· + ·) q1 q2
  | .div | .floordiv => opNewV env conv1 conv2 (· - ·) q1 q2

/-! ### `Array._DoOperation` and `Array.GetValues` on a database with a registry -/

/-- `arrayCompute` of `Ops.lean` on a database whose registry is `reg`; `c1`, `c2` are the classes of the two
`values` containers (the vectorised branch hands the containers to the database operation, the per-element branch
their elements, which are numbers) -/
def arrayComputeReg (env : Env) (reg : Registry) (c1 c2 : PyClass) (op : Op) (q1 q2 : Quantity) (r1 r2 : Raw) :
    Except ErrKind Out :=
  if genIsNumpy r1 r2 then
    match opFuncV env (convertReg env reg c1) (convertReg env reg c2) op q1 q2 with
    | .error e => .error e
    | .ok (q, t1, t2) =>
      match broadcastPairs r1 r2 with
      | .error e => .error e
      | .ok ps =>
        match mapE (fun p => applyOp op t1 t2 p.1 p.2) ps with
        | .error e => .error e
        | .ok vs => .ok (.array q .nd vs)
  else
    match opFuncV env (convertReg env reg numClass) (convertReg env reg numClass) op q1 q2 with
    | .error e => .error e
    | .ok (q, t1, t2) =>
      match mapE (fun p => applyOp op t1 t2 p.1 p.2) (genPairs r1 r2) with
      | .error e => .error e
      | .ok vs =>
        if (genPairs r1 r2).isEmpty then
          match applyOp op t1 t2 1 1 with
          | .error e => .error e
          | .ok _ => .ok (.array q (if genIsTuple r1 r2 then .tuple else .list) vs)
        else .ok (.array q (if genIsTuple r1 r2 then .tuple else .list) vs)

/-- the class of a `values` container of kind `k` (`ndc` = the class of the ndarray: `numpy.ndarray` or a subclass) -/
def kindClass (ndc : PyClass) : Kind → PyClass
  | .list => listClass
  | .tuple => tupleClass
  | .nd => ndc

/-- `Array(q1, k1, xs) op Array(q2, k2, ys)` (the third branch of `Array._DoOperation`) with the registry `reg` -/
def arrayOpArrayReg (env : Env) (reg : Registry) (ndc : PyClass) (op : Op) (q1 : Quantity) (k1 : Kind) (xs : List Rat)
    (q2 : Quantity) (k2 : Kind) (ys : List Rat) : Except ErrKind Out :=
  if xs.length ≠ ys.length then .error .value
  else arrayComputeReg env reg (kindClass ndc k1) (kindClass ndc k2) op q1 q2 (.seq k1 xs) (.seq k2 ys)

/-- `Array.GetValues(unit)` / `Array.CreateCopy(unit=…)` of a simple quantity with the registry `reg`: `Quantity.Convert`
on the whole container of class `c` -/
def arrayGetValuesReg (env : Env) (reg : Registry) (c : PyClass) (cat unit : Sym) (kind : Kind) (vs : List Rat) (u : Sym) :
    Except ErrKind (Kind × List Rat) :=
  if unit == u then .ok (kind, vs)
  else
    match env.convertLookup cat unit u with
    | .error e => .error e
    | .ok _ =>
      match mapE (convertReg env reg c cat unit u) vs with
      | .error e => .error e
      | .ok ws => .ok (kind, ws)

/-- a history: registrations (failed ones leave the registry as it was), then the registry the operation sees -/
def Registry.registerAll : Registry → List RegEntry → Registry
  | reg, [] => reg
  | reg, e :: es =>
    match reg.register e.cls e.fn with
    | .ok reg' => Registry.registerAll reg' es
    | .error _ => Registry.registerAll reg es

end Barril.Ops
