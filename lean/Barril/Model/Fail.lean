/-
C05: operations on dimensionally incompatible operands, as a session over a fixed database with
the validity memo table (`_category_unit_valid`) and the quantity cache (`quantities_cache`).

Modelled after: `UnitDatabase.CheckCategoryUnit` (memo semantics), the simple branch of
`Quantity.__init__` (category lookup, unit check, legacy retry), `ObtainQuantity(unit, category)`
with a string unit and a string category, `UnitDatabase.Convert`, the simple-operand paths of
`_DoOperationWithSameQuantity` (Sum/Subtract) and `Scalar._GetValuesToCompare` (order).
-/
import Barril.Model.Conv

namespace Barril.Fail
open Barril

/-- a simple quantity as the code stores it: category and (legacy-fixed) unit -/
structure Simple where
  cat : Sym
  unit : Sym
deriving DecidableEq, Repr

structure FState where
  /-- `_category_unit_valid` -/
  memo : List ((Sym × Sym) × Bool)
  /-- `quantities_cache`, keys `(category, unit, None)` -/
  cache : List ((Sym × Sym) × Simple)
deriving Repr

def FState.empty : FState := ⟨[], []⟩

def lookupMemo (m : List ((Sym × Sym) × Bool)) (k : Sym × Sym) : Option Bool :=
  (m.find? (·.1 == k)).map (·.2)

def lookupCache (m : List ((Sym × Sym) × Simple)) (k : Sym × Sym) : Option Simple :=
  (m.find? (·.1 == k)).map (·.2)

/-- `CheckCategoryUnit(category, unit)`: `true` = accepted, `false` = `InvalidUnitError`; a miss
computes the verdict and memoises it, positive or negative -/
def checkCategoryUnit (db : Db) (s : FState) (c u : Sym) : FState × Bool :=
  match lookupMemo s.memo (c, u) with
  | some v => (s, v)
  | none =>
    let v := db.categoryUnitValid c u
    ({ s with memo := ((c, u), v) :: s.memo }, v)

/-- simple branch of `Quantity.__init__(category, unit)` -/
def newQuantity (db : Db) (s : FState) (c u : Sym) : FState × Except ErrKind Simple :=
  match db.catByName c with
  | none => (s, .error .units)                      -- GetCategoryInfo: InvalidQuantityTypeError
  | some _ =>
    let (s1, ok) := checkCategoryUnit db s c u
    if ok then (s1, .ok ⟨c, u⟩)
    else if isLegacy db.legacy u then
      let u' := fixLegacy db.legacy u
      let (s2, ok2) := checkCategoryUnit db s1 c u'
      if ok2 then (s2, .ok ⟨c, u'⟩) else (s2, .error .units)
    else (s1, .error .units)

/-- `ObtainQuantity(unit, category)` (both strings, no caption) -/
def obtain (db : Db) (s : FState) (c u : Sym) : FState × Except ErrKind Simple :=
  match lookupCache s.cache (c, u) with
  | some q => (s, .ok q)
  | none =>
    match newQuantity db s c u with
    | (s1, .ok q) => ({ s1 with cache := ((c, u), q) :: s1.cache }, .ok q)
    | (s1, .error e) => (s1, .error e)

/-- the quantity type of a simple quantity -/
def qtypeOf (db : Db) (q : Simple) : Sym :=
  match db.catByName q.cat with
  | some c => c.qtype
  | none => 0

inductive ArithOp | add | sub
deriving DecidableEq, Repr

/-- `Sum`/`Subtract` on two simple quantities (`_DoOperationWithSameQuantity`): equal quantities are
combined directly; otherwise the right operand is converted when both share the quantity type and
the joined composing units are compared as sets -/
def addSub (db : Db) (op : ArithOp) (a b : Simple) (x y : Rat) : Except ErrKind (Simple × Rat) :=
  let f : Rat → Rat → Rat := fun p q => match op with | .add => p + q | .sub => p - q
  if a = b then .ok (a, f x y)
  else if qtypeOf db a == qtypeOf db b then
    -- `_MatchQuantities`: the second operand takes the first one's unit
    match db.convert (qtypeOf db a) b.unit a.unit y with
    | .ok y' => .ok (a, f x y')
    | .error e => .error e
  else if a.unit == b.unit then .ok (a, f x y)     -- same unit symbol: the unit sets are equal
  else .error .units                                 -- InvalidOperationError

inductive CmpOp | lt | le | gt | ge
deriving DecidableEq, Repr

/-- order operators of `Scalar` (`_GetValuesToCompare`) -/
def order (db : Db) (op : CmpOp) (a b : Simple) (x y : Rat) : Except ErrKind Bool :=
  if qtypeOf db a != qtypeOf db b then .error .type
  else if b.unit == a.unit then
    .ok (match op with | .lt => x < y | .le => x ≤ y | .gt => x > y | .ge => x ≥ y)
  else
    -- other.GetValue(self.unit): Quantity.ConvertScalarValue of a simple quantity
    match db.getInfo (qtypeOf db b) a.unit true with
    | .error e => .error e
    | .ok other =>
      match db.getInfo (qtypeOf db b) b.unit true with
      | .error e => .error e
      | .ok this =>
        match convRows this other y with
        | .error e => .error e
        | .ok y' => .ok (match op with | .lt => x < y' | .le => x ≤ y' | .gt => x > y' | .ge => x ≥ y')

/-- the operations of a C05 session -/
inductive FOp
  | create (c u : Sym)                                   -- Scalar(v, unit, category)
  | check (c u : Sym)                                    -- CheckCategoryUnit
  | convert (cq u v : Sym) (x : Rat)
  | arith (op : ArithOp) (c1 u1 c2 u2 : Sym) (x y : Rat) -- Scalar(x,u1,c1) ± Scalar(y,u2,c2)
  | cmp (op : CmpOp) (c1 u1 c2 u2 : Sym) (x y : Rat)
deriving Repr

inductive FOut
  | quantity (q : Simple)
  | unit
  | number (x : Rat)
  | qnumber (q : Simple) (x : Rat)
  | bool (b : Bool)
deriving DecidableEq, Repr

def step (db : Db) (s : FState) : FOp → FState × Except ErrKind FOut
  | .create c u =>
    match obtain db s c u with
    | (s1, .ok q) => (s1, .ok (.quantity q))
    | (s1, .error e) => (s1, .error e)
  | .check c u =>
    let (s1, ok) := checkCategoryUnit db s c u
    (s1, if ok then .ok .unit else .error .units)
  | .convert cq u v x =>
    (s, match db.convert cq u v x with
        | .ok y => .ok (.number y)
        | .error e => .error e)
  | .arith op c1 u1 c2 u2 x y =>
    match obtain db s c1 u1 with
    | (s1, .error e) => (s1, .error e)
    | (s1, .ok a) =>
      match obtain db s1 c2 u2 with
      | (s2, .error e) => (s2, .error e)
      | (s2, .ok b) =>
        (s2, match addSub db op a b x y with
             | .ok (q, z) => .ok (.qnumber q z)
             | .error e => .error e)
  | .cmp op c1 u1 c2 u2 x y =>
    match obtain db s c1 u1 with
    | (s1, .error e) => (s1, .error e)
    | (s1, .ok a) =>
      match obtain db s1 c2 u2 with
      | (s2, .error e) => (s2, .error e)
      | (s2, .ok b) =>
        (s2, match order db op a b x y with
             | .ok r => .ok (.bool r)
             | .error e => .error e)

instance {ε α : Type} [DecidableEq ε] [DecidableEq α] : DecidableEq (Except ε α)
  | .ok a, .ok b => if h : a = b then isTrue (by rw [h]) else isFalse (fun e => h (by cases e; rfl))
  | .error a, .error b => if h : a = b then isTrue (by rw [h]) else isFalse (fun e => h (by cases e; rfl))
  | .ok _, .error _ => isFalse (fun e => by cases e)
  | .error _, .ok _ => isFalse (fun e => by cases e)

def run (db : Db) (s : FState) : List FOp → FState
  | [] => s
  | op :: ops => run db (step db s op).1 ops

def outputs (db : Db) (s : FState) : List FOp → List (Except ErrKind FOut)
  | [] => []
  | op :: ops => (step db s op).2 :: outputs db (step db s op).1 ops

end Barril.Fail
