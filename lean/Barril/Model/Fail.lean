/-
C05: operations on dimensionally incompatible operands, as a session over a fixed database with
the validity memo table (`_category_unit_valid`) and the quantity cache (`quantities_cache`).

Modelled after: `UnitDatabase.CheckCategoryUnit` (memo semantics), the simple branch of
`Quantity.__init__` (category lookup, unit check, legacy retry), `ObtainQuantity(unit, category)`
with a string unit and a string category, `UnitDatabase.Convert`, the simple-operand paths of
`_DoOperationWithSameQuantity` (Sum/Subtract) and `Scalar._GetValuesToCompare` (order).

Second part (the extended session `XState`/`xstep`): `ObtainQuantity(unit)` without category
(`GetDefaultCategory`, legacy retry, the alias entry `(None, unit, None)` of `quantities_cache`),
`ObtainQuantity(OrderedDict)` / the list form / `_ObtainReduced` (unpickling) and
`Quantity.CreateDerived` (derived entries of `quantities_cache`, validation on a miss), the derived
branch of `Quantity.__init__` (category, quantity-type and unit strings), the ordering operators on
arbitrary quantities (`Quantity.ConvertScalarValue` with its same-unit-string shortcut,
`Quantity.Convert` → `UnitDatabase.Convert` → `_ConvertWithExp` for derived operands), and the
registrations `AddCategory(category, quantity_type, override=…)` / `AddUnit(…, "%f / k", "%f * k",
default_category)` with `_ForgetMemoizedResults` (both memo tables emptied by every successful
registration, untouched by a rejected one).

Third part: sums and differences of DERIVED operands (`sumq`) and `Quantity.__eq__` of two operands
(`eqq`): `_DoOperationWithSameQuantity` on arbitrary quantities is engine Alg's `Alg.opSame` (the
`==` shortcut, `_MatchQuantities`, the two copies, the comparison of the joined composing units),
`Quantity.__eq__` is `Alg.Quantity.eqv`.  Neither reads nor writes the verdict table or the
quantity cache of the session: the step returns the state it was given.
-/
import Barril.Model.Conv
import Barril.Model.StrRender
import Barril.Model.Alg

namespace Barril.Fail
open Barril

/-- a simple quantity as the code stores it: category and (legacy-fixed) unit -/
structure Simple where
  cat : Sym
  unit : Sym
deriving DecidableEq, Repr

structure FState where
  /-- `_category_unit_valid` -/
  memo : List ((Sym × Sym) × Bool)
  /-- `quantities_cache`, keys `(category, unit, None)` -/
  cache : List ((Sym × Sym) × Simple)
deriving Repr

def FState.empty : FState := ⟨[], []⟩

def lookupMemo (m : List ((Sym × Sym) × Bool)) (k : Sym × Sym) : Option Bool :=
  (m.find? (·.1 == k)).map (·.2)

def lookupCache (m : List ((Sym × Sym) × Simple)) (k : Sym × Sym) : Option Simple :=
  (m.find? (·.1 == k)).map (·.2)

/-- `CheckCategoryUnit(category, unit)`: `true` = accepted, `false` = `InvalidUnitError`; a miss
computes the verdict and memoises it, positive or negative -/
def checkCategoryUnit (db : Db) (s : FState) (c u : Sym) : FState × Bool :=
  match lookupMemo s.memo (c, u) with
  | some v => (s, v)
  | none =>
    let v := db.categoryUnitValid c u
    ({ s with memo := ((c, u), v) :: s.memo }, v)

/-- simple branch of `Quantity.__init__(category, unit)` -/
def newQuantity (db : Db) (s : FState) (c u : Sym) : FState × Except ErrKind Simple :=
  match db.catByName c with
  | none => (s, .error .units)                      -- GetCategoryInfo: InvalidQuantityTypeError
  | some _ =>
    let (s1, ok) := checkCategoryUnit db s c u
    if ok then (s1, .ok ⟨c, u⟩)
    else if isLegacy db.legacy u then
      let u' := fixLegacy db.legacy u
      let (s2, ok2) := checkCategoryUnit db s1 c u'
      if ok2 then (s2, .ok ⟨c, u'⟩) else (s2, .error .units)
    else (s1, .error .units)

/-- `ObtainQuantity(unit, category)` (both strings, no caption) -/
def obtain (db : Db) (s : FState) (c u : Sym) : FState × Except ErrKind Simple :=
  match lookupCache s.cache (c, u) with
  | some q => (s, .ok q)
  | none =>
    match newQuantity db s c u with
    | (s1, .ok q) => ({ s1 with cache := ((c, u), q) :: s1.cache }, .ok q)
    | (s1, .error e) => (s1, .error e)

/-- the quantity type of a simple quantity -/
def qtypeOf (db : Db) (q : Simple) : Sym :=
  match db.catByName q.cat with
  | some c => c.qtype
  | none => 0

inductive ArithOp | add | sub
deriving DecidableEq, Repr

/-- `Sum`/`Subtract` on two simple quantities (`_DoOperationWithSameQuantity`): equal quantities are
combined directly; otherwise the right operand is converted when both share the quantity type and
the joined composing units are compared as sets -/
def addSub (db : Db) (op : ArithOp) (a b : Simple) (x y : Rat) : Except ErrKind (Simple × Rat) :=
  let f : Rat → Rat → Rat := fun p q => match op with | .add => p + q | .sub => p - q
  if a = b then .ok (a, f x y)
  else if qtypeOf db a == qtypeOf db b then
    -- `_MatchQuantities`: the second operand takes the first one's unit
    match db.convert (qtypeOf db a) b.unit a.unit y with
    | .ok y' => .ok (a, f x y')
    | .error e => .error e
  else if a.unit == b.unit then .ok (a, f x y)     -- same unit symbol: the unit sets are equal
  else .error .units                                 -- InvalidOperationError

inductive CmpOp | lt | le | gt | ge
deriving DecidableEq, Repr

/-- order operators of `Scalar` (`_GetValuesToCompare`) -/
def order (db : Db) (op : CmpOp) (a b : Simple) (x y : Rat) : Except ErrKind Bool :=
  if qtypeOf db a != qtypeOf db b then .error .type
  else if b.unit == a.unit then
    .ok (match op with | .lt => x < y | .le => x ≤ y | .gt => x > y | .ge => x ≥ y)
  else
    -- other.GetValue(self.unit): Quantity.ConvertScalarValue of a simple quantity
    match db.getInfo (qtypeOf db b) a.unit true with
    | .error e => .error e
    | .ok other =>
      match db.getInfo (qtypeOf db b) b.unit true with
      | .error e => .error e
      | .ok this =>
        match convRows this other y with
        | .error e => .error e
        | .ok y' => .ok (match op with | .lt => x < y' | .le => x ≤ y' | .gt => x > y' | .ge => x ≥ y')

/-- the operations of a C05 session -/
inductive FOp
  | create (c u : Sym)                                   -- Scalar(v, unit, category)
  | check (c u : Sym)                                    -- CheckCategoryUnit
  | convert (cq u v : Sym) (x : Rat)
  | arith (op : ArithOp) (c1 u1 c2 u2 : Sym) (x y : Rat) -- Scalar(x,u1,c1) ± Scalar(y,u2,c2)
  | cmp (op : CmpOp) (c1 u1 c2 u2 : Sym) (x y : Rat)
deriving Repr

inductive FOut
  | quantity (q : Simple)
  | unit
  | number (x : Rat)
  | qnumber (q : Simple) (x : Rat)
  | bool (b : Bool)
deriving DecidableEq, Repr

def step (db : Db) (s : FState) : FOp → FState × Except ErrKind FOut
  | .create c u =>
    match obtain db s c u with
    | (s1, .ok q) => (s1, .ok (.quantity q))
    | (s1, .error e) => (s1, .error e)
  | .check c u =>
    let (s1, ok) := checkCategoryUnit db s c u
    (s1, if ok then .ok .unit else .error .units)
  | .convert cq u v x =>
    (s, match db.convert cq u v x with
        | .ok y => .ok (.number y)
        | .error e => .error e)
  | .arith op c1 u1 c2 u2 x y =>
    match obtain db s c1 u1 with
    | (s1, .error e) => (s1, .error e)
    | (s1, .ok a) =>
      match obtain db s1 c2 u2 with
      | (s2, .error e) => (s2, .error e)
      | (s2, .ok b) =>
        (s2, match addSub db op a b x y with
             | .ok (q, z) => .ok (.qnumber q z)
             | .error e => .error e)
  | .cmp op c1 u1 c2 u2 x y =>
    match obtain db s c1 u1 with
    | (s1, .error e) => (s1, .error e)
    | (s1, .ok a) =>
      match obtain db s1 c2 u2 with
      | (s2, .error e) => (s2, .error e)
      | (s2, .ok b) =>
        (s2, match order db op a b x y with
             | .ok r => .ok (.bool r)
             | .error e => .error e)

instance {ε α : Type} [DecidableEq ε] [DecidableEq α] : DecidableEq (Except ε α)
  | .ok a, .ok b => if h : a = b then isTrue (by rw [h]) else isFalse (fun e => h (by cases e; rfl))
  | .error a, .error b => if h : a = b then isTrue (by rw [h]) else isFalse (fun e => h (by cases e; rfl))
  | .ok _, .error _ => isFalse (fun e => by cases e)
  | .error _, .ok _ => isFalse (fun e => by cases e)

def run (db : Db) (s : FState) : List FOp → FState
  | [] => s
  | op :: ops => run db (step db s op).1 ops

def outputs (db : Db) (s : FState) : List FOp → List (Except ErrKind FOut)
  | [] => []
  | op :: ops => (step db s op).2 :: outputs db (step db s op).1 ops

/-! ## second part: derived quantities, default categories, registrations -/

/-- one item of `_category_to_unit_and_exps`: `category ↦ [unit, exponent]` -/
structure Ent where
  cat : Sym
  unit : Sym
  exp : Int
deriving DecidableEq, Repr

/-- a `Quantity`, simple or derived, with the strings its constructor computes -/
structure Quant where
  entries : List Ent
  derived : Bool
  /-- `_category` -/
  category : Sym
  /-- `_quantity_type` -/
  qtype : Sym
  /-- `_unit` -/
  unit : Sym
deriving DecidableEq, Repr

/-- a simple quantity seen as a `Quant` -/
def Quant.ofSimple (db : Db) (q : Simple) : Quant :=
  ⟨[⟨q.cat, q.unit, 1⟩], false, q.cat, qtypeOf db q, q.unit⟩

/-- `GetCategoryQuantityType`: `InvalidQuantityTypeError` for a category that is not registered -/
def catQType (db : Db) (c : Sym) : Except ErrKind Sym :=
  match db.catByName c with
  | some ci => .ok ci.qtype
  | none => .error .units

/-- the loop of the derived branch of `Quantity.__init__` over the composing categories -/
def typePairs (db : Db) : List Ent → Except ErrKind (List (Str.Str × Int))
  | [] => .ok []
  | e :: rest =>
    match catQType db e.cat with
    | .error err => .error err
    | .ok qt =>
      match typePairs db rest with
      | .error err => .error err
      | .ok ps => .ok ((Sym.bytes qt, e.exp) :: ps)

def catPairs (es : List Ent) : List (Str.Str × Int) := es.map (fun e => (Sym.bytes e.cat, e.exp))
def unitPairs (es : List Ent) : List (Str.Str × Int) := es.map (fun e => (Sym.bytes e.unit, e.exp))

/-- the three strings of a derived quantity: `_MakeStr` of the categories, `_MakeStr` of the joined
quantity types, `_CreateUnitsWithJoinedExponentsString` -/
def derivedOf (es : List Ent) (typePs : List (Str.Str × Int)) : Quant :=
  ⟨es, true, Sym.ofBytes (Str.makeStr (catPairs es)), Sym.ofBytes (Str.makeStr (Str.joinExps typePs)),
   Sym.ofBytes (Str.renderUnit (Str.joinExps (unitPairs es)))⟩

/-- `Quantity(OrderedDict, None)` -/
def newDerived (db : Db) (es : List Ent) : Except ErrKind Quant :=
  match typePairs db es with
  | .error e => .error e
  | .ok ps => .ok (derivedOf es ps)

/-- the validation loop of `Quantity._CreateDerived`, which `ObtainQuantity` also runs on a miss of a
derived key: `CheckQuantityTypeUnit(GetCategoryQuantityType(category), unit)` for every entry (no
legacy fixing; the verdict table is not involved) -/
def validateEntries (db : Db) : List Ent → Except ErrKind Unit
  | [] => .ok ()
  | e :: rest =>
    match catQType db e.cat with
    | .error err => .error err
    | .ok qt =>
      match db.checkQuantityTypeUnit qt e.unit with
      | .error err => .error err
      | .ok _ => validateEntries db rest

/-- a miss of a derived key: validate, then build -/
def newDerivedChecked (db : Db) (es : List Ent) : Except ErrKind Quant :=
  match validateEntries db es with
  | .error e => .error e
  | .ok _ => newDerived db es

/-- "Although passed as composing, it's a simple case": one entry with exponent 1 -/
def simpleCase : List Ent → Option (Sym × Sym)
  | [e] => if e.exp = 1 then some (e.cat, e.unit) else none
  | _ => none

/-- the session with a registry that can change: the database, the verdict table and the simple
entries of `quantities_cache` (`s`), the alias entries `(None, unit, None)` and the entries keyed by a
composing map -/
structure XState where
  db : Db
  s : FState
  alias : List (Sym × Simple)
  dcache : List (List Ent × Quant)

/-- a freshly built database object: both memo tables empty -/
def XState.fresh (db : Db) : XState := ⟨db, FState.empty, [], []⟩

def lookupAlias (m : List (Sym × Simple)) (u : Sym) : Option Simple :=
  (m.find? (·.1 == u)).map (·.2)

def lookupD (m : List (List Ent × Quant)) (k : List Ent) : Option Quant :=
  (m.find? (·.1 == k)).map (·.2)

/-- `ObtainQuantity(OrderedDict)` — also the list form and `_ObtainReduced` (unpickling): the simple
case goes the way of `ObtainQuantity(unit, category)`; otherwise the key is the tuple of the entries
in the order given, a hit is returned as it is, a miss validates every entry, builds the quantity
and stores it -/
def obtainDict (st : XState) (es : List Ent) : XState × Except ErrKind Quant :=
  match simpleCase es with
  | some (c, u) =>
    match obtain st.db st.s c u with
    | (s1, .ok q) => ({ st with s := s1 }, .ok (Quant.ofSimple st.db q))
    | (s1, .error e) => ({ st with s := s1 }, .error e)
  | none =>
    match lookupD st.dcache es with
    | some q => (st, .ok q)
    | none =>
      match newDerivedChecked st.db es with
      | .ok q => ({ st with dcache := (es, q) :: st.dcache }, .ok q)
      | .error e => (st, .error e)

/-- `Quantity.CreateDerived(category_to_unit_and_exps)`: validates before it looks at the cache -/
def createDerived (st : XState) (es : List Ent) : XState × Except ErrKind Quant :=
  match validateEntries st.db es with
  | .error e => (st, .error e)
  | .ok _ => obtainDict st es

/-- the tail of `GetDefaultCategory` once the `UnitInfo` is found; `0` stands for `None` -/
def defaultCategoryOf (db : Db) (w : UnitRow) : Sym :=
  if w.defaultCat != 0 then w.defaultCat
  else if (db.catByName w.qtype).isSome then w.qtype else 0

/-- `GetDefaultCategory(unit)`: a legacy spelling whose current spelling is not registered raises
`KeyError` -/
def getDefaultCategory (db : Db) (u : Sym) : Except ErrKind Sym :=
  match db.unitBySym u with
  | some w => .ok (defaultCategoryOf db w)
  | none =>
    if !isLegacy db.legacy u then .ok 0 else
    match db.unitBySym (fixLegacy db.legacy u) with
    | some w => .ok (defaultCategoryOf db w)
    | none => .error .key

/-- the category and unit `ObtainQuantity(unit, None)` resolves to (`0` = no category) -/
def resolveDefault (db : Db) (u : Sym) : Except ErrKind (Sym × Sym) :=
  match getDefaultCategory db u with
  | .error e => .error e
  | .ok c =>
    if c != 0 then .ok (c, u)
    else if isLegacy db.legacy u then
      match getDefaultCategory db (fixLegacy db.legacy u) with
      | .error e => .error e
      | .ok c' => .ok (c', fixLegacy db.legacy u)
    else .error .units

/-- `ObtainQuantity(unit)` (= `Scalar(value, unit)`, `Scalar((value, unit))`): the key
`(None, unit, None)` first; then the category is resolved and the key `(category, unit', None)` is
tried; a miss builds `Quantity(category, unit')` (a `TypeError` when there is no category) and stores
it under BOTH keys -/
def obtainU (st : XState) (u : Sym) : XState × Except ErrKind Simple :=
  match lookupAlias st.alias u with
  | some q => (st, .ok q)
  | none =>
    match resolveDefault st.db u with
    | .error e => (st, .error e)
    | .ok (c, u') =>
      if c = 0 then
        match lookupAlias st.alias u' with
        | some q => (st, .ok q)
        | none => (st, .error .type)
      else
        match lookupCache st.s.cache (c, u') with
        | some q => (st, .ok q)
        | none =>
          match newQuantity st.db st.s c u' with
          | (s1, .ok q) =>
            ({ st with s := { s1 with cache := ((c, u'), q) :: s1.cache }, alias := (u, q) :: st.alias }, .ok q)
          | (s1, .error e) => ({ st with s := s1 }, .error e)

def cmpRat (op : CmpOp) (x y : Rat) : Bool :=
  match op with | .lt => x < y | .le => x ≤ y | .gt => x > y | .ge => x ≥ y

/-- `Quantity.ConvertScalarValue(value, to_unit)`: the same unit STRING returns the value as it is;
a simple quantity converts through `GetInfo(quantity_type, to_unit)` and its stored to-base formula;
a derived one through `Quantity.Convert` → `UnitDatabase.Convert(categories, ((unit, exp), …),
to_unit, value)` → `_ConvertWithExp`: no composing unit: the value; more than one: `ComposedUnitError`;
one with an exponent other than 1 (the target counts as exponent 1): `ValueError`; else the plain
conversion under the category -/
def convertScalarValue (db : Db) (b : Quant) (toU : Sym) (y : Rat) : Except ErrKind Rat :=
  if b.unit == toU then .ok y
  else if !b.derived then
    match b.entries with
    | [e] =>
      match db.getInfo b.qtype toU true with
      | .error err => .error err
      | .ok other =>
        match db.getInfo b.qtype e.unit true with
        | .error err => .error err
        | .ok this => convRows this other y
    | _ => .error .other
  else
    match b.entries with
    | [] => .ok y
    | [e] => if e.exp != 1 then .error .value else db.convert e.cat e.unit toU y
    | _ => .error .units

/-- order operators of `Scalar` (`_GetValuesToCompare`) on arbitrary quantities: the quantity-type
STRINGS are compared first, then the right operand is expressed in the left operand's unit string -/
def orderQ (db : Db) (op : CmpOp) (a b : Quant) (x y : Rat) : Except ErrKind Bool :=
  if a.qtype != b.qtype then .error .type
  else
    match convertScalarValue db b a.unit y with
    | .error e => .error e
    | .ok y' => .ok (cmpRat op x y')

/-! ### registrations -/

/-- `categories_to_quantity_types[category] = info`: an existing key keeps its place -/
def catSet : List CatRow → CatRow → List CatRow
  | [], n => [n]
  | c :: cs, n => if c.name == n.name then n :: cs else c :: catSet cs n

/-- `GetBaseUnit(quantity_type)` -/
def baseUnit (db : Db) (qt : Sym) : Except ErrKind Sym :=
  match db.unitsOfType qt with
  | w :: _ => .ok w.sym
  | [] => .error .units

/-- the registrations of a C05 session -/
inductive RegOp
  /-- `AddCategory(c, qt, override=…)`, everything else left to its default -/
  | addCategory (c qt : Sym) (override : Bool)
  /-- `AddUnit(qt, name, u, "%f / k", "%f * k", default_category=dc)` (`dc = 0`: none) -/
  | addUnit (qt name u dc : Sym) (k : Rat)
deriving Repr

/-- the row `AddUnit` stores for the two formula strings (none of the C05 operations reads the
annotation fields) -/
def scaledRow (qt name u dc : Sym) (k : Rat) : UnitRow :=
  ⟨qt, name, u, true, ⟨0, k, 1, 0⟩, ⟨0, 1, k, 0⟩, true, true, none, none, dc, 0⟩

/-- the registry after a registration, or the error it raises (then nothing has changed).
`AddCategory`: `UnitsError` for a registered name without `override`; the default unit is the base unit
of the quantity type (`InvalidQuantityTypeError` when there is none); no valid-unit list, default value
0, no limits (the caption, which no operation of the session reads, is not modelled).
`AddUnit`: `RuntimeError` for a symbol that is registered already; the row goes last in its type -/
def applyReg (db : Db) : RegOp → Except ErrKind Db
  | .addCategory c qt override =>
    if !override && (db.catByName c).isSome then .error .units
    else
      match baseUnit db qt with
      | .error e => .error e
      | .ok base => .ok { db with cats := catSet db.cats ⟨c, qt, none, base, 0, none, none, false, false, 0⟩ }
  | .addUnit qt name u dc k =>
    if (db.unitBySym u).isSome then .error .runtime
    else .ok { db with units := db.units ++ [scaledRow qt name u dc k] }

/-- the operations of the extended session -/
inductive XOp
  | plain (op : FOp)
  /-- `Scalar(v, unit)` / `ObtainQuantity(unit)` -/
  | createU (u : Sym)
  /-- `ObtainQuantity(dict)`, the list form, unpickling (`validate = false`); `Quantity.CreateDerived` -/
  | createDict (validate : Bool) (es : List Ent)
  /-- ordering of two scalars whose quantities are obtained from their composing maps -/
  | cmpq (op : CmpOp) (a b : List Ent) (x y : Rat)
  | reg (r : RegOp)
  /-- `X + Y` / `X - Y` of two values (Scalars, or Arrays element by element) whose quantities are arbitrary,
  in particular derived: `UnitDatabase.Sum` / `Subtract` → `_DoOperationWithSameQuantity` -/
  | sumq (op : Alg.SameOp) (a b : Alg.Quantity) (x y : Rat)
  /-- `X.GetQuantity() == Y.GetQuantity()` (`Quantity.__eq__`) -/
  | eqq (a b : Alg.Quantity)
deriving Repr

inductive XOut
  | plain (o : FOut)
  | quant (q : Quant)
  /-- the quantity and the value of a sum or difference -/
  | sum (q : Alg.Quantity) (x : Rat)
deriving DecidableEq, Repr

/-- the answer of `sumq`: `Alg.opSame` over the registry as it is at this point of the session -/
def sumAnswer (db : Db) (op : Alg.SameOp) (a b : Alg.Quantity) (x y : Rat) : Except ErrKind XOut :=
  match Alg.opSame db op a b x y with
  | .ok (q, z) => .ok (.sum q z)
  | .error e => .error e

def exMap {α β : Type} (f : α → β) : Except ErrKind α → Except ErrKind β
  | .ok a => .ok (f a)
  | .error e => .error e

def xstep (st : XState) : XOp → XState × Except ErrKind XOut
  | .plain op => ({ st with s := (step st.db st.s op).1 }, exMap XOut.plain (step st.db st.s op).2)
  | .createU u => ((obtainU st u).1, exMap (fun q => XOut.plain (.quantity q)) (obtainU st u).2)
  | .createDict validate es =>
    if validate then ((createDerived st es).1, exMap XOut.quant (createDerived st es).2)
    else ((obtainDict st es).1, exMap XOut.quant (obtainDict st es).2)
  | .cmpq op ea eb x y =>
    match obtainDict st ea with
    | (st1, .error e) => (st1, .error e)
    | (st1, .ok a) =>
      match obtainDict st1 eb with
      | (st2, .error e) => (st2, .error e)
      | (st2, .ok b) => (st2, exMap (fun r => XOut.plain (.bool r)) (orderQ st2.db op a b x y))
  | .reg r =>
    match applyReg st.db r with
    | .ok db' => (XState.fresh db', .ok (.plain .unit))
    | .error e => (st, .error e)
  | .sumq op a b x y => (st, sumAnswer st.db op a b x y)
  | .eqq a b => (st, .ok (.plain (.bool (a.eqv b))))

def xrun (st : XState) : List XOp → XState
  | [] => st
  | op :: ops => xrun (xstep st op).1 ops

def xoutputs (st : XState) : List XOp → List (Except ErrKind XOut)
  | [] => []
  | op :: ops => (xstep st op).2 :: xoutputs (xstep st op).1 ops

end Barril.Fail
