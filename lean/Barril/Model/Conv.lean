/-
`UnitDatabase.GetInfo`, `CheckQuantityTypeUnit`, `CheckCategoryUnit` (memo-free meaning) and the
scalar branch of `UnitDatabase.Convert`, written after the Python line by line.
-/
import Barril.Model.Basic
import Barril.Model.Legacy

namespace Barril

def unknownQType : Sym := Sym.ofString "Unknown"
def unknownUnit : Sym := Sym.ofString "<unknown>"

/-- `TryToGetUnitInfoFromUnit`: the global symbol index, accepted only when the quantity type
matches -/
def Db.tryInfo (db : Db) (qt u : Sym) : Option UnitRow :=
  match db.unitBySym u with
  | some r => if r.qtype == qt then some r else none
  | none => none

/-- "First check if the quantity_type is a registered category" -/
def Db.resolveQt (db : Db) (qt0 : Sym) : Sym :=
  match db.catByName qt0 with
  | some c => c.qtype
  | none => qt0

/-- the `fix_unknown` fallback: the `<unknown>` row of the `Unknown` quantity type -/
def Db.infoUnknown (db : Db) (qt : Sym) (fixUnknown : Bool) : Option UnitRow :=
  if fixUnknown && qt == unknownQType then (db.unitsOfType qt).find? (·.sym == unknownUnit)
  else none

/-- the `fix_legacy` fallback -/
def Db.infoLegacy (db : Db) (qt u : Sym) (fixLeg : Bool) : Option UnitRow :=
  if fixLeg && isLegacy db.legacy u then db.tryInfo qt (fixLegacy db.legacy u) else none

/-- `UnitDatabase.GetInfo(quantity_type, unit, fix_unknown, fix_legacy)` -/
def Db.getInfo (db : Db) (qt0 u : Sym) (fixUnknown : Bool := false) (fixLeg : Bool := true) :
    Except ErrKind UnitRow :=
  match db.tryInfo qt0 u with
  | some r => .ok r
  | none =>
    if !db.hasType (db.resolveQt qt0) then .error .units else
    match (db.unitsOfType (db.resolveQt qt0)).find? (·.sym == u) with
    | some r => .ok r
    | none =>
      match db.infoUnknown (db.resolveQt qt0) fixUnknown with
      | some r => .ok r
      | none =>
        match db.infoLegacy (db.resolveQt qt0) u fixLeg with
        | some r => .ok r
        | none => .error .units

/-- `CheckQuantityTypeUnit` -/
def Db.checkQuantityTypeUnit (db : Db) (qt u : Sym) : Except ErrKind Unit :=
  match db.getInfo qt u false false with
  | .ok _ => .ok ()
  | .error e => .error e

/-- meaning of `CheckCategoryUnit` without its memo table -/
def Db.categoryUnitValid (db : Db) (c u : Sym) : Bool :=
  match db.catByName c with
  | none => false
  | some ci =>
    match db.checkQuantityTypeUnit ci.qtype u with
    | .ok _ => true
    | .error _ => false

/-- a conversion formula applied to an exact number; a zero denominator is Python's
`ZeroDivisionError` -/
def Mob.apply (m : Mob) (x : Rat) : Except ErrKind Rat :=
  if m.r + m.s * x = 0 then .error .other else .ok (m.eval x)

/-- the composition used everywhere: `other.frombase(this.tobase(value))` -/
def convRows (this other : UnitRow) (x : Rat) : Except ErrKind Rat :=
  if !(this.ok && other.ok) then .error .other else
  match this.toBase.apply x with
  | .error e => .error e
  | .ok b => other.fromBase.apply b

/-- the quantity type meant by a "category or quantity type" argument of `Convert`:
a registered category wins, otherwise the name must be a quantity type (`CheckQuantityType`) -/
def Db.typeOf (db : Db) (cq : Sym) : Except ErrKind Sym :=
  match db.catByName cq with
  | some c => .ok c.qtype
  | none => if db.hasType cq then .ok cq else .error .units

/-- `UnitDatabase.Convert(category_or_quantity_type, from_unit, to_unit, value)` for string units
and a number -/
def Db.convert (db : Db) (cq fromU toU : Sym) (x : Rat) : Except ErrKind Rat :=
  if fromU == toU then .ok x else
  match db.typeOf cq with
  | .error e => .error e
  | .ok qt =>
    match db.getInfo qt fromU true with
    | .error e => .error e
    | .ok this =>
      match db.getInfo qt toU true with
      | .error e => .error e
      | .ok other => convRows this other x

/-! ### the row predicate of C01 -/

/-- both formulas are affine with a non-zero constant denominator, the to-base slope is positive
and from-base ∘ to-base is the identity (stated on coefficients) -/
def UnitRow.wf (w : UnitRow) : Bool :=
  w.ok && w.toBase.s == 0 && w.fromBase.s == 0 && w.toBase.r != 0 && w.fromBase.r != 0
  && decide (0 < w.toBase.q * w.toBase.r)
  && w.fromBase.p * w.toBase.r + w.fromBase.q * w.toBase.p == 0
  && w.fromBase.q * w.toBase.q == w.toBase.r * w.fromBase.r

/-- the `__a__ … __d__` annotations (read by downstream code generation) describe the formulas
that are actually executed: to-base `(a + b x)/(c + d x)`, from-base `(a − c y)/(d y − b)` -/
def UnitRow.annAgree (w : UnitRow) : Bool :=
  (match w.annTo with
   | none => true
   | some (a, b, c, d) => w.toBase == ⟨a, b, c, d⟩)
  &&
  (match w.annFrom with
   | none => true
   | some (a, b, c, d) => w.fromBase == ⟨a, -c, -b, d⟩)

/-- a base row as registered by `AddUnitBase`: the identity, flagged as "no conversion" -/
def UnitRow.isIdentity (w : UnitRow) : Bool :=
  w.ok && w.toBase == Mob.ident && w.fromBase == Mob.ident

end Barril
