/-
The unit grammar of the table (C20, reused by C06): byte strings, decimal numerals, splitting, and
the parser `parseUnit`.  Core Lean only.

Grammar (the one the table's own compound symbols follow, e.g. `kg.m/s2`, `1/s`, `m3/m3`):
factors separated by '.', at most one '/', a positive integer exponent written as a decimal suffix
of the factor, numerator `1` for a pure reciprocal.

API
* `Str`                : a string as the list of its UTF-8 bytes (`Sym.bytes` of a table symbol)
* `parseUnit : Str → Option (List (Str × Int))`   numerator factors (exponent > 0) in order, then
  denominator factors (exponent < 0) in order; `none` = the string does not follow the grammar
* `atomic : Str → Bool` : a symbol that is one factor with no exponent suffix
* `decimal : Nat → Str` : Python's `str(n)` for a natural number
-/
import Barril.Model.Basic

namespace Barril.Str

/-- a string as the list of its UTF-8 bytes -/
abbrev Str := List Nat

/-- ASCII codes used by the grammar and the renderers -/
abbrev cDot : Nat := 46      -- '.'
abbrev cSlash : Nat := 47    -- '/'
abbrev cOne : Nat := 49      -- '1'
abbrev cZero : Nat := 48     -- '0'

def isDigit (b : Nat) : Bool := 48 ≤ b && b ≤ 57

/-! ### decimal numerals (`str(n)` / `int(s)` of Python on naturals) -/

/-- decimal digits of `n`, least significant first (fuel = an upper bound on the number of digits) -/
def revDigits : Nat → Nat → Str
  | 0, _ => []
  | f + 1, n => if n < 10 then [48 + n] else (48 + n % 10) :: revDigits f (n / 10)

/-- `str(n)` -/
def decimal (n : Nat) : Str := (revDigits (n + 1) n).reverse

/-- value of a digit string given least significant digit first (`int(s)` on the reversed text) -/
def valRev : Str → Nat
  | [] => 0
  | c :: cs => (c - 48) + 10 * valRev cs

/-! ### splitting and joining (`str.split(sep)` / `sep.join`) -/

/-- `s.split(sep)` for a one-byte separator: never empty, `[[]]` for the empty string -/
def splitOn (sep : Nat) : Str → List Str
  | [] => [[]]
  | c :: cs =>
    if c = sep then [] :: splitOn sep cs
    else match splitOn sep cs with
      | [] => [[c]]          -- unreachable (`splitOn` is never empty)
      | h :: t => (c :: h) :: t

/-- `sep.join(xs)` for a separator string -/
def joinWith (sep : Str) : List Str → Str
  | [] => []
  | [x] => x
  | x :: y :: t => x ++ sep ++ joinWith sep (y :: t)

/-! ### one factor -/

/-- the leading digits of a (reversed) factor and the rest -/
def spanDigits : Str → Str × Str
  | [] => ([], [])
  | c :: cs => if isDigit c then (c :: (spanDigits cs).1, (spanDigits cs).2) else ([], c :: cs)

/-- `name` + optional decimal exponent suffix; the name is what precedes the maximal trailing run of
digits and must not be empty; a written exponent 0 is refused; `sign` is +1 before the '/' and −1
after it -/
def parseFactor (sign : Int) (f : Str) : Option (Str × Int) :=
  let dr := spanDigits f.reverse
  if dr.2 = [] then none
  else if dr.1 = [] then some (dr.2.reverse, sign)
  else if valRev dr.1 = 0 then none
  else some (dr.2.reverse, sign * (valRev dr.1 : Int))

/-- every factor of a side must parse -/
def parseFactors (sign : Int) : List Str → Option (List (Str × Int))
  | [] => some []
  | f :: fs =>
    match parseFactor sign f, parseFactors sign fs with
    | some p, some ps => some (p :: ps)
    | _, _ => none

/-- one side of the '/': factors separated by '.' -/
def parseSide (sign : Int) (t : Str) : Option (List (Str × Int)) :=
  parseFactors sign (splitOn cDot t)

/-- the numerator side: the text `1` stands for "no numerator factor" -/
def parseNum (a : Str) : Option (List (Str × Int)) :=
  if a = [cOne] then some [] else parseSide 1 a

/-- **the grammar parser** -/
def parseUnit (s : Str) : Option (List (Str × Int)) :=
  if s = [] then some []
  else match splitOn cSlash s with
    | [a] => parseSide 1 a
    | [a, b] =>
      match parseNum a, parseSide (-1) b with
      | some n, some d => some (n ++ d)
      | _, _ => none
    | _ => none

/-- a symbol that is a single factor without exponent: not empty, no '.', no '/', last byte not a
digit (so in particular it is not the text `1`) -/
def atomic (u : Str) : Bool :=
  match u.getLast? with
  | none => false
  | some c => !isDigit c && !u.contains cDot && !u.contains cSlash

end Barril.Str
