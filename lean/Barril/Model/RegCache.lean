/-
Engine `Reg`, second layer (C15): a session over a registry that CHANGES, with the two memo tables
of `UnitDatabase` on top: `_category_unit_valid` (verdicts of `CheckCategoryUnit`, positive and
negative) and `quantities_cache` (`ObtainQuantity`).  A successful registration empties both
(`_ForgetMemoizedResults`, fix 94d655e); a rejected one does not touch them.

Modelled after: `UnitDatabase.CheckCategoryUnit`, `Quantity.__init__` (simple branch; the object
keeps its `CategoryInfo`, quantity type and to-base function from creation time),
`ObtainQuantity(unit, category)` for a string unit with a string category and with `category=None`
(default category, legacy retry, double registration under both keys), the shared value-object
constructor (`Scalar(c)`, `Scalar(x, u)`, `Scalar(x, u, c)`), `Quantity.CheckValue` /
`Scalar.IsValid`, object-level `GetValidUnits`, `UnitDatabase.Convert` (string units, number),
`Sum` on two simple operands, and the registry getters of `Model/Reg.lean`.
-/
import Barril.Model.Reg
import Barril.Model.Conv

namespace Barril.Reg
open Barril

/-- a simple `Quantity` object: what it captured when it was created -/
structure QObj where
  cat : Sym
  unit : Sym
  qtype : Sym
  info : CatRow
  toBase : Mob
  ok : Bool
deriving DecidableEq, Repr

/-- a derived `Quantity` object: the composing map `category ↦ [unit, exponent]` in its order, and
the `quantity type ↦ summed exponent` list computed (from the registry) when it was created -/
structure DObj where
  entries : List (Sym × Sym × Int)
  qtypes : List (Sym × Int)
deriving DecidableEq, Repr

structure CState where
  reg : Registry
  /-- `_category_unit_valid` -/
  memo : List ((Sym × Sym) × Bool)
  /-- `quantities_cache`: keys `(category | None, unit, caption)`; the caption is `None` (`false`)
  for quantities asked for by name and `""` (`true`) for the copies arithmetic makes
  (`CreateCopyInstance` passes the quantity's own caption, which is stored as `""`) -/
  cache : List ((Option Sym × Sym × Bool) × QObj)
  /-- the entries of `quantities_cache` whose key is the tuple of `(category, (unit, exponent))`
  pairs of a derived quantity, in the order of the request -/
  dcache : List (List (Sym × Sym × Int) × DObj) := []
deriving DecidableEq, Repr

def CState.fresh (r : Registry) : CState := ⟨r, [], [], []⟩

def memoGet : List ((Sym × Sym) × Bool) → Sym × Sym → Option Bool
  | [], _ => none
  | (k, v) :: m, key => if k = key then some v else memoGet m key

def cacheGet : List ((Option Sym × Sym × Bool) × QObj) → Option Sym × Sym × Bool → Option QObj
  | [], _ => none
  | (k, v) :: m, key => if k = key then some v else cacheGet m key

variable (lg : List (Sym × Sym))

/-- `CheckCategoryUnit(category, unit)`: `true` = accepted, `false` = `InvalidUnitError`; a miss
computes the verdict and memoises it, positive or negative -/
def checkCategoryUnit (s : CState) (c u : Sym) : CState × Bool :=
  match memoGet s.memo (c, u) with
  | some v => (s, v)
  | none => (⟨s.reg, ((c, u), categoryUnitValid lg s.reg c u) :: s.memo, s.cache, s.dcache⟩,
             categoryUnitValid lg s.reg c u)

/-- the tail of `Quantity.__init__` once the unit is accepted -/
def finishQuantity (r : Registry) (ci : CatRow) (c u : Sym) : Except ErrKind QObj :=
  match getInfo lg r ci.qtype u true true with
  | .ok w => .ok ⟨c, u, ci.qtype, ci, w.toBase, w.ok⟩
  | .error e => .error e

/-- simple branch of `Quantity.__init__(category, unit)` -/
def newQuantity (s : CState) (c u : Sym) : CState × Except ErrKind QObj :=
  match catGet s.reg.cats c with
  | none => (s, .error .units)
  | some ci =>
    if (checkCategoryUnit lg s c u).2 then
      ((checkCategoryUnit lg s c u).1, finishQuantity lg s.reg ci c u)
    else if isLegacy lg u then
      if (checkCategoryUnit lg (checkCategoryUnit lg s c u).1 c (fixLegacy lg u)).2 then
        ((checkCategoryUnit lg (checkCategoryUnit lg s c u).1 c (fixLegacy lg u)).1,
          finishQuantity lg s.reg ci c (fixLegacy lg u))
      else ((checkCategoryUnit lg (checkCategoryUnit lg s c u).1 c (fixLegacy lg u)).1, .error .units)
    else ((checkCategoryUnit lg s c u).1, .error .units)

/-- `ObtainQuantity(unit, category, caption)`, unit and category strings; `cap` = the caption is
`""` rather than `None` -/
def obtain (s : CState) (cap : Bool) (c u : Sym) : CState × Except ErrKind QObj :=
  match cacheGet s.cache (some c, u, cap) with
  | some q => (s, .ok q)
  | none =>
    match (newQuantity lg s c u).2 with
    | .ok q => (⟨s.reg, (newQuantity lg s c u).1.memo, ((some c, u, cap), q) :: (newQuantity lg s c u).1.cache, s.dcache⟩, .ok q)
    | .error e => ((newQuantity lg s c u).1, .error e)

/-- the category and unit `ObtainQuantity(unit, None)` resolves to (`0` = no category: the
constructor then raises `TypeError` on `None`) -/
def resolveDefault (r : Registry) (u : Sym) : Except ErrKind (Sym × Sym) :=
  match getDefaultCategory lg r u with
  | .error e => .error e
  | .ok c =>
    if c != 0 then .ok (c, u)
    else if isLegacy lg u then
      match getDefaultCategory lg r (fixLegacy lg u) with
      | .error e => .error e
      | .ok c' => .ok (c', fixLegacy lg u)
    else .error .units

/-- `ObtainQuantity(unit, None)`: the result is stored under the resolved key and under the
`None`-category key -/
def obtainU (s : CState) (u : Sym) : CState × Except ErrKind QObj :=
  match cacheGet s.cache (none, u, false) with
  | some q => (s, .ok q)
  | none =>
    match resolveDefault lg s.reg u with
    | .error e => (s, .error e)
    | .ok (c, u') =>
      match cacheGet s.cache (if c = 0 then none else some c, u', false) with
      | some q => (s, .ok q)
      | none =>
        if c = 0 then (s, .error .type) else
        match (newQuantity lg s c u').2 with
        | .ok q => (⟨s.reg, (newQuantity lg s c u').1.memo,
                     ((none, u, false), q) :: ((some c, u', false), q) :: (newQuantity lg s c u').1.cache, s.dcache⟩, .ok q)
        | .error e => ((newQuantity lg s c u').1, .error e)

/-- `Quantity.ConvertScalarValue(value, to_unit)` of a simple quantity -/
def convertScalarValue (r : Registry) (q : QObj) (x : Rat) (toU : Sym) : Except ErrKind Rat :=
  if q.unit = toU then .ok x else
  match getInfo lg r q.qtype toU true true with
  | .error e => .error e
  | .ok other =>
    if !(q.ok && other.ok) then .error .other else
    match q.toBase.apply x with
    | .error e => .error e
    | .ok b => other.fromBase.apply b

/-- `Quantity.CheckValue(value)` as a verdict (`false` = `QuantityValidationError`), with the
limits of the `CategoryInfo` the quantity captured -/
def checkValue (r : Registry) (q : QObj) (x : Rat) : Except ErrKind Bool :=
  if q.info.minV.isNone && q.info.maxV.isNone then .ok true else
  match convertScalarValue lg r q x q.info.defaultUnit with
  | .error e => .error e
  | .ok y => .ok (minOk q.info.minV q.info.minExcl y && maxOk q.info.maxV q.info.maxExcl y)

/-- "category or quantity type" of `Convert` -/
def typeOf (r : Registry) (cq : Sym) : Except ErrKind Sym :=
  match catGet r.cats cq with
  | some ci => .ok ci.qtype
  | none => if (tlGet r.types cq).isSome then .ok cq else .error .units

/-- `UnitDatabase.Convert(category_or_quantity_type, from_unit, to_unit, value)` -/
def convert (r : Registry) (cq u v : Sym) (x : Rat) : Except ErrKind Rat :=
  if u = v then .ok x else
  match typeOf r cq with
  | .error e => .error e
  | .ok qt =>
    match getInfo lg r qt u true true with
    | .error e => .error e
    | .ok this =>
      match getInfo lg r qt v true true with
      | .error e => .error e
      | .ok other => convRows this other x

/-- the two `CreateCopyInstance` calls of `_DoOperationWithSameQuantity`: each goes through
`ObtainQuantity` with the caption `""` -/
def copies (s : CState) (c1 v1 c2 v2 : Sym) : CState × Except ErrKind Unit :=
  match (obtain lg s true c1 v1).2 with
  | .error e => ((obtain lg s true c1 v1).1, .error e)
  | .ok _ =>
    ((obtain lg (obtain lg s true c1 v1).1 true c2 v2).1,
      match (obtain lg (obtain lg s true c1 v1).1 true c2 v2).2 with
      | .error e => .error e
      | .ok _ => .ok ())

/-- `Sum` on two simple quantities (`_DoOperationWithSameQuantity`): equal quantities are combined
directly; otherwise `_MatchQuantities` gives the second operand the first one's unit when both
categories have the same quantity type (converting the value), both quantities are re-created as
copies, and the unit sets are compared -/
def sumSimple (s : CState) (a b : QObj) (x y : Rat) : CState × Except ErrKind (Sym × Sym × Rat) :=
  if a.cat = b.cat ∧ a.unit = b.unit then (s, .ok (a.cat, a.unit, x + y))
  else
    match getCategoryInfo s.reg a.cat with
    | .error e => (s, .error e)
    | .ok ca =>
      match getCategoryInfo s.reg b.cat with
      | .error e => (s, .error e)
      | .ok cb =>
        if ca.qtype = cb.qtype then
          match convert lg s.reg ca.qtype b.unit a.unit y with
          | .error e => (s, .error e)
          | .ok y' =>
            ((copies lg s a.cat a.unit b.cat a.unit).1,
              match (copies lg s a.cat a.unit b.cat a.unit).2 with
              | .error e => .error e
              | .ok _ => .ok (a.cat, a.unit, x + y'))
        else
          ((copies lg s a.cat a.unit b.cat b.unit).1,
            match (copies lg s a.cat a.unit b.cat b.unit).2 with
            | .error e => .error e
            | .ok _ => if a.unit = b.unit then .ok (a.cat, a.unit, x + y) else .error .units)

def exMap {α β : Type} (f : α → β) : Except ErrKind α → Except ErrKind β
  | .ok a => .ok (f a)
  | .error e => .error e

/-! ### derived quantities: `ObtainQuantity(OrderedDict)`, `Quantity.CreateDerived`, products and quotients -/

def dcacheGet : List (List (Sym × Sym × Int) × DObj) → List (Sym × Sym × Int) → Option DObj
  | [], _ => none
  | (k, v) :: m, key => if k = key then some v else dcacheGet m key

/-- `rep_and_exp[quantity_type] = existing + exp` -/
def addQt : List (Sym × Int) → Sym → Int → List (Sym × Int)
  | [], qt, e => [(qt, e)]
  | (k, v) :: rest, qt, e => if k = qt then (k, v + e) :: rest else (k, v) :: addQt rest qt e

/-- the loop of the derived branch of `Quantity.__init__`: `GetCategoryQuantityType` of every
composing category (`InvalidQuantityTypeError` for an unknown one) -/
def typePairs (r : Registry) : List (Sym × Sym × Int) → List (Sym × Int) → Except ErrKind (List (Sym × Int))
  | [], acc => .ok acc
  | (c, _, e) :: rest, acc =>
    match getCategoryInfo r c with
    | .error err => .error err
    | .ok ci => typePairs r rest (addQt acc ci.qtype e)

/-- `Quantity(OrderedDict, None)` -/
def newDerived (r : Registry) (entries : List (Sym × Sym × Int)) : Except ErrKind DObj :=
  match typePairs r entries [] with
  | .ok qts => .ok ⟨entries, qts⟩
  | .error e => .error e

/-- what a request for a quantity by its composing map returns: a simple or a derived quantity,
described by its composing map and its quantity types -/
def descOfSimple (q : QObj) : DObj := ⟨[(q.cat, q.unit, 1)], [(q.qtype, 1)]⟩

/-- the validation loop of `Quantity._CreateDerived`, which `ObtainQuantity` also runs on a miss of
the derived key (fix 42c424f): `CheckQuantityTypeUnit(GetCategoryQuantityType(category), unit)` for
every entry (no legacy fixing, the memo table is not touched) -/
def validateEntries (r : Registry) : List (Sym × Sym × Int) → Except ErrKind Unit
  | [] => .ok ()
  | (c, u, _) :: rest =>
    match getCategoryInfo r c with
    | .error e => .error e
    | .ok ci => if quantityTypeUnitOk lg r ci.qtype u then validateEntries r rest else .error .units

/-- what a miss of a derived key does: validate, then build the `Quantity` -/
def newDerivedChecked (r : Registry) (entries : List (Sym × Sym × Int)) : Except ErrKind DObj :=
  match validateEntries lg r entries with
  | .error e => .error e
  | .ok _ => newDerived r entries

/-- "Although passed as composing, it's a simple case": a single entry with exponent 1 -/
def simpleCase : List (Sym × Sym × Int) → Option (Sym × Sym)
  | [(c, u, e)] => if e = 1 then some (c, u) else none
  | _ => none

/-- `ObtainQuantity(OrderedDict)`: the simple case goes the way of `ObtainQuantity(unit, category)`;
otherwise the cache key is the tuple of the entries IN THE ORDER GIVEN; a hit is returned unchecked,
a miss validates every entry before the quantity is built and stored (`cap`: the caption is `""`,
which only shows in the key of the simple case: an empty caption is not appended to a derived key) -/
def obtainDict (s : CState) (cap : Bool) (entries : List (Sym × Sym × Int)) : CState × Except ErrKind DObj :=
  match simpleCase entries with
  | some (c, u) => ((obtain lg s cap c u).1, exMap descOfSimple (obtain lg s cap c u).2)
  | none =>
    match dcacheGet s.dcache entries with
    | some d => (s, .ok d)
    | none =>
      match newDerivedChecked lg s.reg entries with
      | .ok d => (⟨s.reg, s.memo, s.cache, (entries, d) :: s.dcache⟩, .ok d)
      | .error e => (s, .error e)

/-- `Quantity.CreateDerived(category_to_unit_and_exps)` -/
def createDerived (s : CState) (entries : List (Sym × Sym × Int)) : CState × Except ErrKind DObj :=
  match validateEntries lg s.reg entries with
  | .error e => (s, .error e)
  | .ok _ => obtainDict lg s false entries

inductive ProdOp
  | mul
  | div
deriving DecidableEq, Repr

/-- "add the categories to the resulting one": the composing map of the first operand, extended or
updated with the (matched) entry of the second -/
def mergeEntries (op : ProdOp) (a b : QObj) (unit2 : Sym) : Except ErrKind (List (Sym × Sym × Int)) :=
  if b.cat = a.cat then
    if a.unit = unit2 then .ok [(a.cat, a.unit, match op with | .mul => 2 | .div => 0)]
    else .error .runtime
  else .ok [(a.cat, a.unit, 1), (b.cat, unit2, match op with | .mul => 1 | .div => -1)]

/-- `only_units_expoents[unit]` -/
def unitTotal : List (Sym × Sym × Int) → Sym → Int
  | [], _ => 0
  | (_, v, e) :: rest, u => (if v = u then e else 0) + unitTotal rest u

/-- "remove the ones that have exponent = 0" (own exponent, or total exponent of the unit) -/
def prune (es : List (Sym × Sym × Int)) : List (Sym × Sym × Int) :=
  es.filter (fun e => e.2.2 != 0 && unitTotal es e.2.1 != 0)

/-- `_DoOperationResultingInNewQuantity` on two simple quantities (`Multiply`, `Divide`):
`_MatchQuantities` gives the second operand the first one's unit when both categories have the same
quantity type, the composing maps are merged, and the result is created through `CreateDerived`;
the numbers are combined last (`ZeroDivisionError` after the quantity was created) -/
def prodSimple (s : CState) (op : ProdOp) (a b : QObj) (x y : Rat) : CState × Except ErrKind (DObj × Rat) :=
  match getCategoryInfo s.reg a.cat with
  | .error e => (s, .error e)
  | .ok ca =>
    match getCategoryInfo s.reg b.cat with
    | .error e => (s, .error e)
    | .ok cb =>
      match (if ca.qtype = cb.qtype then convert lg s.reg ca.qtype b.unit a.unit y else .ok y) with
      | .error e => (s, .error e)
      | .ok y' =>
        match mergeEntries op a b (if ca.qtype = cb.qtype then a.unit else b.unit) with
        | .error e => (s, .error e)
        | .ok es =>
          ((createDerived lg s (prune es)).1,
            match (createDerived lg s (prune es)).2 with
            | .error e => .error e
            | .ok d =>
              match op with
              | .mul => .ok (d, x * y')
              | .div => if y' = 0 then .error .other else .ok (d, x / y'))

/-! ### Sum / Subtract on arbitrary (derived) operands -/

inductive SumOp
  | add
  | sub
deriving DecidableEq, Repr

def SumOp.apply : SumOp → Rat → Rat → Rat
  | .add, a, b => a + b
  | .sub, a, b => a - b

def lookupUsed : List (Sym × Sym) → Sym → Option Sym
  | [], _ => none
  | (k, v) :: rest, qt => if k = qt then some v else lookupUsed rest qt

def ratPowNat (r : Rat) : Nat → Rat
  | 0 => 1
  | n + 1 => r * ratPowNat r n

/-- `ratio ** exp` for an integer exponent -/
def ratPow (r : Rat) (e : Int) : Rat := if 0 ≤ e then ratPowNat r e.toNat else ratPowNat (1 / r) (-e).toNat

/-- the increment a unit has in the base unit: `tobase(1.0) - tobase(0.0)` -/
def baseIncrement (w : UnitRow) : Except ErrKind Rat :=
  if !w.ok then .error .other else
  match w.toBase.apply 1 with
  | .error e => .error e
  | .ok a =>
    match w.toBase.apply 0 with
    | .error e => .error e
    | .ok b => .ok (a - b)

/-- the unit ratio of `_ConvertMatchingExp` (fix e246554): without an offset (`zero == 0.0`) it is
`Convert(1.0)`; with an offset it is the quotient of the increments the two units have in the base
unit, read from `GetInfo(quantity_type, unit).tobase` (a zero denominator is `ZeroDivisionError`) -/
def unitRatio (r : Registry) (qt fromU toU : Sym) (zero : Rat) : Except ErrKind Rat :=
  if zero = 0 then convert lg r qt fromU toU 1
  else
    match getInfo lg r qt fromU false true with
    | .error e => .error e
    | .ok fw =>
      match getInfo lg r qt toU false true with
      | .error e => .error e
      | .ok tw =>
        match baseIncrement fw with
        | .error e => .error e
        | .ok fi =>
          match baseIncrement tw with
          | .error e => .error e
          | .ok ti => if ti = 0 then .error .other else .ok (fi / ti)

/-- `_ConvertMatchingExp(quantity_type, from_unit, to_unit, exp, value, in_derived)`: the plain
conversion for equal units and for exponent 1 outside a derived quantity; inside a derived quantity
(or with another exponent) the value is scaled by `ratio ** exp` — a unit with an offset is scaled,
never shifted; with exponent 1 and no offset the plain conversion is used -/
def convertMatchingExp (r : Registry) (qt fromU toU : Sym) (e : Int) (v : Rat) (inDerived : Bool) :
    Except ErrKind Rat :=
  if fromU = toU ∨ (e = 1 ∧ inDerived = false) then convert lg r qt fromU toU v
  else
    match convert lg r qt fromU toU 0 with
    | .error err => .error err
    | .ok zero =>
      if e = 1 ∧ zero = 0 then convert lg r qt fromU toU v
      else
        match unitRatio lg r qt fromU toU zero with
        | .error err => .error err
        | .ok ratio => if ratio = 0 ∧ e < 0 then .error .other else .ok (v * ratPow ratio e)

/-- one operand's pass of `_MatchQuantities`: the first unit seen for a quantity type is the
reference one; a later entry of the same quantity type takes it and the value is converted.
Returns the reference units, the converted value and the rewritten composing map.
`inDerived` = the operand's map has more than one entry (`len(c) > 1`). -/
def matchList (r : Registry) (inDerived : Bool) : List (Sym × Sym) → Rat → List (Sym × Sym × Int) →
    Except ErrKind (List (Sym × Sym) × Rat × List (Sym × Sym × Int))
  | used, v, [] => .ok (used, v, [])
  | used, v, (c, u, e) :: rest =>
    match getCategoryInfo r c with
    | .error err => .error err
    | .ok ci =>
      match lookupUsed used ci.qtype with
      | none =>
        match matchList r inDerived (used ++ [(ci.qtype, u)]) v rest with
        | .error err => .error err
        | .ok (used', v', es) => .ok (used', v', (c, u, e) :: es)
      | some uu =>
        match convertMatchingExp lg r ci.qtype u uu e v inDerived with
        | .error err => .error err
        | .ok v1 =>
          match matchList r inDerived used v1 rest with
          | .error err => .error err
          | .ok (used', v', es) => .ok (used', v', (c, uu, e) :: es)

/-- `GetComposingUnitsJoiningExponents` -/
def joinUnits : List (Sym × Sym × Int) → List (Sym × Int)
  | [] => []
  | (_, u, e) :: rest => addQt (joinUnits rest) u e

/-- equality of the two `set(...)`s of (unit, exponent) pairs -/
def sameSet (a b : List (Sym × Int)) : Bool := a.all (fun p => b.contains p) && b.all (fun p => a.contains p)

/-- `_DoOperationWithSameQuantity` (Sum, Subtract) on two quantities given by their composing maps:
equal quantities are combined directly; otherwise both maps are matched (on copies), both
quantities are re-created from the matched maps (`CreateCopyInstance`, caption `""`, not validated)
and the sets of joined units are compared -/
def sumDerived (s : CState) (op : SumOp) (d1 d2 : DObj) (x y : Rat) : CState × Except ErrKind (DObj × Rat) :=
  if d1.entries = d2.entries then (s, .ok (d1, op.apply x y))
  else
    match matchList lg s.reg (decide (1 < d1.entries.length)) [] x d1.entries with
    | .error e => (s, .error e)
    | .ok (used, x', es1) =>
      match matchList lg s.reg (decide (1 < d2.entries.length)) used y d2.entries with
      | .error e => (s, .error e)
      | .ok (_, y', es2) =>
        match (obtainDict lg s true es1).2 with
        | .error e => ((obtainDict lg s true es1).1, .error e)
        | .ok c1 =>
          ((obtainDict lg (obtainDict lg s true es1).1 true es2).1,
            match (obtainDict lg (obtainDict lg s true es1).1 true es2).2 with
            | .error e => .error e
            | .ok c2 =>
              if sameSet (joinUnits c1.entries) (joinUnits c2.entries) then .ok (c1, op.apply x' y')
              else if (joinUnits c1.entries).isEmpty then .ok (c2, op.apply x' y')
              else if (joinUnits c2.entries).isEmpty then .ok (c1, op.apply x' y')
              else .error .units)

/-- read-only operations: closed expressions over plain data -/
inductive Query
  | check (c u : Sym)                       -- db.CheckCategoryUnit(c, u)
  | create (c u : Sym)                      -- Scalar(1.0, u, c)
  | createU (u : Sym)                       -- Scalar(1.0, u)
  | createC (c : Sym)                       -- Scalar(c)
  | convert (cq u v : Sym) (x : Rat)        -- db.Convert(cq, u, v, x)
  | objValidUnits (c u : Sym)               -- Scalar(1.0, u, c).GetValidUnits()
  | isValid (c u : Sym) (x : Rat)           -- Scalar(x, u, c).IsValid()
  | add (c1 u1 c2 u2 : Sym) (x y : Rat)     -- Scalar(x, u1, c1) + Scalar(y, u2, c2)
  | validUnits (c : Sym)                    -- db.GetValidUnits(c)
  | baseUnit (qt : Sym)
  | units (qt : Sym)
  | defaultCategory (u : Sym)
  | quantityType (u : Sym)
  | catInfo (c : Sym)
  | allUnits                                -- db.GetUnits()            (the "all of them" forms read every
  | allUnitNames                            -- db.GetUnitNames(None)     quantity type's list: GetInfos(None))
  | unitNames (qt : Sym)                    -- db.GetUnitNames(qt)
  | quantityTypes                           -- db.GetQuantityTypes()     (compared as a set: the code sorts it)
  | checkQuantityType (qt : Sym)            -- db.CheckQuantityType(qt)
  | categories                              -- list(db.IterCategories())
  | isValidCategory (c : Sym)               -- db.IsValidCategory(c)
  | unitName (qt u : Sym)                   -- db.GetUnitName(qt, u)
  | checkQtUnit (qt u : Sym)                -- db.CheckQuantityTypeUnit(qt, u)
  | info (qt u : Sym) (fixUnknown : Bool)   -- db.GetInfo(qt, u, fix_unknown=…): (quantity type, unit) of the row
  | getValue (c u v : Sym) (x : Rat)        -- Scalar(x, u, c).GetValue(v)
  | prod (op : ProdOp) (c1 u1 c2 u2 : Sym) (x y : Rat)   -- Scalar(x, u1, c1) * or / Scalar(y, u2, c2)
  | derived (entries : List (Sym × Sym × Int))          -- ObtainQuantity(OrderedDict(entries))
  | createDerived (entries : List (Sym × Sym × Int))    -- Quantity.CreateDerived(OrderedDict(entries))
  /-- `Scalar(ObtainQuantity(OrderedDict(e1)), x) + or - Scalar(ObtainQuantity(OrderedDict(e2)), y)` -/
  | sumd (op : SumOp) (e1 e2 : List (Sym × Sym × Int)) (x y : Rat)
  | defaultValue (c : Sym)                  -- db.GetDefaultValue(c)
  | defaultUnit (c : Sym)                   -- db.GetDefaultUnit(c)
  | findUnitCase (c u : Sym)                -- db.FindUnitCase(c, u)
  | findSimilar (u : Sym)                   -- db.FindSimilarUnitMatches(u)   (compared as a set: the code sorts it)
  | checkValueFor (c u : Sym) (x : Rat)     -- db.CheckValueForCategory(c, x, u)
deriving DecidableEq, Repr

inductive Ans
  | unit
  | quantity (cat unit : Sym)
  | qvalue (cat unit : Sym) (x : Rat)
  | number (x : Rat)
  | syms (l : List Sym)
  | sym (s : Sym)
  | bool (b : Bool)
  | cat (ci : CatRow)
  | desc (d : DObj)
  | descValue (d : DObj) (x : Rat)
deriving DecidableEq, Repr

/-- the answer to a query in a session state, and the state it leaves (memo tables may grow) -/
def answer (s : CState) : Query → CState × Except ErrKind Ans
  | .check c u =>
    ((checkCategoryUnit lg s c u).1, if (checkCategoryUnit lg s c u).2 then .ok .unit else .error .units)
  | .create c u => ((obtain lg s false c u).1, exMap (fun q => .quantity q.cat q.unit) (obtain lg s false c u).2)
  | .createU u => ((obtainU lg s u).1, exMap (fun q => .quantity q.cat q.unit) (obtainU lg s u).2)
  | .createC c =>
    match getCategoryInfo s.reg c with
    | .error e => (s, .error e)
    | .ok ci =>
      ((obtain lg s false c ci.defaultUnit).1,
        exMap (fun q => .qvalue q.cat q.unit ci.defaultValue) (obtain lg s false c ci.defaultUnit).2)
  | .convert cq u v x => (s, exMap .number (convert lg s.reg cq u v x))
  | .objValidUnits c u =>
    ((obtain lg s false c u).1,
      match (obtain lg s false c u).2 with
      | .error e => .error e
      | .ok q =>
        match getValidUnits s.reg q.cat with
        | .error e => .error e
        | .ok vu => .ok (.syms (if q.unit ∈ vu then vu else vu ++ [q.unit])))
  | .isValid c u x =>
    ((obtain lg s false c u).1,
      match (obtain lg s false c u).2 with
      | .error e => .error e
      | .ok q => exMap .bool (checkValue lg s.reg q x))
  | .add c1 u1 c2 u2 x y =>
    match (obtain lg s false c1 u1).2 with
    | .error e => ((obtain lg s false c1 u1).1, .error e)
    | .ok a =>
      match (obtain lg (obtain lg s false c1 u1).1 false c2 u2).2 with
      | .error e => ((obtain lg (obtain lg s false c1 u1).1 false c2 u2).1, .error e)
      | .ok b =>
        ((sumSimple lg (obtain lg (obtain lg s false c1 u1).1 false c2 u2).1 a b x y).1,
          exMap (fun t => .qvalue t.1 t.2.1 t.2.2)
            (sumSimple lg (obtain lg (obtain lg s false c1 u1).1 false c2 u2).1 a b x y).2)
  | .validUnits c => (s, exMap .syms (getValidUnits s.reg c))
  | .baseUnit qt => (s, exMap .sym (getBaseUnit s.reg qt))
  | .units qt => (s, exMap .syms (getUnits s.reg qt))
  | .defaultCategory u => (s, exMap .sym (getDefaultCategory lg s.reg u))
  | .quantityType u => (s, .ok (.sym (getQuantityType s.reg u)))
  | .catInfo c => (s, exMap .cat (getCategoryInfo s.reg c))
  | .allUnits => (s, .ok (.syms (getAllUnits s.reg)))
  | .allUnitNames => (s, .ok (.syms (s.reg.allRows.map (·.name))))
  | .unitNames qt =>
    (s, match tlGet s.reg.types qt with
        | some l => .ok (.syms (l.map (·.name)))
        | none => .error .units)
  | .quantityTypes => (s, .ok (.syms (s.reg.types.map (·.1))))
  | .checkQuantityType qt => (s, if (tlGet s.reg.types qt).isSome then .ok .unit else .error .units)
  | .categories => (s, .ok (.syms (s.reg.cats.map (·.name))))
  | .isValidCategory c => (s, .ok (.bool (catGet s.reg.cats c).isSome))
  | .unitName qt u => (s, exMap (fun w => .sym w.name) (getInfo lg s.reg qt u false true))
  | .checkQtUnit qt u => (s, if quantityTypeUnitOk lg s.reg qt u then .ok .unit else .error .units)
  | .info qt u fu => (s, exMap (fun w => .quantity w.qtype w.sym) (getInfo lg s.reg qt u fu true))
  | .getValue c u v x =>
    ((obtain lg s false c u).1,
      match (obtain lg s false c u).2 with
      | .error e => .error e
      | .ok q => exMap .number (convertScalarValue lg s.reg q x v))
  | .prod op c1 u1 c2 u2 x y =>
    match (obtain lg s false c1 u1).2 with
    | .error e => ((obtain lg s false c1 u1).1, .error e)
    | .ok a =>
      match (obtain lg (obtain lg s false c1 u1).1 false c2 u2).2 with
      | .error e => ((obtain lg (obtain lg s false c1 u1).1 false c2 u2).1, .error e)
      | .ok b =>
        ((prodSimple lg (obtain lg (obtain lg s false c1 u1).1 false c2 u2).1 op a b x y).1,
          exMap (fun t => .descValue t.1 t.2)
            (prodSimple lg (obtain lg (obtain lg s false c1 u1).1 false c2 u2).1 op a b x y).2)
  | .derived entries => ((obtainDict lg s false entries).1, exMap .desc (obtainDict lg s false entries).2)
  | .createDerived entries => ((createDerived lg s entries).1, exMap .desc (createDerived lg s entries).2)
  | .sumd op e1 e2 x y =>
    match (obtainDict lg s false e1).2 with
    | .error e => ((obtainDict lg s false e1).1, .error e)
    | .ok d1 =>
      match (obtainDict lg (obtainDict lg s false e1).1 false e2).2 with
      | .error e => ((obtainDict lg (obtainDict lg s false e1).1 false e2).1, .error e)
      | .ok d2 =>
        ((sumDerived lg (obtainDict lg (obtainDict lg s false e1).1 false e2).1 op d1 d2 x y).1,
          exMap (fun t => .descValue t.1 t.2)
            (sumDerived lg (obtainDict lg (obtainDict lg s false e1).1 false e2).1 op d1 d2 x y).2)

  | .defaultValue c => (s, exMap .number (getDefaultValue s.reg c))
  | .defaultUnit c => (s, exMap .sym (getDefaultUnit s.reg c))
  | .findUnitCase c u => (s, exMap .sym (findUnitCase s.reg c u))
  | .findSimilar u => (s, .ok (.syms (findSimilar s.reg u)))
  | .checkValueFor c u x =>
    ((obtain lg s false c u).1,
      match (obtain lg s false c u).2 with
      | .error e => .error e
      | .ok q =>
        match checkValue lg s.reg q x with
        | .error e => .error e
        | .ok true => .ok .unit
        | .ok false => .error .value)

/-- the cache-free meaning of a query: its answer on a database that has just been built from the
same registry (empty memo tables) -/
def spec (r : Registry) (q : Query) : Except ErrKind Ans := (answer lg (CState.fresh r) q).2

inductive COp
  | reg (op : RegOp)
  | query (q : Query)
deriving DecidableEq, Repr

inductive COut
  | reg (o : Out)
  | ans (a : Ans)
deriving DecidableEq, Repr

/-- one step of a session: a registration (memo tables emptied when it is accepted, untouched when
it is rejected) or a query -/
def cstep (s : CState) : COp → CState × Except ErrKind COut
  | .reg op =>
    match (step lg s.reg op).2 with
    | .ok o => (CState.fresh (step lg s.reg op).1, .ok (.reg o))
    | .error e => (⟨(step lg s.reg op).1, s.memo, s.cache, s.dcache⟩, .error e)
  | .query q => ((answer lg s q).1, exMap .ans (answer lg s q).2)

def crun (s : CState) : List COp → CState
  | [] => s
  | op :: ops => crun (cstep lg s op).1 ops

def coutputs (s : CState) : List COp → List (Except ErrKind COut)
  | [] => []
  | op :: ops => (cstep lg s op).2 :: coutputs (cstep lg s op).1 ops

/-- the registrations of a history, in order -/
def registrations : List COp → List RegOp
  | [] => []
  | .reg op :: ops => op :: registrations ops
  | .query _ :: ops => registrations ops

/-! ### value-bearing arithmetic the session model does not interpret

Products, quotients, sums and differences of DERIVED operands (`2 m * (3 cm * 3 cm)`, nested to any
depth) are computed by `_DoOperationResultingInNewQuantity` / `_DoOperationWithSameQuantity` /
`_MatchQuantities` / `_ConvertMatchingExp` on composing maps.  The session model predicts such values
itself only for the operand shapes of `Query.prod` / `Query.sumd`; for arbitrary expression trees it
takes the arithmetic as an UNINTERPRETED function `ar` of (registry, expression): what a database
built from that registry answers.  The memo tables are never an argument of `ar`, so every theorem
about sessions holds for every such function; the correspondence check evaluates `ar` on the real code
(a database freshly built from the same registrations) and compares the warm answer with it. -/

inductive VBin
  | mul
  | div
  | add
  | sub
deriving DecidableEq, Repr

/-- an arithmetic expression over Scalars given as plain data -/
inductive VExpr
  | scalar (c u : Sym) (x : Rat)            -- Scalar(x, u, c)
  | scalarU (u : Sym) (x : Rat)             -- Scalar(x, u)
  | bin (op : VBin) (a b : VExpr)
deriving DecidableEq, Repr

/-- a step of a session that may also ask an arithmetic question -/
inductive XOp
  | base (op : COp)
  | arith (e : VExpr)
deriving DecidableEq, Repr

inductive XOut (α : Type)
  | base (o : Except ErrKind COut)
  | val (a : α)

/-- one step; `ar r e` = the answer of a database built from the registry `r` to the expression `e`.
The arithmetic leaves the registry alone (its effect on the memo tables is not modelled: by
`refinement_partial` no modelled answer depends on them) -/
def xstep {α : Type} (ar : Registry → VExpr → α) (s : CState) : XOp → CState × XOut α
  | .base op => ((cstep lg s op).1, .base (cstep lg s op).2)
  | .arith e => (s, .val (ar s.reg e))

def xrun {α : Type} (ar : Registry → VExpr → α) (s : CState) : List XOp → CState
  | [] => s
  | op :: ops => xrun ar (xstep lg ar s op).1 ops

def xoutputs {α : Type} (ar : Registry → VExpr → α) (s : CState) : List XOp → List (XOut α)
  | [] => []
  | op :: ops => (xstep lg ar s op).2 :: xoutputs ar (xstep lg ar s op).1 ops

/-! ### WHICH exception a failing query raises

The error enum `ErrKind` is coarse: every `UnitsError` subclass (`InvalidUnitError`,
`InvalidQuantityTypeError`, `InvalidOperationError`, …) is `units`.  Which exception class a failing query
raises is part of its answer.  The session model takes it as an UNINTERPRETED function `ed` of
(registry, query): "the class a database built from that registry raises".  The memo tables are never
an argument of `ed`, so every theorem about sessions holds for every such function; the correspondence
check evaluates `ed` on the real code (a database freshly built from the same registrations) and
compares the class the warm database raised with it. -/

/-- the detail reported with a step: present exactly when the step is a query whose answer is a failure -/
def detailOf {δ : Type} (ed : Registry → Query → δ) (s : CState) : XOp → Option δ
  | .base (.query q) =>
    match (answer lg s q).2 with
    | .error _ => some (ed s.reg q)
    | .ok _ => none
  | _ => none

/-- one step of a session, reporting the outcome and the failure detail -/
def ystep {α δ : Type} (ar : Registry → VExpr → α) (ed : Registry → Query → δ) (s : CState) (op : XOp) :
    CState × (XOut α × Option δ) :=
  ((xstep lg ar s op).1, ((xstep lg ar s op).2, detailOf lg ed s op))

def youtputs {α δ : Type} (ar : Registry → VExpr → α) (ed : Registry → Query → δ) (s : CState) :
    List XOp → List (XOut α × Option δ)
  | [] => []
  | op :: ops => (ystep lg ar ed s op).2 :: youtputs ar ed (ystep lg ar ed s op).1 ops

/-! ### several private databases alive at the same time

A family of sessions indexed by numbers; every step is addressed to one of them.  Stated for any
step function, instantiated with `cstep` / `xstep`. -/

section Family
variable {σ ι ο : Type} (f : σ → ι → σ × ο)

/-- a history on one database -/
def frun (s : σ) : List ι → σ
  | [] => s
  | op :: ops => frun (f s op).1 ops

def fouts (s : σ) : List ι → List ο
  | [] => []
  | op :: ops => (f s op).2 :: fouts (f s op).1 ops

/-- a step addressed to database `op.1`: only that member of the family moves -/
def stepN (s : Nat → σ) (op : Nat × ι) : (Nat → σ) × ο :=
  (fun j => if j = op.1 then (f (s op.1) op.2).1 else s j, (f (s op.1) op.2).2)

def runN (s : Nat → σ) : List (Nat × ι) → (Nat → σ)
  | [] => s
  | op :: ops => runN (stepN f s op).1 ops

/-- the outcomes of an interleaved history, each tagged with the database it was addressed to -/
def outputsN (s : Nat → σ) : List (Nat × ι) → List (Nat × ο)
  | [] => []
  | op :: ops => (op.1, (stepN f s op).2) :: outputsN (stepN f s op).1 ops

end Family

/-- the steps (or outcomes) addressed to database `i`, in order -/
def partOf {α : Type} (i : Nat) : List (Nat × α) → List α
  | [] => []
  | (j, a) :: rest => if j = i then a :: partOf i rest else partOf i rest

end Barril.Reg
