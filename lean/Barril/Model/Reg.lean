/-
Engine `Reg` (C14, C15): the unit registry of `UnitDatabase` as a state machine.

Modelled after `src/barril/units/unit_database.py`, function by function:
`UnitInfo.__init__` (`MakeLambda`, from-base formula first), `AddUnit` (argument checks, symbol index
check, index write, `setdefault`, second duplicate check AFTER the index write, append),
`AddUnitBase` (AddUnit with the identity, then last-to-front), `AddCategory` (every argument:
override, from_category, valid_units with legacy fixing, default_unit, default_value derivation,
limits, exclusivity flags, caption title-casing), and the getters `GetCategoryInfo`, `GetValidUnits`
(with its recursion through the quantity type's name), `GetDefaultUnit`, `GetDefaultValue`,
`GetBaseUnit`, `GetDefaultCategory` (legacy fallback with its `KeyError`), `GetQuantityType`,
`GetUnits`, `GetQuantityTypes`, `GetInfo`, `CheckQuantityTypeUnit`.

The three dictionaries of the object are kept as they are: `quantity_types` (ordered, key ↦ list of
rows), `unit_to_unit_info` (the symbol index) and `categories_to_quantity_types`.  Core Lean only.
-/
import Barril.Model.Basic
import Barril.Model.Legacy

namespace Barril.Reg
open Barril

/-- an argument that should be a `str`: a string, `None`, or an object of another class -/
inductive SArg
  | str (s : Sym)
  | none
  | bad
deriving DecidableEq, Repr

/-- a conversion formula given as a string: one that `MakeLambda` accepts (its meaning as a Möbius
map), one without `x` (`assert "x" in s`), one that `eval` rejects (`SyntaxError`) -/
inductive Formula
  | mob (m : Mob)
  | noX
  | syntaxErr
deriving DecidableEq, Repr

/-- `UnitInfo.__init__.MakeLambda` -/
def mkLambda : Formula → Except ErrKind Mob
  | .mob m => .ok m
  | .noX => .error .assertion
  | .syntaxErr => .error .other

/-- `UnitInfo(quantity_type, name, unit, frombase, tobase, default_category)` with string formulas:
the from-base formula is compiled first -/
def mkInfo (fb tb : Formula) (dc : Sym) (name : Sym) (qt unit : Sym) : Except ErrKind UnitRow :=
  match mkLambda fb with
  | .error e => .error e
  | .ok f =>
    match mkLambda tb with
    | .error e => .error e
    | .ok t => .ok ⟨qt, name, unit, true, t, f, true, true, none, none, dc, 0⟩

/-- the `UnitInfo` built by `AddUnitBase`: the `identity` function flagged `__has_conversion__ =
False` on both sides, no default category -/
def baseInfo (name : Sym) (qt unit : Sym) : Except ErrKind UnitRow :=
  .ok ⟨qt, name, unit, true, Mob.ident, Mob.ident, false, false, none, none, 0, 0⟩

/-- a row registered through `AddUnitBase` -/
def isBaseRow (w : UnitRow) : Bool := !w.hasConvTo && !w.hasConvFrom

/-- identity to-base and from-base functions -/
def isIdent (w : UnitRow) : Bool := w.toBase == Mob.ident && w.fromBase == Mob.ident

structure Registry where
  /-- `quantity_types`: insertion-ordered dict, quantity type ↦ list of `UnitInfo` -/
  types : List (Sym × List UnitRow)
  /-- `unit_to_unit_info` -/
  index : List (Sym × UnitRow)
  /-- `categories_to_quantity_types` (insertion-ordered dict keyed by `CatRow.name`) -/
  cats : List CatRow
deriving DecidableEq, Repr

def Registry.empty : Registry := ⟨[], [], []⟩

/-! ### dictionary primitives -/

/-- `quantity_types[qt]` -/
def tlGet : List (Sym × List UnitRow) → Sym → Option (List UnitRow)
  | [], _ => none
  | (k, l) :: ts, qt => if k = qt then some l else tlGet ts qt

/-- `quantity_types.setdefault(qt, [])` -/
def tlSetDefault (ts : List (Sym × List UnitRow)) (qt : Sym) : List (Sym × List UnitRow) :=
  match tlGet ts qt with
  | some _ => ts
  | none => ts ++ [(qt, [])]

/-- in-place edit of the list stored under `qt` -/
def tlModify (f : List UnitRow → List UnitRow) : List (Sym × List UnitRow) → Sym → List (Sym × List UnitRow)
  | [], _ => []
  | (k, l) :: ts, qt => if k = qt then (k, f l) :: ts else (k, l) :: tlModify f ts qt

/-- `unit_to_unit_info.get(u)` -/
def ixGet : List (Sym × UnitRow) → Sym → Option UnitRow
  | [], _ => none
  | (k, w) :: ix, u => if k = u then some w else ixGet ix u

/-- `categories_to_quantity_types.get(c)` -/
def catGet : List CatRow → Sym → Option CatRow
  | [], _ => none
  | ci :: cs, c => if ci.name = c then some ci else catGet cs c

/-- `categories_to_quantity_types[info.category] = info` (an existing key keeps its position) -/
def catSet : List CatRow → CatRow → List CatRow
  | [], info => [info]
  | ci :: cs, info => if ci.name = info.name then info :: cs else ci :: catSet cs info

/-- `infos.insert(0, infos.pop())` -/
def moveLastToFront (l : List UnitRow) : List UnitRow :=
  match l.getLast? with
  | none => l
  | some b => b :: l.dropLast

/-- all rows, in the iteration order of `quantity_types` -/
def Registry.allRows (r : Registry) : List UnitRow := r.types.flatMap (·.2)

/-! ### AddUnit / AddUnitBase -/

/-- the body shared by `AddUnit` and `AddUnitBase`; `mk` is the `UnitInfo` construction.
NB the second duplicate check comes after the index write and the `setdefault`: if it ever fired,
the rejected call would leave both behind (modelled as the code is; `Props/C14.lean` proves it
unreachable from a well-formed registry). -/
def addInfo (r : Registry) (qt unit : SArg) (mk : Sym → Sym → Except ErrKind UnitRow) :
    Registry × Except ErrKind Unit :=
  match qt with
  | .none => (r, .error .assertion)
  | .bad => (r, .error .type)
  | .str q =>
    match unit with
    | .none => (r, .error .type)
    | .bad => (r, .error .type)
    | .str u =>
      match mk q u with
      | .error e => (r, .error e)
      | .ok info =>
        match ixGet r.index u with
        | some _ => (r, .error .runtime)
        | none =>
          let ts := tlSetDefault r.types q
          let ix := r.index ++ [(u, info)]
          if ((tlGet ts q).getD []).any (·.sym == u) then (⟨ts, ix, r.cats⟩, .error .runtime)
          else (⟨tlModify (· ++ [info]) ts q, ix, r.cats⟩, .ok ())

/-- `AddUnit(quantity_type, name, unit, frombase, tobase, default_category)` -/
def addUnit (r : Registry) (qt : SArg) (name : Sym) (unit : SArg) (fb tb : Formula) (dc : Sym) :
    Registry × Except ErrKind Unit :=
  addInfo r qt unit (mkInfo fb tb dc name)

/-- `AddUnitBase(quantity_type, name, unit)` -/
def addUnitBase (r : Registry) (qt : SArg) (name : Sym) (unit : SArg) :
    Registry × Except ErrKind Unit :=
  match addInfo r qt unit (baseInfo name) with
  | (r1, .error e) => (r1, .error e)
  | (r1, .ok ()) =>
    match qt with
    | .str q => (⟨tlModify moveLastToFront r1.types q, r1.index, r1.cats⟩, .ok ())
    | _ => (r1, .ok ())

/-! ### getters -/

/-- `GetCategoryInfo` (`InvalidQuantityTypeError` for an unknown category) -/
def getCategoryInfo (r : Registry) (c : Sym) : Except ErrKind CatRow :=
  match catGet r.cats c with
  | some ci => .ok ci
  | none => .error .units

/-- `GetUnits(quantity_type)` -/
def getUnits (r : Registry) (qt : Sym) : Except ErrKind (List Sym) :=
  match tlGet r.types qt with
  | some l => .ok (l.map (·.sym))
  | none => .error .units

/-- `GetUnits()` -/
def getAllUnits (r : Registry) : List Sym := r.allRows.map (·.sym)

/-- `GetBaseUnit(quantity_type)` -/
def getBaseUnit (r : Registry) (qt : Sym) : Except ErrKind Sym :=
  match tlGet r.types qt with
  | none => .error .units
  | some [] => .error .index
  | some (b :: _) => .ok b.sym

/-- `GetQuantityType(unit)`; `0` stands for `None` -/
def getQuantityType (r : Registry) (u : Sym) : Sym :=
  match ixGet r.index u with
  | some w => w.qtype
  | none => 0

/-- the tail of `GetDefaultCategory` once the `UnitInfo` is found; `0` stands for `None` -/
def defaultCategoryOf (r : Registry) (w : UnitRow) : Sym :=
  if w.defaultCat != 0 then w.defaultCat
  else if (catGet r.cats w.qtype).isSome then w.qtype else 0

/-- `GetDefaultCategory(unit)`: a legacy spelling whose current spelling is not registered raises
`KeyError` -/
def getDefaultCategory (lg : List (Sym × Sym)) (r : Registry) (u : Sym) : Except ErrKind Sym :=
  match ixGet r.index u with
  | some w => .ok (defaultCategoryOf r w)
  | none =>
    if !isLegacy lg u then .ok 0 else
    match ixGet r.index (fixLegacy lg u) with
    | some w => .ok (defaultCategoryOf r w)
    | none => .error .key

/-- `GetValidUnits(category)`; the recursion through "the category named like the quantity type"
is bounded by the number of categories: running out of fuel means the chain has a cycle, which is
Python's `RecursionError` (a `RuntimeError`) -/
def getValidUnitsFuel (r : Registry) : Nat → Sym → Except ErrKind (List Sym)
  | 0, _ => .error .runtime
  | fuel + 1, c =>
    if c = 0 then .ok [] else
    match catGet r.cats c with
    | none => .error .units
    | some ci =>
      match ci.validUnits with
      | some vu => .ok vu
      | none => if ci.qtype ≠ c then getValidUnitsFuel r fuel ci.qtype else getUnits r ci.qtype

def getValidUnits (r : Registry) (c : Sym) : Except ErrKind (List Sym) :=
  getValidUnitsFuel r (r.cats.length + 1) c

/-- `GetDefaultUnit(category)` -/
def getDefaultUnit (r : Registry) (c : Sym) : Except ErrKind Sym :=
  match getCategoryInfo r c with
  | .ok ci => .ok ci.defaultUnit
  | .error e => .error e

/-- `GetDefaultValue(category)` -/
def getDefaultValue (r : Registry) (c : Sym) : Except ErrKind Rat :=
  match getCategoryInfo r c with
  | .ok ci => .ok ci.defaultValue
  | .error e => .error e

def unknownQType : Sym := Sym.ofString "Unknown"
def unknownUnit : Sym := Sym.ofString "<unknown>"

/-- `TryToGetUnitInfoFromUnit` -/
def tryInfo (r : Registry) (qt u : Sym) : Option UnitRow :=
  match ixGet r.index u with
  | some w => if w.qtype = qt then some w else none
  | none => none

/-- "First check if the quantity_type is a registered category" -/
def resolveQt (r : Registry) (qt0 : Sym) : Sym :=
  match catGet r.cats qt0 with
  | some ci => ci.qtype
  | none => qt0

/-- the fallbacks of `GetInfo` once the unit is not in the list of the type -/
def infoFallback (lg : List (Sym × Sym)) (r : Registry) (qt u : Sym) (l : List UnitRow)
    (fixUnknown fixLeg : Bool) : Except ErrKind UnitRow :=
  match (if fixUnknown && qt == unknownQType then l.find? (·.sym == unknownUnit) else none) with
  | some w => .ok w
  | none =>
    match (if fixLeg && isLegacy lg u then tryInfo r qt (fixLegacy lg u) else none) with
    | some w => .ok w
    | none => .error .units

/-- `GetInfo(quantity_type, unit, fix_unknown, fix_legacy)` -/
def getInfo (lg : List (Sym × Sym)) (r : Registry) (qt0 u : Sym) (fixUnknown fixLeg : Bool) :
    Except ErrKind UnitRow :=
  match tryInfo r qt0 u with
  | some w => .ok w
  | none =>
    match tlGet r.types (resolveQt r qt0) with
    | none => .error .units
    | some l =>
      match l.find? (·.sym == u) with
      | some w => .ok w
      | none => infoFallback lg r (resolveQt r qt0) u l fixUnknown fixLeg

/-- `CheckQuantityTypeUnit` (no legacy fixing) as a verdict -/
def quantityTypeUnitOk (lg : List (Sym × Sym)) (r : Registry) (qt u : Sym) : Bool :=
  match getInfo lg r qt u false false with
  | .ok _ => true
  | .error _ => false

/-- what `CheckCategoryUnit` computes on a memo miss -/
def categoryUnitValid (lg : List (Sym × Sym)) (r : Registry) (c u : Sym) : Bool :=
  match catGet r.cats c with
  | none => false
  | some ci => quantityTypeUnitOk lg r ci.qtype u

/-! ### AddCategory -/

/-- the keyword arguments of `AddCategory`; `caption = 0` is the default `""` -/
structure CatArgs where
  category : SArg
  qtype : Option Sym
  validUnits : Option (List Sym)
  override : Bool
  defaultUnit : Option Sym
  defaultValue : Option Rat
  minV : Option Rat
  maxV : Option Rat
  minExcl : Bool
  maxExcl : Bool
  caption : Sym
  fromCat : Option Sym
deriving DecidableEq, Repr

/-- Python truthiness of an optional string -/
def truthy : Option Sym → Bool
  | some s => s != 0
  | none => false

/-- `max_value < min_value` when both are given -/
def limitsInverted : Option Rat → Option Rat → Bool
  | some lo, some hi => decide (hi < lo)
  | _, _ => false

def orElseO {α : Type} : Option α → Option α → Option α
  | some a, _ => some a
  | none, b => b

/-- the `if from_category:` block: quantity type taken from the source category, every argument
left at `None` copied from it (the two exclusivity flags and the caption default to `False`/`""`,
never to `None`, so the code never copies them) -/
def inheritFrom (r : Registry) (a : CatArgs) : Except ErrKind CatArgs :=
  if truthy a.fromCat then
    match getCategoryInfo r (a.fromCat.getD 0) with
    | .error e => .error e
    | .ok ci =>
      .ok { a with
        qtype := some ci.qtype
        validUnits := orElseO a.validUnits ci.validUnits
        defaultUnit := orElseO a.defaultUnit (some ci.defaultUnit)
        defaultValue := orElseO a.defaultValue (some ci.defaultValue)
        minV := orElseO a.minV ci.minV
        maxV := orElseO a.maxV ci.maxV }
  else .ok a

/-- the loop over `valid_units`: legacy spellings are replaced, every unit must belong to the type -/
def fixValid (lg : List (Sym × Sym)) (qunits : List Sym) : List Sym → Except ErrKind (List Sym)
  | [] => .ok []
  | u :: us =>
    if fixLegacy lg u ∈ qunits then
      match fixValid lg qunits us with
      | .ok vs => .ok (fixLegacy lg u :: vs)
      | .error e => .error e
    else .error .value

/-- "check if valid_units should inherit from the quantity_type" -/
def resolveValid (lg : List (Sym × Sym)) (r : Registry) (qt : Sym) :
    Option (List Sym) → Except ErrKind (Option (List Sym))
  | none => .ok none
  | some vu =>
    match getUnits r qt with
    | .error e => .error e
    | .ok qunits =>
      match fixValid lg qunits vu with
      | .ok vs => .ok (some vs)
      | .error e => .error e

/-- the default unit: the base unit (or the first valid unit when the base is not among a non-empty
list of valid units), or the given one after legacy fixing, which must belong to the type -/
def resolveDefaultUnit (lg : List (Sym × Sym)) (r : Registry) (qt : Sym) (vu : Option (List Sym)) :
    Option Sym → Except ErrKind Sym
  | none =>
    match getBaseUnit r qt with
    | .error e => .error e
    | .ok b =>
      match vu with
      | some (v :: vs) => if b ∈ v :: vs then .ok b else .ok v
      | _ => .ok b
  | some d =>
    match getUnits r qt with
    | .error e => .error e
    | .ok qunits => if fixLegacy lg d ∈ qunits then .ok (fixLegacy lg d) else .error .value

def minOk (lo : Option Rat) (excl : Bool) (d : Rat) : Bool :=
  match lo with
  | none => true
  | some m => if excl then decide (m < d) else decide (m ≤ d)

def maxOk (hi : Option Rat) (excl : Bool) (d : Rat) : Bool :=
  match hi with
  | none => true
  | some m => if excl then decide (d < m) else decide (d ≤ m)

/-- the default value: derived (min, else max, else 0; impossible with an exclusive limit) or the
given one, asserted to lie inside the limits -/
def resolveDefaultValue (lo hi : Option Rat) (loX hiX : Bool) : Option Rat → Except ErrKind Rat
  | none =>
    if loX || hiX then .error .runtime else
    match lo with
    | some m => .ok m
    | none =>
      match hi with
      | some m => .ok m
      | none => .ok 0
  | some d =>
    if !minOk lo loX d then .error .assertion
    else if !maxOk hi hiX d then .error .assertion
    else .ok d

def isUpperB (b : Nat) : Bool := 65 ≤ b && b ≤ 90
def isLowerB (b : Nat) : Bool := 97 ≤ b && b ≤ 122

/-- `str.title()` on ASCII bytes: a cased letter is upper-cased when the previous character is not a
cased letter, lower-cased otherwise -/
def titleBytes : Bool → List Nat → List Nat
  | _, [] => []
  | prevCased, b :: bs =>
    if isUpperB b then (if prevCased then b + 32 else b) :: titleBytes true bs
    else if isLowerB b then (if prevCased then b else b - 32) :: titleBytes true bs
    else b :: titleBytes false bs

/-- `category.title()` with "Per " → "per " and "Of " → "of " (`PREPOSITIONS_IN_CATEGORY_NAME`) -/
def titleCaption (c : Sym) : Sym :=
  Sym.ofBytes
    (replaceAll (replaceAll (titleBytes false (Sym.bytes c)) [80, 101, 114, 32] [112, 101, 114, 32])
      [79, 102, 32] [111, 102, 32])

/-- everything `AddCategory` computes between the `assert quantity_type is not None` and the store -/
def buildInfo (lg : List (Sym × Sym)) (r : Registry) (c qt : Sym) (a : CatArgs) : Except ErrKind CatRow :=
  match resolveValid lg r qt a.validUnits with
  | .error e => .error e
  | .ok vu =>
    match resolveDefaultUnit lg r qt vu a.defaultUnit with
    | .error e => .error e
    | .ok du =>
      match resolveDefaultValue a.minV a.maxV a.minExcl a.maxExcl a.defaultValue with
      | .error e => .error e
      | .ok dv =>
        .ok ⟨c, qt, vu, du, dv, a.minV, a.maxV, a.minExcl, a.maxExcl,
             if a.caption != 0 then a.caption else titleCaption c⟩

/-- `AddCategory(...)` -/
def addCategory (lg : List (Sym × Sym)) (r : Registry) (a : CatArgs) : Registry × Except ErrKind CatRow :=
  match a.category with
  | .none => (r, .error .type)
  | .bad => (r, .error .type)
  | .str c =>
    if truthy a.fromCat && truthy a.qtype then (r, .error .value)
    else if !a.override && (catGet r.cats c).isSome then (r, .error .units)
    else if limitsInverted a.minV a.maxV then (r, .error .value)
    else
      match inheritFrom r a with
      | .error e => (r, .error e)
      | .ok a1 =>
        match a1.qtype with
        | none => (r, .error .assertion)
        | some qt =>
          match buildInfo lg r c qt a1 with
          | .error e => (r, .error e)
          | .ok info => (⟨r.types, r.index, catSet r.cats info⟩, .ok info)

/-- EXPLICIT `None` for `is_min_exclusive` / `is_max_exclusive` / `caption` (`minN`, `maxN`, `capN`): with
`from_category` the value is copied from the source category (the last three `if … is None` lines of the
`if from_category:` block); without it `None` stays, which is falsy like the defaults `False` / `""` that `a`
carries then.  An unknown source category is left to `addCategory`, which raises for it. -/
def inheritFlags (r : Registry) (a : CatArgs) (minN maxN capN : Bool) : CatArgs :=
  if truthy a.fromCat then
    match getCategoryInfo r (a.fromCat.getD 0) with
    | .error _ => a
    | .ok ci =>
      { a with
        minExcl := if minN then ci.minExcl else a.minExcl
        maxExcl := if maxN then ci.maxExcl else a.maxExcl
        caption := if capN then ci.caption else a.caption }
  else a

/-! ### read-only string queries -/

/-- `str.lower()` on ASCII bytes -/
def lowerBytes (l : List Nat) : List Nat := l.map (fun b => if isUpperB b then b + 32 else b)

/-- `FindUnitCase(category, unit)`: the one unit of the category's quantity type that equals `unit` ignoring
case (`AssertionError` when there is none or more than one) -/
def findUnitCase (r : Registry) (c u : Sym) : Except ErrKind Sym :=
  match getCategoryInfo r c with
  | .error e => .error e
  | .ok ci =>
    match tlGet r.types ci.qtype with
    | none => .error .units
    | some l =>
      match l.filter (fun w => lowerBytes (Sym.bytes w.sym) == lowerBytes (Sym.bytes u)) with
      | [w] => .ok w.sym
      | _ => .error .assertion

/-- `re.split(r"[\./]", s)` -/
def splitDotSlash : List Nat → List (List Nat)
  | [] => [[]]
  | b :: bs =>
    if b = 46 ∨ b = 47 then [] :: splitDotSlash bs
    else
      match splitDotSlash bs with
      | [] => [[b]]
      | p :: ps => (b :: p) :: ps

/-- same number of parts and, part by part, one is a prefix of the other -/
def partsClose (a b : List (List Nat)) : Bool :=
  a.length == b.length && (List.zip a b).all (fun p => p.2.isPrefixOf p.1 || p.1.isPrefixOf p.2)

/-- `FindSimilarUnitMatches(unit)` in the iteration order of the symbol index (the code sorts the result) -/
def findSimilar (r : Registry) (u : Sym) : List Sym :=
  (r.index.map (·.1)).filter (fun k =>
    partsClose (splitDotSlash (lowerBytes (Sym.bytes k))) (splitDotSlash (lowerBytes (Sym.bytes u))))

/-! ### the state machine -/

inductive RegOp
  | addUnitBase (qt : SArg) (name : Sym) (unit : SArg)
  | addUnit (qt : SArg) (name : Sym) (unit : SArg) (fb tb : Formula) (dc : Sym)
  | addCategory (a : CatArgs)
  /-- `AddCategory` with explicit `None` for the exclusivity flags / the caption -/
  | addCategoryN (a : CatArgs) (minN maxN capN : Bool)
deriving DecidableEq, Repr

inductive Out
  | unit
  | cat (ci : CatRow)
deriving DecidableEq, Repr

def step (lg : List (Sym × Sym)) (r : Registry) : RegOp → Registry × Except ErrKind Out
  | .addUnitBase qt name unit =>
    match addUnitBase r qt name unit with
    | (r1, .ok ()) => (r1, .ok .unit)
    | (r1, .error e) => (r1, .error e)
  | .addUnit qt name unit fb tb dc =>
    match addUnit r qt name unit fb tb dc with
    | (r1, .ok ()) => (r1, .ok .unit)
    | (r1, .error e) => (r1, .error e)
  | .addCategory a =>
    match addCategory lg r a with
    | (r1, .ok ci) => (r1, .ok (.cat ci))
    | (r1, .error e) => (r1, .error e)
  | .addCategoryN a minN maxN capN =>
    match addCategory lg r (inheritFlags r a minN maxN capN) with
    | (r1, .ok ci) => (r1, .ok (.cat ci))
    | (r1, .error e) => (r1, .error e)

def run (lg : List (Sym × Sym)) (r : Registry) : List RegOp → Registry
  | [] => r
  | op :: ops => run lg (step lg r op).1 ops

def outputs (lg : List (Sym × Sym)) (r : Registry) : List RegOp → List (Except ErrKind Out)
  | [] => []
  | op :: ops => (step lg r op).2 :: outputs lg (step lg r op).1 ops

end Barril.Reg
