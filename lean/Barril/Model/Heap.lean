/-
C13 (and the aliasing half of C05/C07): a small heap of mutable cells and the value objects that
refer to them, so that "who shares which container with whom, and who writes where" is expressible.

Cells (mutable Python objects):
  * `seq kind items`   a Python list / tuple / numpy.ndarray of numbers (tuples are immutable but
                       have identity: `GetValues()` returns the very object the caller passed in);
  * `pair unit exp`    the `[unit, exp]` list stored per category inside `_category_to_unit_and_exps`;
  * `frac x`           a `barril.basic.fraction.Fraction` (attribute `x`, a `fractions.Fraction`);
  * `fv number frac`   a `FractionValue` (`_number`, reference to its `_fraction`).
Objects (never written after creation by the modelled code; kept in append-only tables):
  * `QObj`  a `Quantity`: the OrderedDict `category -> pair cell` (the dict itself is created by
            `ObtainQuantity`/`Quantity.__init__` and never edited afterwards; the dicts that ARE edited
            are the local copies made by the arithmetic routines: they are the `List (Sym × Ref)`
            locals of `matchLoop`/`mergeLoop`, their `[unit, exp]` lists are heap cells);
  * `Obj`   Scalar / Array / FixedArray / FractionScalar.

Every function below is written after the Python function named in its comment; all effects go
through `allocM` / `writeM` / `readM`.  Nothing here assumes that old cells are not written: that is
what `Barril/Props/C13.lean` proves.
-/
import Barril.Model.Conv

namespace Barril.Heap
open Barril

abbrev Ref := Nat

inductive Kind | list | tuple | ndarray
deriving DecidableEq, Repr

inductive Cell
  | seq (kind : Kind) (items : List Rat)
  | pair (unit : Sym) (exp : Int)
  | frac (x : Rat)
  | fv (number : Rat) (fraction : Ref)
deriving DecidableEq, Repr

/-- a `Quantity` object -/
structure QObj where
  /-- `_category_to_unit_and_exps`: category ↦ reference to its `[unit, exp]` list -/
  entries : List (Sym × Ref)
  /-- `_unknown_unit_caption` (`0` = `''`) -/
  caption : Sym
  /-- `_is_derived` -/
  derived : Bool
  /-- what `__init__` computed once from the dict and keeps as immutable strings/tuples
      (`_category`, `_unit`, `_quantity_type`, `_composing_units`, `_composing_categories`): the
      `(category, unit, exponent)` triples read at creation -/
  comp : List (Sym × Sym × Int)
deriving DecidableEq, Repr

/-- keys of `quantities_cache` -/
inductive QKey
  | simple (cat unit caption : Sym)                       -- `(category, unit, unknown_unit_caption)`; `0` = `None`
  | derived (items : List (Sym × Sym × Int)) (caption : Sym)
deriving DecidableEq, Repr

inductive Obj
  | scalar (q : Nat) (v : Rat)
  | array (q : Nat) (c : Ref)
  | fixed (dim : Nat) (q : Nat) (c : Ref)
  | fscalar (q : Nat) (v : Ref)
deriving DecidableEq, Repr

structure St where
  heap : List Cell
  quants : List QObj
  cache : List (QKey × Nat)
  /-- the pool of value objects of a history -/
  objs : List Obj
  /-- the validity memo of Array / FixedArray objects (`_is_valid`, `_validity_exception`), by pool index:
  `none` = cached "valid", `some e` = the cached exception.  It is state of the object itself, written by
  the validation operations; it is NOT value, unit, category, dimension or container contents, and the
  snapshots / frame theorems do not speak about it -/
  valid : List (Nat × Option ErrKind) := []
deriving Repr

def St.empty : St := ⟨[], [], [], [], []⟩

/-! ### the effect monad -/

abbrev M (α : Type) := St → Except ErrKind (α × St)

@[inline] def M.pure {α : Type} (a : α) : M α := fun s => .ok (a, s)

@[inline] def M.bind {α β : Type} (m : M α) (f : α → M β) : M β := fun s =>
  match m s with
  | .ok (a, s') => f a s'
  | .error e => .error e

instance : Monad M where
  pure := M.pure
  bind := M.bind

def failM {α : Type} (e : ErrKind) : M α := fun _ => .error e

def liftE {α : Type} (x : Except ErrKind α) : M α := fun s =>
  match x with
  | .ok a => .ok (a, s)
  | .error e => .error e

/-- object creation: a new cell at the next address -/
def allocM (c : Cell) : M Ref := fun s => .ok (s.heap.length, { s with heap := s.heap ++ [c] })

/-- assignment into an existing object -/
def writeM (r : Ref) (c : Cell) : M Unit := fun s =>
  if r < s.heap.length then .ok ((), { s with heap := s.heap.set r c }) else .error .other

def readM (r : Ref) : M Cell := fun s =>
  match s.heap[r]? with
  | some c => .ok (c, s)
  | none => .error .other

def readPair (r : Ref) : M (Sym × Int) := do
  match (← readM r) with
  | .pair u e => pure (u, e)
  | _ => failM .other

def readSeq (r : Ref) : M (Kind × List Rat) := do
  match (← readM r) with
  | .seq k xs => pure (k, xs)
  | _ => failM .other

def readFrac (r : Ref) : M Rat := do
  match (← readM r) with
  | .frac x => pure x
  | _ => failM .other

def readFv (r : Ref) : M (Rat × Ref) := do
  match (← readM r) with
  | .fv n f => pure (n, f)
  | _ => failM .other

def getQ (q : Nat) : M QObj := fun s =>
  match s.quants[q]? with
  | some o => .ok (o, s)
  | none => .error .other

def getObj (i : Nat) : M Obj := fun s =>
  match s.objs[i]? with
  | some o => .ok (o, s)
  | none => .error .index

def newQuant (o : QObj) : M Nat := fun s => .ok (s.quants.length, { s with quants := s.quants ++ [o] })

def newObj (o : Obj) : M Nat := fun s => .ok (s.objs.length, { s with objs := s.objs ++ [o] })

def cacheGet (k : QKey) : M (Option Nat) := fun s => .ok ((s.cache.find? (·.1 == k)).map (·.2), s)

def cachePut (k : QKey) (q : Nat) : M Unit := fun s => .ok ((), { s with cache := (k, q) :: s.cache })

def memoGet (i : Nat) : M (Option (Option ErrKind)) := fun s =>
  .ok ((s.valid.find? (·.1 == i)).map (·.2), s)

def memoPut (i : Nat) (v : Option ErrKind) : M Unit := fun s => .ok ((), { s with valid := (i, v) :: s.valid })

/-! ### values and conversions (pure) -/

inductive Val
  | num (x : Rat)
  | seq (k : Kind) (xs : List Rat)
deriving DecidableEq, Repr

inductive BinOp | add | sub | mul | div | floordiv
deriving DecidableEq, Repr

def mapE {α β : Type} (f : α → Except ErrKind β) : List α → Except ErrKind (List β)
  | [] => .ok []
  | a :: as =>
    match f a with
    | .error e => .error e
    | .ok b =>
      match mapE f as with
      | .error e => .error e
      | .ok bs => .ok (b :: bs)

/-- Python's float `+ - * / //` (a zero divisor is `ZeroDivisionError`; under
`numpy.errstate(all='raise')` a `FloatingPointError`: both are kind `other`) -/
def binNum (f : BinOp) (x y : Rat) : Except ErrKind Rat :=
  match f with
  | .add => .ok (x + y)
  | .sub => .ok (x - y)
  | .mul => .ok (x * y)
  | .div => if y = 0 then .error .other else .ok (x / y)
  | .floordiv => if y = 0 then .error .other else .ok ((x / y).floor : Int)

def zipE (f : Rat → Rat → Except ErrKind Rat) : List Rat → List Rat → Except ErrKind (List Rat)
  | x :: xs, y :: ys =>
    match f x y with
    | .error e => .error e
    | .ok z =>
      match zipE f xs ys with
      | .error e => .error e
      | .ok zs => .ok (z :: zs)
  | [], [] => .ok []
  | _, _ => .error .value        -- numpy: operands could not be broadcast together

/-- `operation(value1, value2)` of the `UnitDatabase` arithmetic: two numbers, or (numpy branch of
`Array._DoOperation`) at least one ndarray, which makes the result an ndarray -/
def applyOp (f : BinOp) : Val → Val → Except ErrKind Val
  | .num x, .num y => (binNum f x y).map .num
  | .seq k xs, .num y =>
    if k = .ndarray then (mapE (fun x => binNum f x y) xs).map (.seq .ndarray) else .error .type
  | .num x, .seq k ys =>
    if k = .ndarray then (mapE (fun y => binNum f x y) ys).map (.seq .ndarray) else .error .type
  | .seq k1 xs, .seq k2 ys =>
    if k1 = .ndarray ∨ k2 = .ndarray then (zipE (binNum f) xs ys).map (.seq .ndarray) else .error .type

/-- `GetCategoryQuantityType` -/
def catQType (db : Db) (c : Sym) : Except ErrKind Sym :=
  match db.catByName c with
  | some ci => .ok ci.qtype
  | none => .error .units

/-- `UnitDatabase.Convert(quantity_type, from_unit, to_unit, value)` for a number, a list/tuple
(a new list/tuple) or an ndarray (`ConvertNumpyArray`: a new array) -/
def convVal (db : Db) (cq u v : Sym) : Val → Except ErrKind Val
  | .num x => (db.convert cq u v x).map .num
  | .seq k xs =>
    if u == v then .ok (.seq k xs) else
    -- the two unit rows are looked up before the elements are touched (an empty container still fails
    -- for a foreign unit)
    match db.typeOf cq with
    | .error e => .error e
    | .ok qt =>
      match db.getInfo qt u true with
      | .error e => .error e
      | .ok this =>
        match db.getInfo qt v true with
        | .error e => .error e
        | .ok other => (mapE (convRows this other) xs).map (.seq k)

def powInt (r : Rat) (e : Int) : Except ErrKind Rat :=
  if 0 ≤ e then .ok (r ^ e.toNat) else if r = 0 then .error .other else .ok (1 / r ^ (-e).toNat)

def scaleVal (k : Rat) : Val → Val
  | .num x => .num (x * k)
  | .seq kd xs => .seq kd (xs.map (· * k))

/-- `UnitDatabase._ConvertMatchingExp(quantity_type, from_unit, to_unit, exp, value, in_derived)`: the plain
conversion for exponent 1 outside a derived quantity; inside one (or with another exponent) the value is
scaled by `(convert 1 - convert 0) ** exp`, so an offset is never applied to a factor of a product -/
def convMatchingExp (db : Db) (qt u v : Sym) (exp : Int) (x : Val) (inDerived : Bool) : Except ErrKind Val :=
  if u = v ∨ (exp = 1 ∧ inDerived = false) then convVal db qt u v x
  else
    match db.convert qt u v 0 with
    | .error e => .error e
    | .ok zero =>
      if exp = 1 ∧ zero = 0 then convVal db qt u v x
      else
        match db.convert qt u v 1 with
        | .error e => .error e
        | .ok one =>
          match powInt (one - zero) exp with
          | .ok k => .ok (scaleVal k x)
          | .error e => .error e

/-! ### unit string of a derived quantity (`_CreateUnitsWithJoinedExponentsString`) -/

/-- `GetComposingUnitsJoiningExponents`: unit ↦ summed exponent, first-seen order -/
def joinExps : List (Sym × Int) → List (Sym × Int) → List (Sym × Int)
  | acc, [] => acc
  | acc, (u, e) :: rest =>
    if acc.any (·.1 == u) then joinExps (acc.map (fun p => if p.1 == u then (p.1, p.2 + e) else p)) rest
    else joinExps (acc ++ [(u, e)]) rest

def natBytes (n : Nat) : List Nat := (Nat.toDigits 10 n).map Char.toNat

def unitStrPos : List Nat → List (Sym × Int) → List Nat
  | ret, [] => ret
  | ret, (u, e) :: rest =>
    if 0 < e then
      let ret := if ret.isEmpty then ret else ret ++ [46]            -- "."
      unitStrPos (ret ++ Sym.bytes u ++ (if e ≠ 1 then natBytes e.toNat else [])) rest
    else unitStrPos ret rest

def unitStrNeg : List Nat → Bool → List (Sym × Int) → List Nat
  | ret, _, [] => ret
  | ret, added, (u, e) :: rest =>
    if e < 0 then
      let ret := if !added then (if ret.isEmpty then [49, 47] else ret ++ [47]) else ret ++ [46]  -- "1/" "/" "."
      unitStrNeg (ret ++ Sym.bytes u ++ (if e ≠ -1 then natBytes (-e).toNat else [])) true rest
    else unitStrNeg ret added rest

/-- `Quantity._unit` -/
def unitOfComp (derived : Bool) (comp : List (Sym × Sym × Int)) : Sym :=
  if derived then
    let j := joinExps [] (comp.map (fun t => (t.2.1, t.2.2)))
    Sym.ofBytes (unitStrNeg (unitStrPos [] j) false j)
  else
    match comp with
    | (_, u, _) :: _ => u
    | [] => 0

/-- what distinguishes the strings `_quantity_type` of two quantities (`_MakeStr` over the summed
exponents per quantity type): positive entries in order, then negative ones; zeros are not printed -/
def qtypeKey (db : Db) (q : QObj) : Except ErrKind (List (Sym × Int)) :=
  match mapE (fun t : Sym × Sym × Int => (catQType db t.1).map (fun qt => (qt, t.2.2))) q.comp with
  | .error e => .error e
  | .ok l =>
    let j := joinExps [] l
    .ok (j.filter (fun p => 0 < p.2) ++ j.filter (fun p => p.2 < 0))

/-! ### quantities -/

/-- read `tuple(self._category_to_unit_and_exps.items())` -/
def readItems : List (Sym × Ref) → M (List (Sym × Sym × Int))
  | [] => pure []
  | (c, r) :: es => do
    let p ← readPair r
    let rest ← readItems es
    pure ((c, p.1, p.2) :: rest)

/-- `Quantity.__eq__` -/
def qEq (a b : Nat) : M Bool := do
  let qa ← getQ a
  let qb ← getQ b
  let ia ← readItems qa.entries
  let ib ← readItems qb.entries
  pure (ia == ib && qa.caption == qb.caption)

/-- `copy.deepcopy(q.GetCategoryToUnitAndExps())`, `GetCategoryToUnitAndExpsCopy()` and the
`unit_and_exp[:]` of `_CreateDerived`: a new dict whose `[unit, exp]` lists are new lists -/
def copyPairs : List (Sym × Ref) → M (List (Sym × Ref))
  | [] => pure []
  | (c, r) :: es => do
    let p ← readPair r
    let r' ← allocM (.pair p.1 p.2)
    let es' ← copyPairs es
    pure ((c, r') :: es')

/-- simple branch of `Quantity.__init__(category, unit, caption)` (the memo table of
`CheckCategoryUnit` is C05's and is left out: the verdict is the memo-free one) -/
def newSimpleQuantity (db : Db) (cat unit caption : Sym) : M Nat := do
  match db.catByName cat with
  | none => failM .units
  | some _ =>
    let u ← (if db.categoryUnitValid cat unit then pure unit
             else if isLegacy db.legacy unit && db.categoryUnitValid cat (fixLegacy db.legacy unit)
             then pure (fixLegacy db.legacy unit)
             else failM .units : M Sym)
    let r ← allocM (.pair u 1)
    newQuant ⟨[(cat, r)], caption, false, [(cat, u, 1)]⟩

/-- `GetDefaultCategory(unit)` -/
def defaultCategory (db : Db) (unit : Sym) : Except ErrKind Sym :=
  let row : Except ErrKind (Option UnitRow) :=
    match db.unitBySym unit with
    | some r => .ok (some r)
    | none =>
      if isLegacy db.legacy unit then
        match db.unitBySym (fixLegacy db.legacy unit) with
        | some r => .ok (some r)
        | none => .error .key
      else .ok none
  match row with
  | .error e => .error e
  | .ok none => .ok 0
  | .ok (some r) =>
    if r.defaultCat != 0 then .ok r.defaultCat
    else if (db.catByName r.qtype).isSome then .ok r.qtype else .ok 0

/-- `ObtainQuantity(unit: str, category: str | None, caption)` -/
def obtainSimple (db : Db) (unit cat caption : Sym) : M Nat := do
  match (← cacheGet (.simple cat unit caption)) with
  | some q => pure q
  | none =>
    if cat = 0 then
      let c1 ← liftE (defaultCategory db unit)
      let cu ← (if c1 != 0 then pure (c1, unit)
                else if isLegacy db.legacy unit then do
                  let c2 ← liftE (defaultCategory db (fixLegacy db.legacy unit))
                  pure (c2, fixLegacy db.legacy unit)
                else failM .units : M (Sym × Sym))
      match (← cacheGet (.simple cu.1 cu.2 caption)) with
      | some q => pure q
      | none =>
        let q ← newSimpleQuantity db cu.1 cu.2 caption
        cachePut (.simple cu.1 cu.2 caption) q
        cachePut (.simple cat unit caption) q
        pure q
    else
      let q ← newSimpleQuantity db cat unit caption
      cachePut (.simple cat unit caption) q
      pure q

/-- derived branch of `Quantity.__init__`: every category must be registered -/
def checkCats (db : Db) : List (Sym × Sym × Int) → Except ErrKind Unit
  | [] => .ok ()
  | (c, _, _) :: rest =>
    match catQType db c with
    | .error e => .error e
    | .ok _ => checkCats db rest

/-- the validation loop of `Quantity._CreateDerived`, also run by `ObtainQuantity(dict)` on a cache miss:
every unit must belong to the quantity type of its category -/
def validateItems (db : Db) : List (Sym × Sym × Int) → Except ErrKind Unit
  | [] => .ok ()
  | (c, u, _) :: rest =>
    match catQType db c with
    | .error e => .error e
    | .ok qt =>
      match db.checkQuantityTypeUnit qt u with
      | .error e => .error e
      | .ok _ => validateItems db rest

/-- `ObtainQuantity(dict, None, caption)`; when the cache misses the new `Quantity` copies the dict and its
lists once more -/
def obtainDict (db : Db) (es : List (Sym × Ref)) (caption : Sym) : M Nat := do
  let items ← readItems es
  match items with
  | [(c, u, 1)] => obtainSimple db u c caption
  | _ =>
    match (← cacheGet (.derived items caption)) with
    | some q => pure q
    | none =>
      -- `Quantity.__init__`, derived branch: the quantity keeps ITS OWN copy of the mapping, with new
      -- `[unit, exp]` lists (`OrderedDict((cat, list(unit_and_exp)) …)`)
      liftE (validateItems db items)          -- "only a miss pays for it"
      let own ← copyPairs es
      liftE (checkCats db items)
      let q ← newQuant ⟨own, caption, true, items⟩
      cachePut (.derived items caption) q
      pure q

/-- `Quantity.CreateEmpty()` -/
def emptyQuantity (db : Db) : M Nat := obtainDict db [] 0

/-- `Quantity._CreateDerived(dict, validate, caption)`: validates, copies the lists once more and
goes through `ObtainQuantity` -/
def createDerived (db : Db) (es : List (Sym × Ref)) (validate : Bool) (caption : Sym) : M Nat := do
  if validate then
    let items ← readItems es
    liftE (validateItems db items)
  let es' ← copyPairs es
  obtainDict db es' caption

/-! ### the arithmetic of `UnitDatabase` -/

def lookupS {β : Type} (k : Sym) : List (Sym × β) → Option β
  | [] => none
  | (a, b) :: rest => if a == k then some b else lookupS k rest

/-- one pass of the loop of `_MatchQuantities` over one (copied) dict: the first unit seen for a
quantity type wins; a later one is converted and its `[unit, exp]` list is EDITED IN PLACE
(`unit_exp[0] = used_unit_for_quantity_type`); `inDerived` = `len(c) > 1` of the dict being walked -/
def matchLoop (db : Db) (inDerived : Bool) :
    List (Sym × Ref) → List (Sym × Sym) → Val → M (List (Sym × Sym) × Val)
  | [], found, v => pure (found, v)
  | (cat, r) :: es, found, v => do
    let p ← readPair r
    let qt ← liftE (catQType db cat)
    match lookupS qt found with
    | none => matchLoop db inDerived es (found ++ [(qt, p.1)]) v
    | some used =>
      let v' ← liftE (convMatchingExp db qt p.1 used p.2 v inDerived)
      writeM r (.pair used p.2)
      matchLoop db inDerived es found v'

/-- `_MatchQuantities` -/
def matchQuantities (db : Db) (es1 es2 : List (Sym × Ref)) (v1 v2 : Val) : M (Val × Val) := do
  let r1 ← matchLoop db (decide (1 < es1.length)) es1 [] v1
  let r2 ← matchLoop db (decide (1 < es2.length)) es2 r1.1 v2
  pure (r1.2, r2.2)

/-- `set(q.GetComposingUnitsJoiningExponents())` compared as sets -/
def sameSet (a b : List (Sym × Int)) : Bool :=
  a.all (fun x => b.contains x) && b.all (fun x => a.contains x)

def joinedOf (q : Nat) : M (List (Sym × Int)) := do
  let o ← getQ q
  let items ← readItems o.entries
  pure (joinExps [] (items.map (fun t => (t.2.1, t.2.2))))

/-- `_DoOperationWithSameQuantity` (Sum, Subtract) -/
def opSame (db : Db) (f : BinOp) (q1 q2 : Nat) (v1 v2 : Val) : M (Nat × Val) := do
  if (← qEq q1 q2) then
    let v ← liftE (applyOp f v1 v2)
    pure (q1, v)
  else
    let o1 ← getQ q1
    let o2 ← getQ q2
    let es1 ← copyPairs o1.entries
    let es2 ← copyPairs o2.entries
    let vs ← matchQuantities db es1 es2 v1 v2
    let q1' ← createDerived db es1 false o1.caption       -- quantity1.CreateCopyInstance(dict1)
    let q2' ← createDerived db es2 false o2.caption
    let j1 ← joinedOf q1'
    let j2 ← joinedOf q2'
    let q ← (if sameSet j1 j2 then pure q1'
             else if j1.isEmpty then pure q2'
             else if j2.isEmpty then pure q1'
             else failM .units : M Nat)
    let v ← liftE (applyOp f vs.1 vs.2)
    pure (q, v)

def expOp (f : BinOp) (a b : Int) : Int :=
  match f with
  | .mul => a + b
  | _ => a - b

/-- the "add the categories to the resulting one" loop of `_DoOperationResultingInNewQuantity`:
a new `[unit, exp]` list for a category only the second operand has, otherwise the exponent of
the first dict's list is EDITED IN PLACE (`unit_exp1[1] = ...`) -/
def mergeLoop (f : BinOp) : List (Sym × Ref) → List (Sym × Ref) → M (List (Sym × Ref))
  | [], es1 => pure es1
  | (c2, r2) :: rest, es1 => do
    let p2 ← readPair r2
    match lookupS c2 es1 with
    | none =>
      let r ← allocM (.pair p2.1 (expOp f 0 p2.2))
      mergeLoop f rest (es1 ++ [(c2, r)])
    | some r1 =>
      let p1 ← readPair r1
      if p1.1 == p2.1 then do
        writeM r1 (.pair p1.1 (expOp f p1.2 p2.2))
        mergeLoop f rest es1
      else failM .runtime

/-- "remove the ones that have exponent = 0" -/
def dropZero (tot : List (Sym × Int)) : List (Sym × Ref) → M (List (Sym × Ref))
  | [] => pure []
  | (c, r) :: es => do
    let p ← readPair r
    let rest ← dropZero tot es
    if p.2 = 0 ∨ lookupS p.1 tot = some 0 then pure rest else pure ((c, r) :: rest)

/-- `_DoOperationResultingInNewQuantity` (Multiply, Divide, FloorDivide) -/
def opNew (db : Db) (f : BinOp) (q1 q2 : Nat) (v1 v2 : Val) : M (Nat × Val) := do
  let o1 ← getQ q1
  let o2 ← getQ q2
  let es1 ← copyPairs o1.entries
  let es2 ← copyPairs o2.entries
  let vs ← matchQuantities db es1 es2 v1 v2
  let es ← mergeLoop f es2 es1
  let items ← readItems es
  let tot := joinExps [] (items.map (fun t => (t.2.1, t.2.2)))
  let es' ← dropZero tot es
  let q ← createDerived db es' true 0
  let v ← liftE (applyOp f vs.1 vs.2)
  pure (q, v)

/-- `getattr(unit_database, operation)` -/
def opFunc (db : Db) (f : BinOp) (q1 q2 : Nat) (v1 v2 : Val) : M (Nat × Val) :=
  match f with
  | .add => opSame db f q1 q2 v1 v2
  | .sub => opSame db f q1 q2 v1 v2
  | _ => opNew db f q1 q2 v1 v2

/-! ### value conversion of a quantity -/

/-- `Quantity.ConvertScalarValue` / `Quantity.Convert` for the value kinds of this model -/
def convertQ (db : Db) (q : QObj) (toU : Sym) (v : Val) : Except ErrKind Val :=
  if unitOfComp q.derived q.comp == toU then .ok v
  else if !q.derived then
    match q.comp with
    | [(c, u, _)] => match catQType db c with
      | .error e => .error e
      | .ok qt => convVal db qt u toU v
    | _ => .error .other
  else
    -- `UnitDatabase.Convert(categories, ((unit, exp), …), to_unit, value)` → `_ConvertWithExp`
    match q.comp with
    | [] => .ok v
    | [(c, u, e)] => if e ≠ 1 then .error .value else convVal db c u toU v
    | _ => .error .units

def valNum : Val → Except ErrKind Rat
  | .num x => .ok x
  | _ => .error .other

/-! ### value objects -/

inductive Cls | scalar | array | fixed | fscalar
deriving DecidableEq, Repr

def Obj.cls : Obj → Cls
  | .scalar .. => .scalar | .array .. => .array | .fixed .. => .fixed | .fscalar .. => .fscalar

def Obj.q : Obj → Nat
  | .scalar q _ => q | .array q _ => q | .fixed _ q _ => q | .fscalar q _ => q

/-- `FixedArray._InternalCreateWithQuantity(quantity, values, dimension=…)` reached through
`CreateWithQuantity` (the stub has the class default `_dimension = None`) -/
def mkFixedWith (dim : Option Nat) (q : Nat) (c : Ref) : M Nat := do
  let s ← readSeq c
  let d := match dim with | some d => d | none => s.2.length
  if d < 2 then failM .value
  else if s.2.length ≠ d then failM .value
  else newObj (.fixed d q c)

/-- `cls.CreateWithQuantity(q, values)` for the two array classes -/
def mkArrayLike (cls : Cls) (dim : Option Nat) (q : Nat) (c : Ref) : M Nat :=
  match cls with
  | .fixed => mkFixedWith dim q c
  | _ => newObj (.array q c)

/-- `Scalar._DoOperation(p1, p2, operation)` with two Scalars -/
def scalarOp (db : Db) (f : BinOp) (q1 : Nat) (x : Rat) (q2 : Nat) (y : Rat) : M Nat := do
  let r ← opFunc db f q1 q2 (.num x) (.num y)
  let z ← liftE (valNum r.2)
  newObj (.scalar r.1 z)

/-- `Scalar._DoOperation` with a plain number on the right / on the left -/
def scalarNumR (f : BinOp) (q : Nat) (x k : Rat) : M Nat := do
  let z ← liftE (binNum f x k)
  newObj (.scalar q z)

def scalarNumL (db : Db) (f : BinOp) (k : Rat) (q : Nat) (x : Rat) : M Nat := do
  if f = .div ∨ f = .floordiv then
    let e ← emptyQuantity db
    let r ← opFunc db f e q (.num k) (.num x)
    let z ← liftE (valNum r.2)
    newObj (.scalar r.1 z)
  else
    let z ← liftE (binNum f k x)
    newObj (.scalar q z)

/-- the loop of `Scalar.__pow__`: `result = result * self`, `n` more times; the intermediate Scalars are
temporaries (not pool members), every product goes through `Multiply` with its copies and in-place edits -/
def powLoop (db : Db) (q0 : Nat) (x0 : Rat) : Nat → Nat → Rat → M (Nat × Rat)
  | 0, q, x => pure (q, x)
  | n + 1, q, x => do
    let r ← opFunc db .mul q q0 (.num x) (.num x0)
    let z ← liftE (valNum r.2)
    powLoop db q0 x0 n r.1 z

/-- `x ** exponent` (`Scalar.__pow__`, integer exponent): `range(exponent - 1)` multiplications; for an exponent
below 2 (0 and negative ones included) the loop does not run and the result IS `self`; the other classes have
no `__pow__` (TypeError) -/
def scalarPow (db : Db) (i : Nat) (e : Int) : M (Nat × Bool) := do
  match (← getObj i) with
  | .scalar q x =>
    if e ≤ 1 then pure (i, false)
    else do
      let r ← powLoop db q x (e.toNat - 1) q x
      let j ← newObj (.scalar r.1 r.2)
      pure (j, true)
  | _ => failM .type

/-- the per-element loop of `Array._DoOperation` (list/tuple containers) -/
def elemLoop (db : Db) (f : BinOp) (q1 q2 : Nat) : List (Rat × Rat) → Nat → M (Nat × List Rat)
  | [], q => pure (q, [])
  | (x, y) :: rest, _ => do
    let r ← opFunc db f q1 q2 (.num x) (.num y)
    let z ← liftE (valNum r.2)
    let t ← elemLoop db f q1 q2 rest r.1
    pure (t.1, z :: t.2)

/-- `_ValueGenerator.__iter__` for non-numpy operands -/
def genPairs : Val → Val → Except ErrKind (List (Rat × Rat))
  | .seq _ xs, .num y => .ok (xs.map (fun x => (x, y)))
  | .num x, .seq _ ys => .ok (ys.map (fun y => (x, y)))
  | .seq _ xs, .seq _ ys => .ok (xs.zip ys)
  | .num x, .num y => .ok [(x, y)]

/-- `_ValueGenerator.IsTuple` -/
def genIsTuple : Val → Val → Bool
  | .seq k1 _, .seq k2 _ => k1 = .tuple && k2 = .tuple
  | .seq k _, .num _ => k = .tuple
  | .num _, .seq k _ => k = .tuple
  | _, _ => false

def Val.isNumpy : Val → Bool
  | .seq .ndarray _ => true
  | _ => false

def valLen : Val → Option Nat
  | .seq _ xs => some xs.length
  | .num _ => none

/-- "Arrays must have the same length" (only when both operands are Arrays) -/
def checkLens (v1 v2 : Val) : Except ErrKind Unit :=
  match valLen v1, valLen v2 with
  | some n1, some n2 => if n1 ≠ n2 then .error .value else .ok ()
  | _, _ => .ok ()

/-- `Array._DoOperation(p1, p2, operation)`; `cls`: class of `self` -/
def arrayOp (db : Db) (f : BinOp) (cls : Cls) (q1 q2 : Nat) (v1 v2 : Val) : M Nat := do
  liftE (checkLens v1 v2)
  if v1.isNumpy || v2.isNumpy then
    let r ← opFunc db f q1 q2 v1 v2
    match r.2 with
    | .seq k xs =>
      let c ← allocM (.seq k xs)
      mkArrayLike cls none r.1 c
    | .num _ => failM .other
  else
    let r0 ← opFunc db f q1 q2 (.num 1) (.num 1)
    let ps ← liftE (genPairs v1 v2)
    let t ← elemLoop db f q1 q2 ps r0.1
    let c ← allocM (.seq (if genIsTuple v1 v2 then .tuple else .list) t.2)
    mkArrayLike cls none t.1 c

/-- `self.values` (`GetAbstractValue(None)`): the internal container itself -/
def valuesOf (o : Obj) : M (Ref × Val) := do
  match o with
  | .array _ c => let s ← readSeq c; pure (c, .seq s.1 s.2)
  | .fixed _ _ c => let s ← readSeq c; pure (c, .seq s.1 s.2)
  | _ => failM .other

inductive Operand
  | num (k : Rat)
  | obj (i : Nat)
deriving DecidableEq, Repr

/-- `a <op> b` as Python dispatches it for the operand classes of the pool -/
def arith (db : Db) (f : BinOp) (a b : Operand) : M Nat := do
  match a, b with
  | .num _, .num _ => failM .other
  | .obj i, .num k =>
    match (← getObj i) with
    | .scalar q x => scalarNumR f q x k
    | .fscalar .. => failM .type
    | o => do
      let v ← valuesOf o
      let e ← emptyQuantity db
      arrayOp db f o.cls o.q e v.2 (.num k)
  | .num k, .obj i =>
    match (← getObj i) with
    | .scalar q x => scalarNumL db f k q x
    | .fscalar .. => failM .type
    | o => do
      let v ← valuesOf o
      let e ← emptyQuantity db
      arrayOp db f o.cls e o.q (.num k) v.2
  | .obj i, .obj j =>
    let oa ← getObj i
    let ob ← getObj j
    match oa, ob with
    | .scalar q1 x, .scalar q2 y => scalarOp db f q1 x q2 y
    | .fscalar .., _ => failM .type
    | .scalar .., .fscalar .. => failM .type
    | .scalar .., _ => failM .other               -- `p2.value`: AttributeError
    | _, .scalar .. => failM .other               -- `p2.values`: AttributeError
    | _, .fscalar .. => failM .other
    | _, _ => do
      let v1 ← valuesOf oa
      let v2 ← valuesOf ob
      arrayOp db f oa.cls oa.q ob.q v1.2 v2.2

/-! ### FractionScalar -/

/-- `FractionScalar.ConvertFractionValue(fraction_value, quantity, from_unit, to_unit)` with a
`Quantity`: a new `FractionValue`; the fraction is COPIED (`copy.copy`) and the copy's numerator
is written -/
def convertFractionValue (db : Db) (fvr : Ref) (q : Nat) (toU : Sym) : M Ref := do
  let fvc ← readFv fvr
  let o ← getQ q
  let cq ← (match o.derived, o.comp with
            | false, [(c, u, _)] => obtainSimple db u c 0      -- ObtainQuantity(from_unit, composing categories)
            | _, _ => failM .type : M Nat)
  let co ← getQ cq
  let n' ← liftE ((convertQ db co toU (.num fvc.1)).bind valNum)
  let f0 ← allocM (.frac 0)                                     -- FractionValue(number=…): Fraction(0.0, 1.0)
  let res ← allocM (.fv n' f0)
  let x ← readFrac fvc.2
  let a ← liftE ((convertQ db co toU (.num x.num)).bind valNum)
  let b ← liftE ((convertQ db co toU (.num 0)).bind valNum)
  let cf ← allocM (.frac x)                                     -- copy.copy(fraction)
  writeM cf (.frac ((a - b) / x.den))                           -- converted_fraction.numerator = …
  writeM res (.fv n' cf)                                        -- result.SetFraction(converted_fraction)
  pure res

/-- `float(fraction_value)` -/
def fvFloat (r : Ref) : M Rat := do
  let c ← readFv r
  let x ← readFrac c.2
  pure (c.1 + x)

/-! ### GetValue / GetValues -/

inductive Out
  | obj (i : Nat) (fresh : Bool)          -- a value object: pool index; `fresh` = a new object
  | num (x : Rat)
  | cont (r : Ref) (shared : Bool)        -- a container; `shared` = it IS an operand's internal container
  | fval (r : Ref) (shared : Bool)        -- a FractionValue
  | bool (b : Bool)
  | unit
  /-- an exception raised by a validation call (`CheckValidity`, `ValidateValues`): unlike every other failure it
  is not traceless, because the Array has cached it (`_validity_exception`) before raising -/
  | raised (e : ErrKind)
deriving DecidableEq, Repr

/-- `Array.GetAbstractValue(unit)` -/
def arrayValues (db : Db) (q : Nat) (c : Ref) (unit : Option Sym) : M (Ref × Bool) := do
  let o ← getQ q
  match unit with
  | none => pure (c, true)
  | some u =>
    if u == unitOfComp o.derived o.comp then pure (c, true)
    else
      let s ← readSeq c
      -- `self._quantity.Convert(values, unit)`
      let conv : Except ErrKind Val :=
        if !o.derived then
          match o.comp with
          | [(cat, cu, _)] => convVal db cat cu u (.seq s.1 s.2)
          | _ => .error .other
        else convertQ db o u (.seq s.1 s.2)
      match (← liftE conv) with
      | .seq k xs =>
        if o.derived && o.comp.isEmpty then pure (c, true)       -- `_ConvertWithExp` returns `value` itself
        else do
          let c' ← allocM (.seq k xs)
          pure (c', false)
      | .num _ => failM .other

/-- `GetAbstractValue(unit)` of every class -/
def getValue (db : Db) (i : Nat) (unit : Option Sym) : M Out := do
  match (← getObj i) with
  | .scalar q x =>
    match unit with
    | none => pure (.num x)
    | some u =>
      let o ← getQ q
      let y ← liftE ((convertQ db o u (.num x)).bind valNum)
      pure (.num y)
  | .array q c => do let r ← arrayValues db q c unit; pure (.cont r.1 r.2)
  | .fixed _ q c => do let r ← arrayValues db q c unit; pure (.cont r.1 r.2)
  | .fscalar q v =>
    match unit with
    | none => pure (.fval v true)
    | some u => do let r ← convertFractionValue db v q u; pure (.fval r false)

inductive Scribble | edit | append | clear
deriving DecidableEq, Repr

/-- what the CALLER does to a container it got from `GetValues(unit)`: `r[:] = 777`, `r.append(777)`,
`r.clear()` (a list; an ndarray is overwritten with 777; a tuple cannot be changed) -/
def scribbled (how : Scribble) (k : Kind) (xs : List Rat) : List Rat :=
  match k, how with
  | .tuple, _ => xs
  | .list, .append => xs ++ [777]
  | .list, .clear => []
  | _, _ => xs.map (fun _ => 777)

/-- `r = x.GetValues(unit)` followed by the caller writing into `r` - unless `r` is the Array's own
container (own unit / no unit), which the histories leave alone.  The write goes to the cell that
`GetValues` has just handed out. -/
def getValuesAndScribble (db : Db) (i : Nat) (unit : Option Sym) (how : Scribble) : M Out := do
  match (← getObj i) with
  | .array q c => do
    let r ← arrayValues db q c unit
    let s ← readSeq r.1
    if r.2 then pure (.cont r.1 true)
    else do
      writeM r.1 (.seq s.1 (scribbled how s.1 s.2))
      pure (.cont r.1 false)
  | .fixed _ q c => do
    let r ← arrayValues db q c unit
    let s ← readSeq r.1
    if r.2 then pure (.cont r.1 true)
    else do
      writeM r.1 (.seq s.1 (scribbled how s.1 s.2))
      pure (.cont r.1 false)
  | _ => failM .other

/-! ### CreateCopy, copy, pickle -/

/-- the quantity chosen by `AbstractValueWithQuantityObject.CreateCopy(value, unit, category)` -/
def copyQuantity (db : Db) (q : Nat) (unit cat : Option Sym) : M Nat := do
  match unit, cat with
  | none, none => pure q
  | none, some _ => failM .type
  | some u, some c => obtainSimple db u c 0
  | some u, none =>
    let o ← getQ q
    if o.derived then
      if o.comp.isEmpty then obtainSimple db u 0 0      -- "Handling empty quantity"
      else failM .units                                  -- the `_MakeStr` category is not registered
    else
      match o.comp with
      | [(c, _, _)] => obtainSimple db u c 0
      | _ => failM .other

/-- `CreateCopy(unit=…, category=…)` (no explicit value) -/
def createCopy (db : Db) (i : Nat) (unit cat : Option Sym) : M Nat := do
  match (← getObj i) with
  | .scalar q x =>
    let y ← (match unit with
             | none => pure x
             | some u => do
               let o ← getQ q
               liftE ((convertQ db o u (.num x)).bind valNum) : M Rat)
    let q' ← copyQuantity db q unit cat
    newObj (.scalar q' y)
  | .array q c =>
    let r ← arrayValues db q c unit
    let q' ← copyQuantity db q unit cat
    newObj (.array q' r.1)
  | .fixed d q c =>
    let r ← arrayValues db q c unit
    let q' ← copyQuantity db q unit cat
    mkFixedWith (some d) q' r.1
  | .fscalar q v =>
    let r ← (match unit with
             | none => pure v
             | some u => convertFractionValue db v q u : M Ref)
    let q' ← copyQuantity db q unit cat
    newObj (.fscalar q' r)

/-- `pickle.loads(pickle.dumps(quantity))`: `__reduce__` lists the dict items (reading the
`[unit, exp]` lists); unpickling rebuilds fresh lists and calls `_ObtainReduced` -/
def pickleQuantity (db : Db) (q : Nat) : M Nat := do
  let o ← getQ q
  let es ← copyPairs o.entries
  obtainDict db es o.caption

/-- `pickle.loads(pickle.dumps(x))`: `Scalar.__reduce__`, `FixedArray.__reduce__`; Array and
FractionScalar have no `__reduce__` and their `__dict__` holds the unit database, which does not
pickle -/
def pickleObj (db : Db) (i : Nat) : M Nat := do
  match (← getObj i) with
  | .scalar q x =>
    let q' ← pickleQuantity db q
    newObj (.scalar q' x)
  | .fixed d q c =>
    let q' ← pickleQuantity db q
    let s ← readSeq c
    let c' ← allocM (.seq s.1 s.2)
    if d < 2 then failM .value
    else if s.2.length ≠ d then failM .value
    else newObj (.fixed d q' c')
  | _ => failM .other

/-! ### comparison -/

def objEq (i j : Nat) : M Bool := do
  let a ← getObj i
  let b ← getObj j
  match a, b with
  | .scalar q1 x, .scalar q2 y => do
    let e ← qEq q1 q2
    pure (x == y && e)
  | .array q1 c1, .array q2 c2 => do
    let s1 ← readSeq c1; let s2 ← readSeq c2
    let e ← qEq q1 q2
    let o1 ← getQ q1; let o2 ← getQ q2
    pure (s1.2 == s2.2 && e && unitOfComp o1.derived o1.comp == unitOfComp o2.derived o2.comp)
  | .array q1 c1, .fixed _ q2 c2 => do
    -- `Array.__eq__(array, fixedarray)`: Python tries the subclass' reflected `__eq__` first
    let _ := (q1, c1, q2, c2)
    pure false
  | .fixed d1 q1 c1, .fixed d2 q2 c2 => do
    let s1 ← readSeq c1; let s2 ← readSeq c2
    let e ← qEq q1 q2
    let o1 ← getQ q1; let o2 ← getQ q2
    pure (s1.2 == s2.2 && e && unitOfComp o1.derived o1.comp == unitOfComp o2.derived o2.comp && d1 == d2)
  | .fscalar q1 v1, .fscalar q2 v2 => do
    let f1 ← readFv v1; let f2 ← readFv v2
    let x1 ← readFrac f1.2; let x2 ← readFrac f2.2
    let e ← qEq q1 q2
    pure (f1.1 == f2.1 && x1 == x2 && e)
  | _, _ => pure false

/-- `a < b` for Scalar / FractionScalar operands (`_GetValuesToCompare`); the right operand's
`GetValue(self.unit)` allocates when it is a FractionScalar -/
def objLt (db : Db) (i j : Nat) : M Bool := do
  let a ← getObj i
  let b ← getObj j
  let sideA : Option (Nat × Option Rat × Option Ref) := match a with
    | .scalar q x => some (q, some x, none)
    | .fscalar q v => some (q, none, some v)
    | _ => none
  match sideA, b with
  | none, _ => failM .type
  | some (q1, x1, v1), b =>
    let q2 := b.q
    if b.cls = .array ∨ b.cls = .fixed then failM .type else
    let o1 ← getQ q1
    let o2 ← getQ q2
    let k1 ← liftE (qtypeKey db o1)
    let k2 ← liftE (qtypeKey db o2)
    if k1 != k2 then failM .type
    else
      let u := unitOfComp o1.derived o1.comp
      let lhs ← (match x1, v1 with
                 | some x, _ => pure x
                 | none, some v => fvFloat v
                 | none, none => failM .other : M Rat)
      let rhs ← (match b with
                 | .scalar _ y => liftE ((convertQ db o2 u (.num y)).bind valNum)
                 | .fscalar _ v => do
                   let r ← convertFractionValue db v q2 u
                   fvFloat r
                 | _ => failM .other : M Rat)
      pure (lhs < rhs)

/-! ### validation and formatting: read-only -/

def checkValue (db : Db) (o : QObj) (x : Rat) : Except ErrKind Unit :=
  if o.derived then .ok () else
  match o.comp with
  | [(c, u, _)] =>
    match db.catByName c with
    | none => .error .other
    | some ci =>
      if ci.minV.isNone && ci.maxV.isNone then .ok () else
      match (if u != ci.defaultUnit then db.convert ci.qtype u ci.defaultUnit x else .ok x) with
      | .error e => .error e
      | .ok y =>
        let okMin := match ci.minV with
          | none => true
          | some m => if ci.minExcl then decide (m < y) else decide (m ≤ y)
        let okMax := match ci.maxV with
          | none => true
          | some m => if ci.maxExcl then decide (y < m) else decide (y ≤ m)
        if okMin && okMax then .ok () else .error .value
  | _ => .error .other

def minMax : List Rat → Option (Rat × Rat)
  | [] => none
  | x :: xs => some (xs.foldl (fun (p : Rat × Rat) v => if v < p.1 then (v, p.2) else if p.2 < v then (p.1, v) else p) (x, x))

/-- `Array._DoValidateValues(values, quantity)`: nothing for a derived quantity or a category without
limits; otherwise the loop finds the smallest and the largest value and both are checked (reads only) -/
def doValidateValues (db : Db) (o : QObj) (xs : List Rat) : Except ErrKind Unit :=
  if o.derived then .ok () else
  match minMax xs with
  | none => .ok ()
  | some (lo, hi) => (checkValue db o lo).bind (fun _ => checkValue db o hi)

/-- `Array.ValidateValues` (behind `CheckValidity`): the verdict is computed once per object and cached
(`_is_valid = True`, or `_validity_exception`, which is raised again) -/
def validateArray (db : Db) (i : Nat) (o : QObj) (c : Ref) : M (Except ErrKind Unit) := do
  match (← memoGet i) with
  | some none => pure (.ok ())
  | some (some e) => pure (.error e)
  | none =>
    let s ← readSeq c
    let r := doValidateValues db o s.2
    memoPut i (match r with
      | .ok _ => none
      | .error e => some e)
    pure r

/-- where the `values` argument of a public `ValidateValues(values, quantity)` call comes from -/
inductive ValSrc
  | own                                   -- `x.GetValues()`
  | member (j : Nat)                      -- `pool[j].GetValues()`: another Array's container
  | literal (k : Kind) (xs : List Rat)    -- a container the caller has just made
deriving Repr

/-- the public call `x.ValidateValues(values, quantity)` on an Array / FixedArray with ANY values and ANY
quantity (`qsrc = none`: its own): the given data is validated and the verdict is cached on `x`; the code
reads its arguments and writes nothing but the memo -/
def validateWith (db : Db) (i : Nat) (vals : ValSrc) (qsrc : Option Nat) : M (Except ErrKind Unit) := do
  let ob ← getObj i
  let own ← (match ob with
             | .array q c => pure (q, c)
             | .fixed _ q c => pure (q, c)
             | _ => failM .other : M (Nat × Ref))        -- no `ValidateValues` on Scalar / FractionScalar
  let r ← (match vals with
           | .own => pure own.2
           | .member j => do let v ← valuesOf (← getObj j); pure v.1
           | .literal k xs => allocM (.seq k xs) : M Ref)
  let q ← (match qsrc with
           | none => pure own.1
           | some k => do let o ← getObj k; pure o.q : M Nat)
  let o ← getQ q
  validateArray db i o r

/-- `CheckValidity()` of every class, as an outcome -/
def checkValidityE (db : Db) (i : Nat) : M (Except ErrKind Unit) := do
  let ob ← getObj i
  let o ← getQ ob.q
  match ob with
  | .scalar _ x => pure (checkValue db o x)
  | .fscalar _ v => do let x ← fvFloat v; pure (checkValue db o x)
  | .array _ c => validateArray db i o c
  | .fixed _ _ c => validateArray db i o c

/-- `CheckValidity()` / `ValidateValues(self.GetValues(), self.GetQuantity())` -/
def checkValidity (db : Db) (i : Nat) : M Unit := do
  liftE (← checkValidityE db i)

/-- `IsValid()`: a derived quantity is valid without looking; `ValueError` means invalid -/
def isValid (db : Db) (i : Nat) : M Bool := do
  let ob ← getObj i
  let o ← getQ ob.q
  if o.derived then pure true else
  match (← checkValidityE db i) with
  | .ok _ => pure true
  | .error .value => pure false
  | .error e => failM e

/-- the scan of `_DoValidateValues` with NaNs (`none`): the first non-NaN value initialises minimum and
maximum, later NaNs are skipped -/
def scanNaN : List (Option Rat) → Option (Rat × Rat)
  | [] => none
  | none :: rest => scanNaN rest
  | some x :: rest =>
    some (rest.foldl (fun (p : Rat × Rat) v => match v with
      | none => p
      | some v => if v < p.1 then (v, p.2) else if p.2 < v then (p.1, v) else p) (x, x))

/-- `Array(values, unit, category).CheckValidity()` for a container that may hold NaNs (stateless) -/
def validateNaN (db : Db) (cat unit : Sym) (xs : List (Option Rat)) : Except ErrKind Unit :=
  match scanNaN xs with
  | none => .ok ()
  | some (lo, hi) =>
    let o : QObj := ⟨[], 0, false, [(cat, unit, 1)]⟩
    (checkValue db o lo).bind (fun _ => checkValue db o hi)

/-- `str(x)`, `repr(x)`, `GetFormatted()`: read the value(s) and the quantity's strings -/
def format (i : Nat) : M Unit := do
  let ob ← getObj i
  let _ ← getQ ob.q
  match ob with
  | .scalar .. => pure ()
  | .array _ c => do let _ ← readSeq c; pure ()
  | .fixed _ _ c => do let _ ← readSeq c; pure ()
  | .fscalar _ v => do let _ ← fvFloat v; pure ()

/-! ### FixedArray.ChangingIndex / IndexAsScalar -/

/-- Python index normalisation for `list[i] = …` / `seq[i]` -/
def normIndex (n : Nat) (i : Int) : Except ErrKind Nat :=
  if 0 ≤ i then (if i.toNat < n then .ok i.toNat else .error .index)
  else (if (-i).toNat ≤ n then .ok (n - (-i).toNat) else .error .index)

/-- `FixedArray.ChangingIndex(index, value, use_value_unit)`; `value` a number or a pool member -/
def changingIndex (db : Db) (i : Nat) (idx : Int) (value : Operand) (useValueUnit : Bool) : M Nat := do
  match (← getObj i) with
  | .fixed d q c =>
    -- the Scalar whose value goes in: `Scalar(self.GetQuantity(), value)` or the Scalar itself
    let sc ← (match value with
              | .num k => pure (q, k)
              | .obj j => do
                match (← getObj j) with
                | .scalar q2 y => pure (q2, y)
                | _ => failM .type : M (Nat × Rat))
    let qr := if useValueUnit then sc.1 else q
    let oq ← getQ qr
    let u := unitOfComp oq.derived oq.comp
    let vals ← arrayValues db q c (some u)
    let s ← readSeq vals.1
    let l ← allocM (.seq .list s.2)                       -- values = list(self.GetValues(unit))
    let os ← getQ sc.1
    let y ← liftE ((convertQ db os u (.num sc.2)).bind valNum)
    let k ← liftE (normIndex s.2.length idx)
    writeM l (.seq .list (s.2.set k y))                   -- values[index] = …
    let t ← allocM (.seq .tuple (s.2.set k y))            -- tuple(values)
    if d < 2 then failM .value
    else if (s.2.set k y).length ≠ d then failM .value
    else newObj (.fixed d qr t)
  | _ => failM .other

/-- `FixedArray.IndexAsScalar(index)` -/
def indexAsScalar (db : Db) (i : Nat) (idx : Int) : M Nat := do
  match (← getObj i) with
  | .fixed _ q c =>
    let o ← getQ q
    let vals ← arrayValues db q c (some (unitOfComp o.derived o.comp))
    let s ← readSeq vals.1
    let k ← liftE (normIndex s.2.length idx)
    match s.2[k]? with
    | some x => newObj (.scalar q x)
    | none => failM .index
  | _ => failM .other

/-! ### constructors used by histories -/

/-- `Scalar(v, unit, category)` -/
def mkScalar (db : Db) (v : Rat) (unit cat : Sym) : M Nat := do
  let q ← obtainSimple db unit cat 0
  newObj (.scalar q v)

/-- `Scalar.CreateEmptyScalar(v)` -/
def mkEmptyScalar (db : Db) (v : Rat) : M Nat := do
  let q ← emptyQuantity db
  newObj (.scalar q v)

/-- `Scalar(ObtainQuantity(unit, None, caption), v)` -/
def mkCaptionScalar (db : Db) (v : Rat) (unit caption : Sym) : M Nat := do
  let q ← obtainSimple db unit 0 caption
  newObj (.scalar q v)

/-- `Array(container, unit, category)`: the Array KEEPS the reference to the caller's container -/
def mkArray (db : Db) (k : Kind) (xs : List Rat) (unit cat : Sym) : M Nat := do
  let c ← allocM (.seq k xs)              -- the caller's list / tuple / ndarray
  let q ← obtainSimple db unit cat 0
  newObj (.array q c)

/-- `Array(other.GetValues(), unit, category)`: a second Array over the same container -/
def mkArrayFrom (db : Db) (i : Nat) (unit cat : Sym) : M Nat := do
  let o ← getObj i
  let v ← valuesOf o
  let q ← obtainSimple db unit cat 0
  newObj (.array q v.1)

/-- `Array.CreateEmptyArray(container)` -/
def mkEmptyArray (db : Db) (k : Kind) (xs : List Rat) : M Nat := do
  let c ← allocM (.seq k xs)
  let q ← emptyQuantity db
  newObj (.array q c)

/-- `FixedArray(dimension, container, unit, category)` -/
def mkFixed (db : Db) (dim : Nat) (k : Kind) (xs : List Rat) (unit cat : Sym) : M Nat := do
  let c ← allocM (.seq k xs)
  if dim < 2 then failM .value
  else
    let q ← obtainSimple db unit cat 0
    if xs.length ≠ dim then failM .value
    else newObj (.fixed dim q c)

/-- `FractionScalar(FractionValue(number, (num, den)), unit, category)` with integral parts -/
def mkFScalar (db : Db) (number : Rat) (num : Int) (den : Nat) (unit cat : Sym) : M Nat := do
  if den = 0 then failM .assertion
  else
    let f ← allocM (.frac (mkRat num den))
    let v ← allocM (.fv number f)
    let q ← obtainSimple db unit cat 0
    newObj (.fscalar q v)

/-- the caller's hand-made mapping `OrderedDict((category, [unit, exp]), …)`: new `[unit, exp]` lists -/
def allocPairs : List (Sym × Sym × Int) → M (List (Sym × Ref))
  | [] => pure []
  | (c, u, e) :: rest => do
    let r ← allocM (.pair u e)
    let es ← allocPairs rest
    pure ((c, r) :: es)

/-- `cls.CreateWithQuantity(Quantity.CreateDerived(OrderedDict(items)), value)`: a value object on a
hand-made composing map (the only way to two different units of ONE quantity type inside a quantity;
Multiply/Divide unify them) -/
def mkDerived (db : Db) (cls : Cls) (items : List (Sym × Sym × Int)) (v : Rat) (k : Kind) (xs : List Rat) :
    M Nat := do
  let es ← allocPairs items
  let q ← createDerived db es true 0
  match cls with
  | .scalar => newObj (.scalar q v)
  | .array => do
    let c ← allocM (.seq k xs)
    newObj (.array q c)
  | .fixed => do
    let c ← allocM (.seq k xs)
    mkFixedWith none q c
  | .fscalar => failM .other

/-! ### histories -/

inductive Op
  | mkScalar (v : Rat) (unit cat : Sym)
  | mkEmptyScalar (v : Rat)
  | mkCaptionScalar (v : Rat) (unit caption : Sym)
  | mkArray (k : Kind) (xs : List Rat) (unit cat : Sym)
  | mkArrayFrom (i : Nat) (unit cat : Sym)
  | mkEmptyArray (k : Kind) (xs : List Rat)
  | mkFixed (dim : Nat) (k : Kind) (xs : List Rat) (unit cat : Sym)
  | mkFScalar (number : Rat) (num : Int) (den : Nat) (unit cat : Sym)
  | mkDerived (cls : Cls) (items : List (Sym × Sym × Int)) (v : Rat) (k : Kind) (xs : List Rat)
  | arith (f : BinOp) (a b : Operand)
  | pow (i : Nat) (e : Int)            -- `pool[i] ** e`
  | eq (i j : Nat)
  | lt (i j : Nat)
  | getValue (i : Nat) (unit : Option Sym)
  | createCopy (i : Nat) (unit cat : Option Sym)
  | copy (i : Nat)                       -- copy.copy / copy.deepcopy / Copy()
  | pickle (i : Nat)
  | isValid (i : Nat)
  | checkValidity (i : Nat)
  | validateWith (i : Nat) (vals : ValSrc) (qsrc : Option Nat)
  | scribble (i : Nat) (unit : Option Sym) (how : Scribble)
  | format (i : Nat)
  | changingIndex (i : Nat) (idx : Int) (value : Operand) (useValueUnit : Bool)
  | indexAsScalar (i : Nat) (idx : Int)
deriving Repr

def fresh (m : M Nat) : M Out := do let i ← m; pure (.obj i true)

/-- one public operation -/
def exec (db : Db) : Op → M Out
  | .mkScalar v u c => fresh (mkScalar db v u c)
  | .mkEmptyScalar v => fresh (mkEmptyScalar db v)
  | .mkCaptionScalar v u cap => fresh (mkCaptionScalar db v u cap)
  | .mkArray k xs u c => fresh (mkArray db k xs u c)
  | .mkArrayFrom i u c => fresh (mkArrayFrom db i u c)
  | .mkEmptyArray k xs => fresh (mkEmptyArray db k xs)
  | .mkFixed d k xs u c => fresh (mkFixed db d k xs u c)
  | .mkFScalar n a b u c => fresh (mkFScalar db n a b u c)
  | .mkDerived cls items v k xs => fresh (mkDerived db cls items v k xs)
  | .arith f a b => fresh (arith db f a b)
  | .pow i e => do let r ← scalarPow db i e; pure (.obj r.1 r.2)
  | .eq i j => do let b ← objEq i j; pure (.bool b)
  | .lt i j => do let b ← objLt db i j; pure (.bool b)
  | .getValue i u => getValue db i u
  | .createCopy i u c => fresh (createCopy db i u c)
  | .copy i => do let _ ← getObj i; pure (.obj i false)          -- `return self`
  | .pickle i => fresh (pickleObj db i)
  | .isValid i => do let b ← isValid db i; pure (.bool b)
  | .checkValidity i => do
    match (← checkValidityE db i) with
    | .ok _ => pure .unit
    | .error e => pure (.raised e)
  | .validateWith i vals qsrc => do
    match (← validateWith db i vals qsrc) with
    | .ok _ => pure .unit
    | .error e => pure (.raised e)
  | .scribble i u how => getValuesAndScribble db i u how
  | .format i => do format i; pure .unit
  | .changingIndex i idx v b => fresh (changingIndex db i idx v b)
  | .indexAsScalar i idx => fresh (indexAsScalar db i idx)

/-- a step of a history: a failed operation leaves no trace (its garbage is unreachable) -/
def step (db : Db) (s : St) (op : Op) : St × Except ErrKind Out :=
  match exec db op s with
  | .ok (o, s') => (s', .ok o)
  | .error e => (s, .error e)

def run (db : Db) (s : St) : List Op → St
  | [] => s
  | op :: ops => run db (step db s op).1 ops

/-! ### snapshots: everything observable about a pool member -/

structure QSnap where
  items : List (Sym × Sym × Int)        -- the dict as it is NOW (cells read)
  caption : Sym
  derived : Bool
  comp : List (Sym × Sym × Int)
deriving DecidableEq, Repr

inductive Snap
  | scalar (q : QSnap) (v : Rat)
  | array (q : QSnap) (c : Ref) (k : Kind) (xs : List Rat)
  | fixed (dim : Nat) (q : QSnap) (c : Ref) (k : Kind) (xs : List Rat)
  | fscalar (q : QSnap) (v : Ref) (number : Rat) (f : Ref) (x : Rat)
deriving DecidableEq, Repr

def itemsOf (h : List Cell) : List (Sym × Ref) → Option (List (Sym × Sym × Int))
  | [] => some []
  | (c, r) :: es =>
    match h[r]?, itemsOf h es with
    | some (.pair u e), some rest => some ((c, u, e) :: rest)
    | _, _ => none

def qsnap (s : St) (q : Nat) : Option QSnap :=
  match s.quants[q]? with
  | none => none
  | some o =>
    match itemsOf s.heap o.entries with
    | none => none
    | some items => some ⟨items, o.caption, o.derived, o.comp⟩

/-- value(s), unit, category, dimension, container identity and contents of pool member `i` -/
def snap (s : St) (i : Nat) : Option Snap :=
  match s.objs[i]? with
  | none => none
  | some (.scalar q v) => (qsnap s q).map (fun qs => .scalar qs v)
  | some (.array q c) =>
    match qsnap s q, s.heap[c]? with
    | some qs, some (.seq k xs) => some (.array qs c k xs)
    | _, _ => none
  | some (.fixed d q c) =>
    match qsnap s q, s.heap[c]? with
    | some qs, some (.seq k xs) => some (.fixed d qs c k xs)
    | _, _ => none
  | some (.fscalar q v) =>
    match qsnap s q, s.heap[v]? with
    | some qs, some (.fv n f) =>
      match s.heap[f]? with
      | some (.frac x) => some (.fscalar qs v n f x)
      | _ => none
    | _, _ => none

end Barril.Heap
