/-
C19 engine `Ctor`: the construction forms of `Scalar`, `Array`, `FixedArray` and `FractionScalar`.

Modelled after (function by function, current /repo):
* `AbstractValueWithQuantityObject.__init__` (positional-argument juggling, the default value and
  default unit of a category, the Quantity-first form) and `CreateWithQuantity`;
* `Scalar.__init__` (tuple form), `Array.__init__`, `FixedArray.__init__` (dimension check first),
  `FractionScalar.__init__`; the four `_InternalCreateWithQuantity` and `_GetDefaultValue`;
* `ObtainQuantity(unit, category)` for every kind of argument the forms can hand to it (cache key
  hashing, list/tuple units, non-str units, missing category), the simple branch of
  `Quantity.__init__` (category lookup, `CheckCategoryUnit`, legacy retry, `GetInfo`);
* `UnitDatabase.GetCategoryInfo`, `GetDefaultCategory`, `GetDefaultUnit`,
  `Quantity.ConvertScalarValue` (also for a `to_unit` that is not a string);
* `__eq__` of the four classes and of `Quantity`/`FractionValue` (with Python's rule that the
  reflected method of a subclass is tried first), `Scalar.__repr__` and the reading back of the
  text it produces (a single-quoted literal without escapes);
* `ObtainQuantity(unit, category, unknown_unit_caption)` with its third argument, the branch for a
  dict of composing units (derived quantities, `Quantity.CreateEmpty()`), `units.GetUnknownQuantity`,
  `Quantity.__eq__` (composing map and caption), `CreateEmptyScalar` / `CreateEmptyArray`;
* the legacy constructor `Quantity(category, unit, caption)` called directly (`quantityInit`);
* `ObtainQuantity([(unit, exponent), …], [category, …], caption)` (list/tuple unit with a list/tuple of
  categories: `obtainPairs`), `CreateWithQuantity(q, values, value=…)` with the value given twice
  (`createWithQuantityBoth`);
* histories on a private `UnitDatabase()`: registrations (`Barril/Model/Reg.lean`) interleaved with
  `GetDefaultCategory` questions and groups of construction forms; every question is answered from
  the current registry alone (`hstep`).

Python values that can reach these functions are `PyVal`s: `None`, strings, finite numbers,
lists/tuples/1-d ndarrays of those, `FractionValue`s and `Quantity`s (simple ones with or without
an unknown-unit caption, derived ones, the empty one).  A string argument
carries `float(s)` (computed by the harness) because `Scalar`/`FractionScalar` call `float` on their
value.  Memo tables (`quantities_cache`, `_category_unit_valid`) only replay results on a database
that is not edited and are left out (C15 is about them).
-/
import Barril.Model.Conv
import Barril.Model.Reg

namespace Barril.Ctor
open Barril

instance {ε α : Type} [DecidableEq ε] [DecidableEq α] : DecidableEq (Except ε α)
  | .ok a, .ok b => if h : a = b then isTrue (by rw [h]) else isFalse (fun e => h (by cases e; rfl))
  | .error a, .error b => if h : a = b then isTrue (by rw [h]) else isFalse (fun e => h (by cases e; rfl))
  | .ok _, .error _ => isFalse (fun e => by cases e)
  | .error _, .ok _ => isFalse (fun e => by cases e)

/-! ### Python values -/

inductive Atom
  | none
  /-- a `str`; `f` = `float(s)` when that succeeds -/
  | str (s : Sym) (f : Option Rat)
  /-- a finite `float`, or an `int` that a double holds exactly (then `float(x) == x`) -/
  | num (q : Rat) (isInt : Bool)
  /-- a Python `int` that no double holds exactly (|n| > 2⁵³), with `fl` = `float(n)` (the integer
  rounded to the nearest double, ties to even; computed by the harness like `float(str)`) -/
  | big (n : Int) (fl : Rat)
  /-- `True` / `False`: an `int` subclass (`float(True) == 1.0`, `True == 1`) -/
  | bool (b : Bool)
  /-- a numpy integer scalar (`numpy.int64(n)`), small enough to be exact as a double -/
  | npint (n : Int)
deriving DecidableEq, Repr

inductive SeqKind | list | tuple | nda
deriving DecidableEq, Repr

/-- a `Quantity`.  `Quantity.__eq__` compares the composing map `_category_to_unit_and_exps` (in
order) and the unknown-unit caption. -/
structure Qty where
  /-- `GetCategory()` of a simple quantity (0 for a derived one: its strings are rendered by the
  string engine, C20, and play no role in construction or equality) -/
  cat : Sym
  /-- `GetUnit()` of a simple quantity (0 for a derived one) -/
  unit : Sym
  /-- `_unknown_unit_caption`; 0 = `""` (also what `None` is stored as) -/
  caption : Sym
  /-- `some items` for a derived quantity (`_is_derived`): the composing map, (category, unit,
  exponent) in order; `some []` is `Quantity.CreateEmpty()` -/
  comp : Option (List (Sym × Sym × Int))
deriving DecidableEq, Repr

/-- the simple quantity `Quantity(category, unit)` without caption -/
def Qty.simple (c u : Sym) : Qty := ⟨c, u, 0, Option.none⟩

def Qty.withCaption (q : Qty) (cap : Sym) : Qty := ⟨q.cat, q.unit, cap, q.comp⟩

/-- `Quantity.CreateEmpty()` -/
def Qty.empty : Qty := ⟨0, 0, 0, some []⟩

def Qty.isDerived (q : Qty) : Bool := q.comp.isSome

/-- `tuple(self._category_to_unit_and_exps.items())` -/
def Qty.items (q : Qty) : List (Sym × Sym × Int) :=
  match q.comp with
  | some l => l
  | Option.none => [(q.cat, q.unit, 1)]

/-- `Quantity.__eq__` -/
def Qty.pyEq (a b : Qty) : Bool := a.items == b.items && a.caption == b.caption

inductive PyVal
  | atom (a : Atom)
  | seq (k : SeqKind) (items : List Atom)
  /-- a list (or tuple) of tuples, e.g. `[(100, 150), (50, 50)]` -/
  | rows (k : SeqKind) (items : List (List Atom))
  /-- a list (or tuple) whose elements are lists or tuples, each with its flag "is a list": a list of
  lists `[[1.0, 2.0], [3.0, 4.5]]`, a tuple of lists, mixed rows `[[1.0], (2.0, 3.0)]` (the harness
  uses `rows` when every row is a tuple) -/
  | nest (k : SeqKind) (items : List (Bool × List Atom))
  /-- `FractionValue(number, fraction)`; `frac` is the exact value of the fraction part -/
  | fv (number frac : Rat)
  | qty (q : Qty)
deriving DecidableEq, Repr

def PyVal.none : PyVal := .atom .none
def PyVal.str (s : Sym) : PyVal := .atom (.str s Option.none)
def PyVal.num (q : Rat) : PyVal := .atom (.num q false)

def PyVal.isNone : PyVal → Bool
  | .atom .none => true
  | _ => false

def Atom.isNone : Atom → Bool
  | .none => true
  | _ => false

/-- the exact numeric value of a number (Python compares ints, bools and floats by value, exactly) -/
def Atom.numVal : Atom → Option Rat
  | .num q _ => some q
  | .big n _ => some n
  | .bool b => some (if b then 1 else 0)
  | .npint n => some n
  | _ => Option.none

/-- `a == b` between two atoms (`2 == 2.0`, `True == 1` are true; `2**53 + 1 == float(2**53 + 1)` is
false; a string never equals a number) -/
def atomEq (a b : Atom) : Bool :=
  match a, b with
  | .none, .none => true
  | .str s _, .str t _ => s == t
  | a, b =>
    match a.numVal, b.numVal with
    | some p, some q => p == q
    | _, _ => false

/-- `tuple(xs) == tuple(ys)` -/
def atomsEq : List Atom → List Atom → Bool
  | [], [] => true
  | a :: as, b :: bs => atomEq a b && atomsEq as bs
  | _, _ => false

/-- an element of `tuple(values)`: a plain value or a tuple of plain values -/
inductive Elem
  | atom (a : Atom)
  | row (r : List Atom)
  /-- a list of plain values (`[1.0, 2.0] != (1.0, 2.0)`) -/
  | lrow (r : List Atom)
deriving DecidableEq, Repr

/-- the element a row of a `nest` is -/
def rowElem (r : Bool × List Atom) : Elem := if r.1 then .lrow r.2 else .row r.2

/-- `x == y` between two elements (a tuple never equals a number, a string, `None` or a list) -/
def elemEq : Elem → Elem → Bool
  | .atom a, .atom b => atomEq a b
  | .row r, .row t => atomsEq r t
  | .lrow r, .lrow t => atomsEq r t
  | _, _ => false

/-- `tuple(xs) == tuple(ys)` -/
def elemsEq : List Elem → List Elem → Bool
  | [], [] => true
  | a :: as, b :: bs => elemEq a b && elemsEq as bs
  | _, _ => false

/-- `hash(x)` works (a dict lookup with the value inside the key raises `TypeError` otherwise):
lists, ndarrays and `FractionValue`s are unhashable -/
def PyVal.hashable : PyVal → Bool
  | .atom _ => true
  | .seq .tuple _ => true
  | .seq _ _ => false
  | .rows .tuple _ => true
  | .rows _ _ => false
  | .nest .tuple items => items.all (fun r => !r.1)
  | .nest _ _ => false
  | .fv _ _ => false
  | .qty _ => true

/-- `len(x)` -/
def pyLen : PyVal → Except ErrKind Int
  | .seq _ items => .ok items.length
  | .rows _ items => .ok items.length
  | .nest _ items => .ok items.length
  | .atom (.str s _) => .ok (Sym.bytes s).length
  | _ => .error .type

/-- `float(x)` (numpy ≥ 2.4: a 1-d array is a `TypeError` whatever its size) -/
def pyFloat : PyVal → Except ErrKind Rat
  | .atom (.num q _) => .ok q
  | .atom (.big _ fl) => .ok fl
  | .atom (.bool b) => .ok (if b then 1 else 0)
  | .atom (.npint n) => .ok n
  | .atom (.str _ (some f)) => .ok f
  | .atom (.str _ Option.none) => .error .value
  | .fv n f => .ok (n + f)          -- `FractionValue.__float__`
  | _ => .error .type

/-- `tuple(x)`: a string gives its characters -/
def pyTuple : PyVal → Except ErrKind (List Elem)
  | .seq _ items => .ok (items.map Elem.atom)
  | .rows _ items => .ok (items.map Elem.row)
  | .nest _ items => .ok (items.map rowElem)
  | .atom (.str s _) => .ok ((Sym.bytes s).map (fun b => Elem.atom (Atom.str b Option.none)))
  | _ => .error .type

/-- the truth value of `some_str == x`, as used by `if self._unit == to_unit:`; a comparison with an
ndarray is elementwise and only a one-element array has a truth value -/
def strEqTruth (s : Sym) : PyVal → Except ErrKind Bool
  | .atom (.str t _) => .ok (s == t)
  | .seq .nda [_] => .ok false
  | .seq .nda _ => .error .value
  | _ => .ok false

/-! ### the database queries the constructors use -/

/-- `UnitDatabase.GetCategoryInfo(category)`: a name that is not a key (`None` and numbers included)
is an `InvalidQuantityTypeError` -/
def getCategoryInfo (db : Db) : Atom → Except ErrKind CatRow
  | .str c _ =>
    match db.catByName c with
    | some ci => .ok ci
    | Option.none => .error .units
  | _ => .error .units

/-- the `UnitInfo` `GetDefaultCategory` looks at: the row of the unit, else the row of its
legacy-fixed spelling (`KeyError` when that is not registered either); `none` = return `None` -/
def defaultCategoryRow (db : Db) (u : Sym) : Except ErrKind (Option UnitRow) :=
  match db.unitBySym u with
  | some r => .ok (some r)
  | Option.none =>
    if !isLegacy db.legacy u then .ok Option.none else
    match db.unitBySym (fixLegacy db.legacy u) with
    | some r => .ok (some r)
    | Option.none => .error .key

/-- the tail of `GetDefaultCategory`: the row's own entry, else the quantity type when a category
of that name exists -/
def rowDefaultCategory (db : Db) (r : UnitRow) : Option Sym :=
  if r.defaultCat != 0 then some r.defaultCat
  else if (db.catByName r.qtype).isSome then some r.qtype
  else Option.none

/-- `UnitDatabase.GetDefaultCategory(unit)` -/
def getDefaultCategory (db : Db) (u : Sym) : Except ErrKind (Option Sym) :=
  match defaultCategoryRow db u with
  | .error e => .error e
  | .ok Option.none => .ok Option.none
  | .ok (some r) => .ok (rowDefaultCategory db r)

/-- `CheckCategoryUnit` with the retry on the legacy-fixed spelling (`Quantity.__init__`): the unit
the quantity ends up with -/
def checkedUnit (db : Db) (c u : Sym) : Except ErrKind Sym :=
  if db.categoryUnitValid c u then .ok u
  else if isLegacy db.legacy u then
    if db.categoryUnitValid c (fixLegacy db.legacy u) then .ok (fixLegacy db.legacy u)
    else .error .units
  else .error .units

/-- the first step of `Quantity.__init__`: the caption is `None` (stored as `""`) or must be a `str`
(`assert unknown_unit_caption.__class__ == str`) -/
def capOf : Atom → Except ErrKind Sym
  | .none => .ok 0
  | .str s _ => .ok s
  | _ => .error .assertion

/-- the last step of `Quantity.__init__`: `GetInfo(quantity_type, unit, fix_unknown=True).tobase` -/
def finishQuantityC (db : Db) (ci : CatRow) (c u cp : Sym) : Except ErrKind Qty :=
  match db.getInfo ci.qtype u true with
  | .ok _ => .ok ⟨c, u, cp, Option.none⟩
  | .error e => .error e

def finishQuantity (db : Db) (ci : CatRow) (c u : Sym) : Except ErrKind Qty := finishQuantityC db ci c u 0

/-- simple branch of `Quantity.__init__(category, unit, unknown_unit_caption)` with a string unit:
the caption is looked at first -/
def newQuantityC (db : Db) (category : Atom) (u : Sym) (cap : Atom) : Except ErrKind Qty :=
  match capOf cap with
  | .error e => .error e
  | .ok cp =>
    match category with
    | .str c _ =>
      match db.catByName c with
      | Option.none => .error .units
      | some ci =>
        match checkedUnit db c u with
        | .error e => .error e
        | .ok u' => finishQuantityC db ci c u' cp
    | _ => .error .type                           -- "Only str is accepted"

/-- `Quantity(category, unit)` -/
def newQuantity (db : Db) (category : Atom) (u : Sym) : Except ErrKind Qty := newQuantityC db category u .none

/-- the legacy constructor `Quantity(category, unit, unknown_unit_caption)` called directly (a private
instance, no cache): caption, then category (a `str` that is registered), then the unit — `None`
stands for the category's default unit, anything else that is no `str` is a `TypeError` -/
def quantityInit (db : Db) (category unit cap : Atom) : Except ErrKind Qty :=
  match unit with
  | .str u _ => newQuantityC db category u cap
  | other =>
    match capOf cap with
    | .error e => .error e
    | .ok _ =>
      match category with
      | .str c _ =>
        match db.catByName c with
        | Option.none => .error .units
        | some ci => if other.isNone then newQuantityC db category ci.defaultUnit cap else .error .type
      | _ => .error .type

def optAtom : Option Sym → Atom
  | some c => .str c Option.none
  | Option.none => .none

/-- `if not category:` -/
def falsy : Option Sym → Bool
  | some c => c == 0
  | Option.none => true

/-- `ObtainQuantity(unit, None, caption)`, string unit -/
def obtainDefaultC (db : Db) (u : Sym) (cap : Atom) : Except ErrKind Qty :=
  match getDefaultCategory db u with
  | .error e => .error e
  | .ok c =>
    if !falsy c then newQuantityC db (optAtom c) u cap
    else if isLegacy db.legacy u then
      match getDefaultCategory db (fixLegacy db.legacy u) with
      | .error e => .error e
      | .ok c' => newQuantityC db (optAtom c') (fixLegacy db.legacy u) cap
    else .error .units

/-- `ObtainQuantity(unit)` without a category, string unit -/
def obtainDefault (db : Db) (u : Sym) : Except ErrKind Qty := obtainDefaultC db u .none

/-- `ObtainQuantity` with a list/tuple unit: `len(unit) == 1 and unit[0][1] == 1` can only fail or
be false for the items considered here, and the other branch asserts a list/tuple category -/
def obtainSeqErr : List Atom → ErrKind
  | [.none] => .type
  | [.num _ _] => .type
  | [.big _ _] => .type
  | [.bool _] => .type
  | [.npint _] => .index                         -- "invalid index to scalar variable"
  | [.str s _] => if (Sym.bytes s).length < 2 then .index else .assertion
  | _ => .assertion

/-- `ObtainQuantity` with a unit that is not a string: "unit is given by the category" -/
def obtainNonStrC (db : Db) (category cap : Atom) : Except ErrKind Qty :=
  match category with
  | .none => .error .assertion
  | c =>
    match getCategoryInfo db c with            -- GetDefaultUnit
    | .error e => .error e
    | .ok ci => newQuantityC db c ci.defaultUnit cap

def obtainNonStr (db : Db) (category : Atom) : Except ErrKind Qty := obtainNonStrC db category .none

/-- `ObtainQuantity(unit, category, caption)` once the unit is a plain value (every atom is hashable,
so the cache key `(category, unit, caption)` can be built) -/
def obtainAtomC (db : Db) (unit category cap : Atom) : Except ErrKind Qty :=
  match unit with
  | .str u _ =>
    match category with
    | .none => obtainDefaultC db u cap
    | c => newQuantityC db c u cap
  | _ => obtainNonStrC db category cap

def obtainAtom (db : Db) (unit category : Atom) : Except ErrKind Qty := obtainAtomC db unit category .none

/-- `ObtainQuantity` with a list/tuple of tuples as unit (the "composing units" form
`[(unit, exponent), …]`): a single pair with exponent 1 is "a simple case" and stands for its first
component; anything else needs a list/tuple category, which the constructors never pass -/
def obtainRowsC (db : Db) (rows : List (List Atom)) (category cap : Atom) : Except ErrKind Qty :=
  match rows with
  | [row] =>
    match row with
    | a :: b :: _ => if atomEq b (.num 1 false) then obtainAtomC db a category cap else .error .assertion
    | _ => .error .index                         -- `unit[0][1]`
  | _ => .error .assertion

def obtainRows (db : Db) (rows : List (List Atom)) (category : Atom) : Except ErrKind Qty :=
  obtainRowsC db rows category .none

/-- `ObtainQuantity(unit, category, unknown_unit_caption)` (the caption is `None`, a string or a
number) -/
def obtainQuantityC (db : Db) (unit : PyVal) (category cap : Atom) : Except ErrKind Qty :=
  match unit with
  | .seq .list items => .error (obtainSeqErr items)
  | .seq .tuple items => .error (obtainSeqErr items)
  | .rows .list rows => obtainRowsC db rows category cap
  | .rows .tuple rows => obtainRowsC db rows category cap
  | .nest .list rows => obtainRowsC db (rows.map (·.2)) category cap     -- indexing a list row is indexing a tuple row
  | .nest .tuple rows => obtainRowsC db (rows.map (·.2)) category cap
  | .atom a => obtainAtomC db a category cap
  | v => if !v.hashable then .error .type       -- the cache key
         else obtainNonStrC db category cap

/-- `ObtainQuantity(unit, category)` -/
def obtainQuantity (db : Db) (unit : PyVal) (category : Atom) : Except ErrKind Qty :=
  obtainQuantityC db unit category .none

/-- the checks `ObtainQuantity` makes for a dict of composing units (on a miss of the cache; a hit
replays an earlier success): every category is registered (`GetCategoryQuantityType`) and its unit
belongs to its quantity type (`CheckQuantityTypeUnit`) -/
def checkItems (db : Db) : List (Sym × Sym × Int) → Except ErrKind Unit
  | [] => .ok ()
  | (c, u, _) :: rest =>
    match db.catByName c with
    | Option.none => .error .units
    | some ci =>
      match db.checkQuantityTypeUnit ci.qtype u with
      | .error e => .error e
      | .ok () => checkItems db rest

/-- one entry with exponent 1: "Although passed as composing, it's a simple case" -/
def simpleItem : List (Sym × Sym × Int) → Option (Sym × Sym)
  | [(c, u, e)] => if e == 1 then some (c, u) else Option.none
  | _ => Option.none

/-- `ObtainQuantity(OrderedDict((category, [unit, exponent]) …), None, caption)`: a single entry with
exponent 1 is the simple quantity of that category and unit; anything else (no entry at all
included: `Quantity.CreateEmpty()`) is a derived quantity, whose caption `Quantity.__init__` looks at
after the checks -/
def obtainDict (db : Db) (items : List (Sym × Sym × Int)) (cap : Atom) : Except ErrKind Qty :=
  match simpleItem items with
  | some (c, u) => newQuantityC db (.str c Option.none) u cap
  | Option.none =>
    match checkItems db items with
    | .error e => .error e
    | .ok () =>
      match capOf cap with
      | .error e => .error e
      | .ok cp => .ok ⟨0, 0, cp, some items⟩

/-- `OrderedDict[c] = (u, e)`: a new key goes to the end, an existing key keeps its place -/
def odictSet : List (Sym × Sym × Int) → Sym → Sym → Int → List (Sym × Sym × Int)
  | [], c, u, e => [(c, u, e)]
  | (c', u', e') :: rest, c, u, e =>
    if c' == c then (c, u, e) :: rest else (c', u', e') :: odictSet rest c u e

/-- `OrderedDict((cat, unit_and_exp) for (cat, unit_and_exp) in zip(category, unit))` -/
def odictZip (cats : List Sym) (pairs : List (Sym × Int)) : List (Sym × Sym × Int) :=
  (cats.zip pairs).foldl (fun d (x : Sym × Sym × Int) => odictSet d x.1 x.2.1 x.2.2) []

/-- `ObtainQuantity([(unit, exponent), …], [category, …], caption)` — unit a list or tuple of pairs,
category a list or tuple of names: one pair with exponent 1 is "a simple case" (`unit[0][0]` with
`category[0]`, an `IndexError` when there is none); anything else is zipped into an `OrderedDict` and
goes the way of a dict of composing units (which may again turn out to be a simple case) -/
def obtainPairs (db : Db) (pairs : List (Sym × Int)) (cats : List Sym) (cap : Atom) : Except ErrKind Qty :=
  match pairs with
  | [(u, e)] =>
    if e == 1 then
      match cats with
      | c :: _ => newQuantityC db (.str c Option.none) u cap
      | [] => .error .index
    else obtainDict db (odictZip cats pairs) cap
  | _ => obtainDict db (odictZip cats pairs) cap

/-- `if unknown_caption:` -/
def Atom.truthyStr : Atom → Bool
  | .str s _ => s != 0
  | _ => false

/-- `units.GetUnknownQuantity(unknown_caption)` (caption `None` or a string): with a non-empty
caption `ObtainQuantity('<unknown>', 'Unknown', caption)`, otherwise the module constant
`UNKNOWN_QUANTITY = ObtainQuantity('<unknown>', 'Unknown')` -/
def unknownQuantity (db : Db) (cap : Atom) : Except ErrKind Qty :=
  if cap.truthyStr then obtainQuantityC db (.atom (.str unknownUnit Option.none)) (.str unknownQType Option.none) cap
  else obtainQuantity db (.atom (.str unknownUnit Option.none)) (.str unknownQType Option.none)

/-- `Quantity.ConvertScalarValue(value, to_unit)` of the simple quantity `q` of type `qt` -/
def convertScalarValue (db : Db) (q : Qty) (qt : Sym) (x : Rat) (toUnit : PyVal) : Except ErrKind Rat :=
  match strEqTruth q.unit toUnit with
  | .error e => .error e
  | .ok true => .ok x
  | .ok false =>
    match toUnit with
    | .atom (.str u _) =>
      match db.getInfo qt u true with
      | .error e => .error e
      | .ok other =>
        match db.getInfo qt q.unit true with     -- `_tobase`, looked up when `q` was built
        | .error e => .error e
        | .ok this => convRows this other x
    | v =>
      -- `GetInfo` with a key that is no string: unhashable → TypeError; otherwise nothing matches
      -- and only the "unknown" fallback can answer
      if !v.hashable then .error .type
      else if !db.hasType (db.resolveQt qt) then .error .units
      else
        match db.infoUnknown (db.resolveQt qt) true with
        | Option.none => .error .units
        | some other =>
          match db.getInfo qt q.unit true with
          | .error e => .error e
          | .ok this => convRows this other x

/-! ### objects -/

inductive Cls
  | scalar
  | array
  /-- `FixedArray(dimension, …)` -/
  | fixed (dim : Int)
  | fraction
deriving DecidableEq, Repr

inductive Val
  | scalar (v : Rat)
  | fraction (number frac : Rat)
  | arr (v : PyVal)
  | fixed (v : PyVal) (dim : Int)
deriving DecidableEq, Repr

structure Obj where
  q : Qty
  val : Val
deriving DecidableEq, Repr

/-- `Scalar._GetDefaultValue` / `FractionScalar._GetDefaultValue` (a number) -/
def defaultNumber (db : Db) (ci : CatRow) (unit : PyVal) : Except ErrKind Rat :=
  if unit.isNone then .ok ci.defaultValue else
  match obtainQuantity db (.str ci.defaultUnit) (.str ci.name Option.none) with
  | .error e => .error e
  | .ok q => convertScalarValue db q ci.qtype ci.defaultValue unit

/-- `self._GetDefaultValue(category_info, unit)` -/
def defaultValue (db : Db) (cls : Cls) (ci : CatRow) (unit : PyVal) : Except ErrKind PyVal :=
  match cls with
  | .array => .ok (.seq .list [])
  | .fixed d => .ok (.seq .list (List.replicate d.toNat (.num 0 false)))
  | _ =>
    match defaultNumber db ci unit with
    | .ok x => .ok (.num x)
    | .error e => .error e

/-- `quantity.GetCategoryInfo()` of a simple quantity -/
def qtyInfo (db : Db) (q : Qty) : Except ErrKind CatRow :=
  match db.catByName q.cat with
  | some ci => .ok ci
  | Option.none => .error .other

/-- `Scalar._GetDefaultValue(quantity.GetCategoryInfo())`: a derived quantity has no category info
(`None`), and `except AttributeError: return 0.0` -/
def scalarDefaultOf (db : Db) (q : Qty) : Except ErrKind Rat :=
  if q.isDerived then .ok 0 else
  match qtyInfo db q with
  | .ok ci => .ok ci.defaultValue
  | .error e => .error e

/-- `Scalar._InternalCreateWithQuantity(quantity, value)` -/
def scalarInternal (db : Db) (q : Qty) (value : PyVal) : Except ErrKind Obj :=
  if value.isNone then
    match scalarDefaultOf db q with
    | .ok x => .ok ⟨q, .scalar x⟩
    | .error e => .error e
  else
    match pyFloat value with
    | .ok x => .ok ⟨q, .scalar x⟩
    | .error e => .error e

/-- `FractionScalar._InternalCreateWithQuantity`: a `FractionValue` is kept, anything else must
convert to float (`CheckType` turns every failure into a `TypeError`) -/
def fractionInternal (q : Qty) (value : PyVal) : Except ErrKind Obj :=
  match value with
  | .fv n f => .ok ⟨q, .fraction n f⟩
  | v =>
    match pyFloat v with
    | .ok x => .ok ⟨q, .fraction x 0⟩
    | .error _ => .error .type

/-- the `values`/`value` pair of the array classes -/
def pickValues (values value : PyVal) : Except ErrKind PyVal :=
  if !value.isNone then
    if !values.isNone then .error .value else .ok value
  else if values.isNone then .error .assertion
  else .ok values

/-- `Array._InternalCreateWithQuantity(quantity, values, value=…)` -/
def arrayInternal (q : Qty) (values value : PyVal) : Except ErrKind Obj :=
  match pickValues values value with
  | .ok v => .ok ⟨q, .arr v⟩
  | .error e => .error e

/-- `CheckValues` -/
def checkValues (v : PyVal) (d : Int) : Except ErrKind Unit :=
  match pyLen v with
  | .error e => .error e
  | .ok n => if n != d then .error .value else .ok ()

/-- the dimension `FixedArray._InternalCreateWithQuantity` works with: the keyword, else the one
set by `__init__`, else `len(values)` -/
def fixedDimension (v : PyVal) (selfDim dimKw : Option Int) : Except ErrKind Int :=
  match dimKw with
  | some d =>
    match selfDim with
    | some sd => if d != sd then .error .value else .ok d
    | Option.none => .ok d
  | Option.none =>
    match selfDim with
    | some sd => .ok sd
    | Option.none => pyLen v

/-- `FixedArray._InternalCreateWithQuantity(quantity, values, dimension=…, value=…)` on an object
whose `_dimension` attribute is `selfDim` -/
def fixedInternal (q : Qty) (values value : PyVal) (selfDim dimKw : Option Int) : Except ErrKind Obj :=
  match pickValues values value with
  | .error e => .error e
  | .ok v =>
    match fixedDimension v selfDim dimKw with
    | .error e => .error e
    | .ok d =>
      if d < 2 then .error .value else
      match checkValues v d with
      | .error e => .error e
      | .ok () => .ok ⟨q, .fixed v d⟩

/-- `self._InternalCreateWithQuantity(quantity, value, unit_database)` as `__init__` calls it -/
def internalCreate (db : Db) (cls : Cls) (q : Qty) (value : PyVal) : Except ErrKind Obj :=
  match cls with
  | .scalar => scalarInternal db q value
  | .fraction => fractionInternal q value
  | .array => arrayInternal q value .none
  | .fixed d => fixedInternal q value .none (some d) Option.none

/-- `cls.CreateWithQuantity(quantity, a2)` / `(quantity, value=a2)` / `(…, dimension=d)`: the
method runs on a stub whose `_dimension` is the class attribute `None`; only FixedArray's method has
a `dimension` parameter (an unexpected keyword is a `TypeError`) -/
def createWithQuantity (db : Db) (cls : Cls) (q : Qty) (a2 : PyVal) (kw : Bool) (dimKw : Option Int) :
    Except ErrKind Obj :=
  match cls with
  | .scalar => if dimKw.isSome then .error .type else scalarInternal db q a2
  | .fraction => if dimKw.isSome then .error .type else fractionInternal q a2
  | .array =>
    if dimKw.isSome then .error .type
    else if kw then arrayInternal q .none a2 else arrayInternal q a2 .none
  | .fixed _ =>
    if kw then fixedInternal q .none a2 Option.none dimKw else fixedInternal q a2 .none Option.none dimKw

/-- `cls.CreateWithQuantity(quantity, a2, value=a3)`: the value given positionally AND by keyword.
Scalar's and FractionScalar's method call their second parameter `value` ("got multiple values for
argument 'value'": `TypeError`); the array classes have both `values` and `value` and refuse two
values ("Duplicated values parameter given") -/
def createWithQuantityBoth (cls : Cls) (q : Qty) (a2 : PyVal) (a3 : Atom) (dimKw : Option Int) :
    Except ErrKind Obj :=
  match cls with
  | .scalar => .error .type
  | .fraction => .error .type
  | .array => if dimKw.isSome then .error .type else arrayInternal q a2 (.atom a3)
  | .fixed _ => fixedInternal q a2 (.atom a3) Option.none dimKw

/-- what every documented form is meant to amount to for a quantity `q` and a value `x`:
FixedArray's dimension check, then `_InternalCreateWithQuantity(q, x)` (specification helper: the
theorems of C19 state that each form computes exactly this) -/
def create (db : Db) (cls : Cls) (q : Qty) (x : PyVal) : Except ErrKind Obj :=
  match cls with
  | .fixed d => if d < 2 then .error .value else internalCreate db (.fixed d) q x
  | c => internalCreate db c q x

/-- `x` can stand in the value position of every form of class `cls`: not `None`, not a string
(a leading string is read as the category), not a Quantity, and for Scalar not a tuple (the
`(value, unit)` form) -/
def PyVal.isValueFor (cls : Cls) : PyVal → Bool
  | .atom .none => false
  | .atom (.str _ _) => false
  | .qty _ => false
  | .seq .tuple _ => cls != .scalar
  | .rows .tuple _ => cls != .scalar
  | .nest .tuple _ => cls != .scalar
  | _ => true

/-- "Support for creating a scalar as Scalar(10, 'm') / Scalar(10, 'm', 'length')": the arguments
after the swap, as (category, value, unit) -/
def juggle (category value : PyVal) (unit : Atom) : Atom × PyVal × PyVal :=
  match category with
  | .atom (.str c f) => (.str c f, value, .atom unit)
  | v => (unit, v, value)

/-- the non-Quantity branch of the shared `__init__` after the swap -/
def initNamed (db : Db) (cls : Cls) (category : Atom) (value unit : PyVal) : Except ErrKind Obj :=
  if value.isNone then
    match getCategoryInfo db category with
    | .error e => .error e
    | .ok ci =>
      match defaultValue db cls ci unit with
      | .error e => .error e
      | .ok v =>
        -- `default_unit` of a registered category is never `None` (AddCategory falls back to the
        -- base unit), so the `assert unit is not None` cannot fire
        match obtainQuantity db (if unit.isNone then .str ci.defaultUnit else unit) category with
        | .error e => .error e
        | .ok q => internalCreate db cls q v
  else if unit.isNone then .error .assertion     -- "the unit must be specified too"
  else
    match obtainQuantity db unit category with
    | .error e => .error e
    | .ok q => internalCreate db cls q value

/-- `self._GetDefaultValue(quantity.GetCategoryInfo())`: the category info of a derived quantity is
`None`, which only FractionScalar's method trips over (`AttributeError`) -/
def defaultOfQuantity (db : Db) (cls : Cls) (q : Qty) : Except ErrKind PyVal :=
  if q.isDerived then
    match cls with
    | .scalar => .ok (.num 0)
    | .fraction => .error .other
    | .array => .ok (.seq .list [])
    | .fixed d => .ok (.seq .list (List.replicate d.toNat (.num 0 false)))
  else
    match qtyInfo db q with
    | .error e => .error e
    | .ok ci => defaultValue db cls ci .none

/-- the Quantity-first branch of the shared `__init__`: the object is built on the very quantity
that was given -/
def initQuantity (db : Db) (cls : Cls) (q : Qty) (value : PyVal) (unit : Atom) : Except ErrKind Obj :=
  if !unit.isNone then .error .assertion else
  if value.isNone then
    match defaultOfQuantity db cls q with
    | .error e => .error e
    | .ok v => internalCreate db cls q v
  else internalCreate db cls q value

/-- `AbstractValueWithQuantityObject.__init__(self, category, value, unit)` -/
def abstractInit (db : Db) (cls : Cls) (category value : PyVal) (unit : Atom) : Except ErrKind Obj :=
  match category with
  | .qty q => initQuantity db cls q value unit
  | c =>
    match juggle c value unit with
    | (cat, v, u) => initNamed db cls cat v u

/-- `Scalar.__init__`: the `(value, unit)` tuple form first -/
def scalarTupleForm (db : Db) (items : List PyVal) (value : PyVal) (unit : Atom) : Except ErrKind Obj :=
  if !(value.isNone && unit.isNone) then .error .assertion else
  match items with
  | [a, b] => abstractInit db .scalar a b .none
  | _ => .error .value                           -- tuple unpacking

def scalarInit (db : Db) (category value : PyVal) (unit : Atom) : Except ErrKind Obj :=
  match category with
  | .seq .tuple items => scalarTupleForm db (items.map PyVal.atom) value unit
  | .rows .tuple rows => scalarTupleForm db (rows.map (PyVal.seq .tuple)) value unit
  | .nest .tuple rows =>
    scalarTupleForm db (rows.map (fun r => PyVal.seq (if r.1 then .list else .tuple) r.2)) value unit
  | c => abstractInit db .scalar c value unit

/-- `Cls(a1, a2, a3)` (positional or by keyword: the parameters are the same) -/
def construct (db : Db) (cls : Cls) (a1 a2 : PyVal) (a3 : Atom) : Except ErrKind Obj :=
  match cls with
  | .scalar => scalarInit db a1 a2 a3
  | .fixed d => if d < 2 then .error .value else abstractInit db (.fixed d) a1 a2 a3
  | c => abstractInit db c a1 a2 a3

/-! ### equality -/

/-- `Array.__eq__(self, other)` once `other` is known to be an Array; the two quantities are compared
after the values (the clause `self.unit == other.unit` that follows adds nothing: `GetUnit()` is a
function of the composing map) -/
def arrayEq (q1 : Qty) (v1 : PyVal) (q2 : Qty) (v2 : PyVal) : Except ErrKind Bool :=
  match pyTuple v1 with
  | .error e => .error e
  | .ok t1 =>
    match pyTuple v2 with
    | .error e => .error e
    | .ok t2 => .ok (elemsEq t1 t2 && q1.pyEq q2)

/-- `a == b` for two value objects.  `FixedArray` is a subclass of `Array` that overrides `__eq__`,
so for `Array == FixedArray` Python asks the FixedArray first (and gets `False`). -/
def Obj.eq (a b : Obj) : Except ErrKind Bool :=
  match a.val, b.val with
  | .scalar x, .scalar y => .ok (x == y && a.q.pyEq b.q)
  | .fraction n f, .fraction m g => .ok (n == m && f == g && a.q.pyEq b.q)
  | .arr v, .arr w => arrayEq a.q v b.q w
  | .fixed v d, .fixed w e =>
    match arrayEq a.q v b.q w with
    | .error err => .error err
    | .ok r => .ok (r && d == e)
  | _, _ => .ok false

/-! ### repr and reading it back -/

def quote : Nat := 39
def backslash : Nat := 92

/-- the text of a `'…'` literal as `Scalar.__repr__` writes it: no escaping at all -/
def quoteLit (s : List Nat) : List Nat := quote :: (s ++ [quote])

/-- reads the rest of a single-quoted literal that must end the text: the characters up to the
closing quote.  A backslash starts an escape sequence, a line break ends the line: both are outside
of what this reader accepts. -/
def parseLitBody : List Nat → Option (List Nat)
  | [] => Option.none
  | c :: cs =>
    if c == quote then (if cs.isEmpty then some [] else Option.none)
    else if c == backslash || c == 10 || c == 13 then Option.none
    else (parseLitBody cs).map (c :: ·)

def parseLit : List Nat → Option (List Nat)
  | [] => Option.none
  | c :: cs => if c == quote then parseLitBody cs else Option.none

/-- no quote, backslash or line break among the bytes -/
def plainBytes (s : List Nat) : Bool :=
  s.all (fun c => !(c == quote || c == backslash || c == 10 || c == 13))

def litOk (s : Sym) : Bool := plainBytes (Sym.bytes s)

/-- `repr(scalar)`: the value and the two literals (the number is printed by Python's `repr` of a
float, which `eval` reads back exactly: trusted) -/
structure ScalarRepr where
  value : Rat
  unitLit : List Nat
  catLit : List Nat
deriving DecidableEq, Repr

def scalarRepr (q : Qty) (v : Rat) : ScalarRepr :=
  ⟨v, quoteLit (Sym.bytes q.unit), quoteLit (Sym.bytes q.cat)⟩

/-- `eval(text, {"Scalar": Scalar})`; a literal that does not read back is a `SyntaxError` (or an
object built from other strings, which is not modelled: `.other`) -/
def evalScalarRepr (db : Db) (r : ScalarRepr) : Except ErrKind Obj :=
  match parseLit r.unitLit, parseLit r.catLit with
  | some u, some c =>
    construct db .scalar (.num r.value) (.str (Sym.ofBytes u)) (.str (Sym.ofBytes c) Option.none)
  | _, _ => .error .other

/-- `eval(repr(o))` for a Scalar with a simple quantity (the text shows unit and category, never
the caption) -/
def reprBack (db : Db) (o : Obj) : Option (Except ErrKind Obj) :=
  if o.q.isDerived then Option.none else
  match o.val with
  | .scalar v => some (evalScalarRepr db (scalarRepr o.q v))
  | _ => Option.none

/-! ### the class methods for objects without unit -/

/-- `Scalar.CreateEmptyScalar(value)`, `Array.CreateEmptyArray(values)`,
`FixedArray.CreateEmptyArray(dimension, values)`: `CreateWithQuantity(Quantity.CreateEmpty(), …)` with
the value passed by keyword (`values=None` stands for `[]`, resp. `[0.0] * dimension`);
FractionScalar has no such method (`AttributeError`) -/
def createEmpty (db : Db) (cls : Cls) (v : PyVal) : Except ErrKind Obj :=
  match cls with
  | .scalar => scalarInternal db Qty.empty v
  | .array => arrayInternal Qty.empty (if v.isNone then .seq .list [] else v) .none
  | .fixed d =>
    fixedInternal Qty.empty (if v.isNone then .seq .list (List.replicate d.toNat (.num 0 false)) else v) .none
      Option.none (some d)
  | .fraction => .error .other

/-! ### construction calls as data, and histories on a private database -/

/-- an argument expression of a construction call: a plain value, or a call that obtains a Quantity
from the current database (evaluating it may raise) -/
inductive QExpr
  | val (v : PyVal)
  /-- `ObtainQuantity(unit, category, caption)` -/
  | oq (unit : PyVal) (category cap : Atom)
  /-- `ObtainQuantity(OrderedDict(…), None, caption)` -/
  | dq (items : List (Sym × Sym × Int)) (cap : Atom)
  /-- `units.GetUnknownQuantity(caption)` -/
  | unk (cap : Atom)
  /-- `ObtainQuantity([(unit, exponent), …], [category, …], caption)` -/
  | oql (pairs : List (Sym × Int)) (cats : List Sym) (cap : Atom)
  /-- `Quantity(category, unit, caption)` -/
  | nq (category unit cap : Atom)
deriving DecidableEq, Repr

def QExpr.eval (db : Db) : QExpr → Except ErrKind PyVal
  | .val v => .ok v
  | .oq u c cap =>
    match obtainQuantityC db u c cap with
    | .ok q => .ok (.qty q)
    | .error e => .error e
  | .dq items cap =>
    match obtainDict db items cap with
    | .ok q => .ok (.qty q)
    | .error e => .error e
  | .unk cap =>
    match unknownQuantity db cap with
    | .ok q => .ok (.qty q)
    | .error e => .error e
  | .oql pairs cats cap =>
    match obtainPairs db pairs cats cap with
    | .ok q => .ok (.qty q)
    | .error e => .error e
  | .nq c u cap =>
    match quantityInit db c u cap with
    | .ok q => .ok (.qty q)
    | .error e => .error e

inductive CallKind
  /-- `Cls(a1, a2, a3)` -/
  | ctor
  /-- `Cls.CreateWithQuantity(a1, a2)` / `(a1, value=a2)` / `(…, dimension=d)` -/
  | cwq
  /-- `Cls.CreateEmptyScalar(a1)` / `Cls.CreateEmptyArray([dimension,] a1)` -/
  | empty
  /-- `Cls.CreateWithQuantity(a1, a2, value=a3)` / `(…, dimension=d)` -/
  | cwq2
deriving DecidableEq, Repr

structure Call where
  kind : CallKind
  cls : Cls
  a1 : QExpr
  a2 : QExpr
  a3 : Atom
  kw : Bool
  dimKw : Option Int
deriving DecidableEq, Repr

/-- one construction call on the database as it is now: the arguments are evaluated left to right,
then the class is called.  `none`: not modelled (`CreateWithQuantity` on something that is no
Quantity). -/
def runCall (db : Db) (f : Call) : Option (Except ErrKind Obj) :=
  match f.a1.eval db with
  | .error e => some (.error e)
  | .ok a1 =>
    match f.a2.eval db with
    | .error e => some (.error e)
    | .ok a2 =>
      match f.kind with
      | .ctor => some (construct db f.cls a1 a2 f.a3)
      | .empty => some (createEmpty db f.cls a1)
      | .cwq =>
        match a1 with
        | .qty q => some (createWithQuantity db f.cls q a2 f.kw f.dimKw)
        | _ => Option.none
      | .cwq2 =>
        match a1 with
        | .qty q => some (createWithQuantityBoth f.cls q a2 f.a3 f.dimKw)
        | _ => Option.none

/-! ### what a caller does with the container an object handed out -/

/-- an in-place operation on the container `GetValues()` / `.values` returned (it IS the stored
container: the caller owns it as much as the object does) -/
inductive Mut
  /-- `values.append(x)` -/
  | append (x : Atom)
  /-- `values.extend(xs)` / `values += xs` -/
  | extend (xs : List Atom)
  /-- `values[i] = x` (0 ≤ i) -/
  | setItem (i : Nat) (x : Atom)
  /-- `values *= k` on an ndarray, `k` a power of two (exact in doubles) -/
  | scale (k : Rat)
deriving DecidableEq, Repr

def scaleAtom (k : Rat) : Atom → Atom
  | .num q _ => .num (q * k) false
  | a => a

/-- the container after the operation (`none`: a combination the histories do not contain); a tuple
has no `append`/`extend` (`AttributeError`) and no item assignment (`TypeError`), neither has an
ndarray `append`/`extend` -/
def applyMut (v : PyVal) : Mut → Option (Except ErrKind PyVal)
  | .append x =>
    match v with
    | .seq .list items => some (.ok (.seq .list (items ++ [x])))
    | .seq _ _ => some (.error .other)
    | _ => Option.none
  | .extend xs =>
    match v with
    | .seq .list items => some (.ok (.seq .list (items ++ xs)))
    | .seq .tuple _ => some (.error .other)
    | _ => Option.none
  | .setItem i x =>
    match v with
    | .seq .list items => some (if i < items.length then .ok (.seq .list (items.set i x)) else .error .index)
    | .seq .tuple _ => some (.error .type)
    | .seq .nda items =>
      match x with
      | .num q _ => some (if i < items.length then .ok (.seq .nda (items.set i (.num q false))) else .error .index)
      | _ => Option.none
    | _ => Option.none
  | .scale k =>
    match v with
    | .seq .nda items => some (.ok (.seq .nda (items.map (scaleAtom k))))
    | _ => Option.none

/-- the object after the operation on the container it handed out: only that object's values change
(an appended FixedArray keeps its dimension attribute) -/
def Obj.mutate (o : Obj) (m : Mut) : Option (Except ErrKind Obj) :=
  match o.val with
  | .arr v =>
    match applyMut v m with
    | some (.ok v') => some (.ok ⟨o.q, .arr v'⟩)
    | some (.error e) => some (.error e)
    | Option.none => Option.none
  | .fixed v d =>
    match applyMut v m with
    | some (.ok v') => some (.ok ⟨o.q, .fixed v' d⟩)
    | some (.error e) => some (.error e)
    | Option.none => Option.none
  | _ => Option.none

/-- the operations one after the other; the first that raises ends the sequence -/
def mutAll (o : Obj) : List Mut → Option (Except ErrKind Obj)
  | [] => some (.ok o)
  | m :: ms =>
    match o.mutate m with
    | some (.ok o') => mutAll o' ms
    | other => other

/-- the database a registry is: the rows in the iteration order of `quantity_types`, the categories
in registration order (the flat view the translator reads off a real database) -/
def dbOf (lg : List (Sym × Sym)) (r : Reg.Registry) : Db := ⟨r.allRows, r.cats, lg⟩

/-- one step of a history on a private database: a registration, a `GetDefaultCategory(unit)`
question, or a group of construction calls -/
inductive HOp
  | reg (op : Reg.RegOp)
  | defcat (u : Sym)
  | calls (cs : List Call)
  /-- build an object, then operate in place on the container it hands out -/
  | mut (c : Call) (ms : List Mut)
deriving DecidableEq, Repr

inductive HOut
  | reg (o : Except ErrKind Reg.Out)
  | defcat (r : Except ErrKind (Option Sym))
  | calls (rs : List (Option (Except ErrKind Obj)))
  /-- the object as built, and as it is after the operations -/
  | mut (built after : Option (Except ErrKind Obj))
deriving DecidableEq, Repr

def HOp.isQuery : HOp → Bool
  | .reg _ => false
  | _ => true

/-- questions and construction calls read the registry as it is and leave it alone; so does whatever
a caller does to the containers of the objects it built: the only state a construction reads is the
registry (no default container is shared between objects) -/
def hstep (lg : List (Sym × Sym)) (r : Reg.Registry) : HOp → Reg.Registry × HOut
  | .reg op => ((Reg.step lg r op).1, .reg (Reg.step lg r op).2)
  | .defcat u => (r, .defcat (getDefaultCategory (dbOf lg r) u))
  | .calls cs => (r, .calls (cs.map (runCall (dbOf lg r))))
  | .mut c ms =>
    (r, .mut (runCall (dbOf lg r) c)
      (match runCall (dbOf lg r) c with
       | some (.ok o) => mutAll o ms
       | _ => Option.none))

def hrun (lg : List (Sym × Sym)) (r : Reg.Registry) : List HOp → Reg.Registry
  | [] => r
  | op :: ops => hrun lg (hstep lg r op).1 ops

def houts (lg : List (Sym × Sym)) (r : Reg.Registry) : List HOp → List HOut
  | [] => []
  | op :: ops => (hstep lg r op).2 :: houts lg (hstep lg r op).1 ops

/-- the registrations of a history -/
def regsOf : List HOp → List Reg.RegOp
  | [] => []
  | .reg op :: ops => op :: regsOf ops
  | _ :: ops => regsOf ops

end Barril.Ctor

namespace Barril
open Barril.Ctor

/-! ### row predicates for the generated table theorems -/

/-- `Db.catByName` on the bare list, written with `Nat.beq` and `bif` so that `decide +kernel` over
1500 rows stays cheap (`Ctor.fastCat_eq`: it is the same function) -/
def fastCat (c : Sym) : List CatRow → Option CatRow
  | [] => Option.none
  | x :: xs => bif Nat.beq x.name c then some x else fastCat c xs

/-- `Db.unitBySym` on the bare list (`Ctor.fastUnit_eq`) -/
def fastUnit (u : Sym) : List UnitRow → Option UnitRow
  | [] => Option.none
  | x :: xs => bif Nat.beq x.sym u then some x else fastUnit u xs

/-- the row's default category — its own `default_category` entry, else its quantity type — is a
non-empty name of a registered category whose quantity type is the row's.  (That is what makes
`GetDefaultCategory(unit)` resolve and `Quantity(category, unit)` succeed:
`Ctor.defaultCatOk_spec`, `Ctor.newQuantity_of_row`.) -/
def UnitRow.defaultCatOk (db : Db) (r : UnitRow) : Bool :=
  let c := bif Nat.beq r.defaultCat 0 then r.qtype else r.defaultCat
  !(Nat.beq c 0)
  && (match fastCat c db.cats with
      | some ci => Nat.beq ci.qtype r.qtype
      | Option.none => false)

/-- the category's default unit is a registered unit of the category's quantity type -/
def CatRow.defaultUnitOk (db : Db) (c : CatRow) : Bool :=
  match fastUnit c.defaultUnit db.units with
  | some r => Nat.beq r.qtype c.qtype
  | Option.none => false

/-- the unit symbol needs no escaping inside a `'…'` literal -/
def UnitRow.symPlain (r : UnitRow) : Bool := litOk r.sym

/-- the category name needs no escaping inside a `'…'` literal -/
def CatRow.namePlain (c : CatRow) : Bool := litOk c.name

end Barril
