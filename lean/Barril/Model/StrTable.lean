/-
C20: a fact about the shipped unit table that the unit-name string of a derived quantity relies on.
`Quantity.GetUnitName` adds up the exponents per registered unit *name*; two different units that carry the same
name would be rendered as one factor.  Inside one quantity type the table does register aliases under one name
(`Ci` / `curie`, `Ma` / `MY`, ...), and arithmetic keeps one unit per quantity type; across quantity types a
shared name would merge two different factors (`pS` picosiemens / `ps` picosecond).  Core Lean only.
-/
import Barril.Model.Basic

namespace Barril

/-- every row of the database that carries this row's registered name belongs to this row's quantity type -/
def UnitRow.nameOwnType (db : Db) (r : UnitRow) : Bool :=
  db.units.all (fun r' => r'.name != r.name || r'.qtype == r.qtype)

end Barril
