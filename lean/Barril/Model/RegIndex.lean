/-
C14 on the shipped POSC table, evaluated through the search-tree index of the unit rows (`CTree`, see
`Model/CompoundIndex.lean`) instead of list scans: the per-category predicate below is what the generated
`decide +kernel` theorem checks; `Proofs/RegIndexLemmas.lean` shows that it implies the list-based clauses
of `DbRegInv`, so nothing about the index is trusted.
-/
import Barril.Model.RegTable
import Barril.Model.CompoundIndex

namespace Barril
open Barril.Reg

/-- the symbol is registered, under that quantity type (one tree lookup) -/
def inTypeT (t : CTree) (qt u : Sym) : Bool :=
  match t.find u with
  | some c => c.qtype == qt
  | none => false

/-- `CatRow.regOk` with the unit lookups done through the index -/
def CatRow.regOkT (t : CTree) (bases : List (Sym × CRow)) (db : Db) (c : CatRow) : Bool :=
  db.catByName c.name == some c
  && (lookB c.qtype bases).isSome
  && inTypeT t c.qtype c.defaultUnit
  && (match c.validUnits with
      | none => true
      | some vu => vu.all (inTypeT t c.qtype))
  && minOk c.minV c.minExcl c.defaultValue
  && maxOk c.maxV c.maxExcl c.defaultValue

end Barril
