/-
C04 (first clause, "the exponent per quantity type"): what a quantity REPORTS as its quantity type.  Core Lean only.

Modelled after the derived branch of `Quantity.__init__` (src/barril/units/_quantity.py):

    rep_and_exp = OrderedDict()
    for category, (_unit, exp) in self._category_to_unit_and_exps.items():
        quantity_type = unit_database.GetCategoryQuantityType(category)
        existing = rep_and_exp.get(quantity_type, 0)
        rep_and_exp[quantity_type] = existing + exp
    self._quantity_type = self._MakeStr(list(rep_and_exp.items()))

`typeExps` is `rep_and_exp` (the accumulation is the same `OrderedDict` loop as `addJoined`); `_MakeStr` writes the
entries with a positive exponent before the one ` / ` and those with a negative exponent after it and writes no
entry whose exponent is 0 (`Barril/Model/StrRender.lean`, `makeStr`; C20 proves that layout), so the dimension
vector read back from `GetQuantityType()` is `reportedTypes`.  For a simple quantity the quantity type is
`GetCategoryQuantityType(category)` itself: the same list with its one entry `(type, 1)`.
-/
import Barril.Model.Alg

namespace Barril.Alg
open Barril

/-- the loop over `_category_to_unit_and_exps.items()`; fails where `GetCategoryQuantityType` fails -/
def typeExpsFrom (db : Db) (acc : List (Sym × Int)) : List Entry → Except ErrKind (List (Sym × Int))
  | [] => .ok acc
  | e :: es =>
    match catQType db e.cat with
    | .error err => .error err
    | .ok qt => typeExpsFrom db (addJoined qt e.exp acc) es

/-- `rep_and_exp` of the derived branch of `Quantity.__init__` -/
def typeExps (db : Db) (es : List Entry) : Except ErrKind (List (Sym × Int)) := typeExpsFrom db [] es

/-- the exponent a `rep_and_exp` list holds for a quantity type (`0`: not listed) -/
def expOf (qt : Sym) : List (Sym × Int) → Int
  | [] => 0
  | (k, e) :: rest => if k == qt then e else expOf qt rest

/-- the factors `_MakeStr` writes: the entries whose exponent is not 0 -/
def reportedTypes (db : Db) (es : List Entry) : Except ErrKind (List (Sym × Int)) :=
  match typeExps db es with
  | .error err => .error err
  | .ok l => .ok (l.filter (fun p => !(p.2 == 0)))

end Barril.Alg
