/-
The caller's side of a history (C20): the caller KEEPS the mapping / the lists it passed to `ObtainQuantity` and
edits or re-uses them afterwards (`spec['time'][1] = -2`, `spec['mass'] = ['kg', 1]`, `del spec['time']`,
`pairs[0][0] = 'ft'`), and asks for the strings of the quantities made earlier again.  Core Lean only.

`Quantity.__init__` copies every `[unit, exponent]` cell (`list(unit_and_exp)`) into its own `OrderedDict`, the cache
key of `ObtainQuantity` is a tuple of tuples: no object of the caller is reachable from a quantity.  So in the model a
quantity that was made is a VALUE in the list `made`; an edit changes the request the caller holds (`held`) and nothing
else.  A later request with the edited mapping (`again`) is answered from the mapping as it is then.
-/
import Barril.Model.StrRender

namespace Barril.Str

/-- a request the caller keeps: the mapping form `OrderedDict(category -> [unit, exp])` or the list form
`([[unit, exp], ...], [category, ...])` -/
inductive Req
  | dict (es : List Entry)
  | list (pairs : List (Str × Int)) (cats : List Str)
deriving DecidableEq, Repr

/-- `ObtainQuantity(request)` -/
def Req.obtain (reg : Reg) : Req → Except ErrKind Quantity
  | .dict es => obtainFromDict reg es
  | .list ps cs => obtainFromList reg ps cs

/-- `xs[i] = f(xs[i])` (nothing when `i` is out of range: the harness only sends positions that exist) -/
def modifyAt {α : Type} : List α → Nat → (α → α) → List α
  | [], _, _ => []
  | x :: xs, 0, f => f x :: xs
  | x :: xs, i + 1, f => x :: modifyAt xs i f

/-- what the caller does to a request it holds -/
inductive Edit
  /-- `cell_i[1] = x` -/
  | setExp (i : Nat) (x : Int)
  /-- `cell_i[0] = u` -/
  | setUnit (i : Nat) (u : Str)
  /-- `spec[cat] = [unit, exp]` / `pairs.append([unit, exp]); cats.append(cat)` -/
  | add (e : Entry)
  /-- `del spec[key_i]` / `del pairs[i]; del cats[i]` -/
  | del (i : Nat)
deriving DecidableEq, Repr

def Edit.apply : Edit → Req → Req
  | .setExp i x, .dict es => .dict (modifyAt es i (fun e => { e with exp := x }))
  | .setUnit i u, .dict es => .dict (modifyAt es i (fun e => { e with unit := u }))
  | .add e, .dict es => .dict (odictSet es e)
  | .del i, .dict es => .dict (es.eraseIdx i)
  | .setExp i x, .list ps cs => .list (modifyAt ps i (fun p => (p.1, x))) cs
  | .setUnit i u, .list ps cs => .list (modifyAt ps i (fun p => (u, p.2))) cs
  | .add e, .list ps cs => .list (ps ++ [(e.unit, e.exp)]) (cs ++ [e.cat])
  | .del i, .list ps cs => .list (ps.eraseIdx i) (cs.eraseIdx i)

/-- the caller's objects: the requests it holds (editable) and the quantities it was given (values) -/
structure Caller where
  held : List Req
  made : List (Except ErrKind Quantity)

/-- one step of a history seen from the caller -/
inductive CStep
  /-- `ObtainQuantity(r)` with a new mapping / new lists, which the caller keeps -/
  | request (r : Req)
  /-- `ObtainQuantity` with the request number `i` as it is NOW -/
  | again (i : Nat)
  /-- the caller edits the request number `i` -/
  | edit (i : Nat) (ed : Edit)
  /-- any other creation (an expression over simple quantities): its result -/
  | other (q : Except ErrKind Quantity)
  /-- arithmetic on the quantity made as number `j` (`q * x`, `q / x`, `q ** n`, on the quantity or on value objects
  built on it): `f` is the operation on the VALUE that was made -/
  | arith (j : Nat) (f : Quantity → Except ErrKind Quantity)

def Caller.step (reg : Reg) (s : Caller) : CStep → Caller
  | .request r => ⟨s.held ++ [r], s.made ++ [r.obtain reg]⟩
  | .again i =>
    match s.held[i]? with
    | some r => ⟨s.held, s.made ++ [r.obtain reg]⟩
    | none => s
  | .edit i ed => ⟨modifyAt s.held i ed.apply, s.made⟩
  | .other q => ⟨s.held, s.made ++ [q]⟩
  | .arith j f =>
    match s.made[j]? with
    | some (.ok q) => ⟨s.held, s.made ++ [f q]⟩
    | some (.error e) => ⟨s.held, s.made ++ [.error e]⟩
    | none => s

def Caller.run (reg : Reg) (s : Caller) (steps : List CStep) : Caller := steps.foldl (Caller.step reg) s

end Barril.Str
