/-
Engine `Cmp` (C08): the comparison methods of the nine barril value classes, written after the
Python method by method, and CPython's rich-comparison dispatch (`do_richcompare`) around them.

* part 1: the value objects as data (`Obj`), their classes and the subclass relation;
* part 2: `Fraction(number)` (the decimal-shifting loop) and `Fraction.__old_cmp__`;
* part 3: every `__eq__`, `__ne__`, `__hash__` of the nine classes and of the builtins they meet;
* part 4: `do_richcompare` for `==`, `!=` (fallback: identity) and `<,<=,>,>=` (fallback: TypeError),
          `functools.total_ordering` as applied to `Fraction`;
* part 5: the order operators of `Scalar` and `FractionScalar` (`_GetValuesToCompare`,
          `Quantity.ConvertScalarValue`, `FractionScalar.ConvertFractionValue`).

Attribute reads are partial: a method that reads an attribute its operand does not have yields
`.error .other` (Python's `AttributeError`).  That such a read is never reached is a theorem
(`Props/C08.lean`), not a convention of the model.  Finite values only; one-dimensional containers.
-/
import Barril.Model.Basic
import Barril.Model.Legacy
import Barril.Model.Conv

namespace Barril

/-! ## 1. objects -/

/-- one item of `Quantity._category_to_unit_and_exps` -/
structure QEntry where
  cat : Sym
  unit : Sym
  exp : Int
  /-- the stored `unit_and_exp` is a tuple (`true`) or a list (`false`): `['m', 1] != ('m', 1)` -/
  tup : Bool
deriving DecidableEq, Repr

/-- what the comparison methods read of a `Quantity` -/
structure Qty where
  entries : List QEntry
  /-- `_unknown_unit_caption` (always a `str`; `''` when none was given) -/
  caption : Sym
  /-- `_unit` -/
  unit : Sym
deriving DecidableEq, Repr

inductive Container
  | list | tuple | ndarray
deriving DecidableEq, Repr

/-- an `Array` (`dim = none`) or a `FixedArray` (`dim = some _dimension`) -/
structure Arr where
  values : List Rat
  kind : Container
  q : Qty
  dim : Option Int
deriving DecidableEq, Repr

/-- a `FractionValue`: `_number` and `_fraction` (a `Fraction`, i.e. a normalised rational) -/
structure FVal where
  number : Rat
  frac : Rat
deriving DecidableEq, Repr

structure USys where
  id : Option Sym
  caption : Sym
  /-- `_units_mapping`, sorted by key (dict equality ignores order) -/
  mapping : List (Sym × Sym)
  readOnly : Bool
deriving DecidableEq, Repr

/-- the nine value classes and the unrelated builtins of the property text -/
inductive Obj
  | quantity (q : Qty)
  | scalar (v : Rat) (q : Qty)
  | arr (a : Arr)
  | fscalar (v : FVal) (q : Qty)
  | fvalue (v : FVal)
  | fraction (x : Rat)
  | curve (image domain : Arr)
  | usys (u : USys)
  | none
  | str (s : Sym)
  | num (x : Rat)
  | tuple (xs : List Rat)
  | list (xs : List Rat)
deriving DecidableEq, Repr

inductive Cls
  | quantity | scalar | array | fixedarray | fscalar | fvalue | fraction | curve | usys
  | noneType | str | num | tuple | list
deriving DecidableEq, Repr

def Arr.cls (a : Arr) : Cls :=
  match a.dim with
  | none => .array
  | some _ => .fixedarray

/-- `type(o)` (`int` and `float` are one class `num`: neither is a subclass of the other and their
mixed comparisons are exact) -/
def Obj.cls : Obj → Cls
  | .quantity _ => .quantity
  | .scalar _ _ => .scalar
  | .arr a => a.cls
  | .fscalar _ _ => .fscalar
  | .fvalue _ => .fvalue
  | .fraction _ => .fraction
  | .curve _ _ => .curve
  | .usys _ => .usys
  | .none => .noneType
  | .str _ => .str
  | .num _ => .num
  | .tuple _ => .tuple
  | .list _ => .list

/-- `issubclass(c, d)` among these classes: only `FixedArray(Array)` -/
def Cls.isSubclass (c d : Cls) : Bool := c == d || (c == .fixedarray && d == .array)

/-- `isinstance(o, d)` -/
def Obj.isInstance (o : Obj) (d : Cls) : Bool := o.cls.isSubclass d

/-- the result of a rich-comparison method -/
inductive Ans
  | val (b : Bool)
  | notImpl
deriving DecidableEq, Repr

/-- `not r` as `object.__ne__` applies it: `NotImplemented` is passed on -/
def Ans.neg : Ans → Ans
  | .val b => .val (!b)
  | .notImpl => .notImpl

/-! ## 2. `Fraction` -/

def absR (x : Rat) : Rat := if x < 0 then -x else x

/-- Python's `round(x)` (half to even) -/
def pyRound (x : Rat) : Int :=
  let f := x.floor
  let d := x - (f : Rat)
  if d < 1 / 2 then f else if 1 / 2 < d then f + 1 else if f % 2 = 0 then f else f + 1

/-- `while abs(a - round(a)) > SMALL: a *= 10; b *= 10` in exact arithmetic; a double of magnitude
≥ 2^52 is integral, so the float loop has stopped by then -/
def fracLoop : Nat → Rat → Rat → Rat → Rat × Rat
  | 0, _, a, b => (a, b)
  | fuel + 1, small, a, b =>
    if small < absR (a - (pyRound a : Rat)) && absR a < 4503599627370496 then
      fracLoop fuel small (a * 10) (b * 10)
    else (a, b)

/-- `Fraction(number).x` -/
def fractionOfNumber (small q : Rat) : Rat :=
  let ab := fracLoop 64 small q 1
  (pyRound ab.1 : Rat) / ab.2

/-- `t = self.numerator * other.denominator - other.numerator * self.denominator`, then its sign -/
def crossCmp (x y : Rat) : Int :=
  let t := x.num * (y.den : Int) - y.num * (x.den : Int)
  if t < 0 then -1 else if 0 < t then 1 else 0

/-- `Fraction.__old_cmp__(other)` for a finite operand: a number is first made a `Fraction`;
anything else has no `denominator` -/
def fractionOldCmp (small x : Rat) (other : Obj) : Except ErrKind Int :=
  match other with
  | .num q => .ok (crossCmp x (fractionOfNumber small q))
  | .fraction y => .ok (crossCmp x y)
  | _ => .error .other

/-- `isinstance(other, NumberType + (Fraction,))` -/
def Obj.isNumberOrFraction (o : Obj) : Bool := o.cls == .num || o.cls == .fraction

/-- `Fraction.__eq__` -/
def fractionEq (small x : Rat) (other : Obj) : Except ErrKind Ans :=
  if !other.isNumberOrFraction then .ok .notImpl else
  match fractionOldCmp small x other with
  | .error e => .error e
  | .ok t => .ok (.val (t == 0))

/-- `Fraction.__lt__` -/
def fractionLt (small x : Rat) (other : Obj) : Except ErrKind Ans :=
  if !other.isNumberOrFraction then .ok .notImpl else
  match fractionOldCmp small x other with
  | .error e => .error e
  | .ok t => .ok (.val (t == -1))

/-! ## 3. `__eq__`, `__ne__`, `__hash__` class by class -/

/-- `Quantity.__eq__` on two quantities:
`tuple(a._category_to_unit_and_exps.items()) == tuple(b....items()) and a._unknown_unit_caption == b....` -/
def Qty.eq (a b : Qty) : Bool := a.entries == b.entries && a.caption == b.caption

/-- `Quantity.__eq__` -/
def quantityEq (q : Qty) (other : Obj) : Except ErrKind Ans :=
  if !other.isInstance .quantity then .ok (.val false) else
  match other with
  | .quantity q' => .ok (.val (q.eq q'))
  | _ => .error .other

/-- `Scalar.__eq__`: `type(self) is type(other) and self._value == other.value and
self._quantity == other._quantity` (`Quantity == Quantity` dispatches to `Quantity.__eq__`) -/
def scalarEq (v : Rat) (q : Qty) (other : Obj) : Except ErrKind Ans :=
  if !(other.cls == .scalar) then .ok (.val false) else
  match other with
  | .scalar v' q' => .ok (.val (v == v' && q.eq q'))
  | _ => .error .other

/-- `Array.__eq__`: `isinstance(other, Array)`, then
`tuple(self.values) == tuple(other.values) and self._quantity == other._quantity and self.unit == other.unit` -/
def arrayEq (a : Arr) (other : Obj) : Except ErrKind Bool :=
  if !other.isInstance .array then .ok false else
  match other with
  | .arr b => .ok (a.values == b.values && a.q.eq b.q && a.q.unit == b.q.unit)
  | _ => .error .other

/-- `other.dimension` -/
def Obj.dimension (o : Obj) : Except ErrKind Int :=
  match o with
  | .arr b =>
    match b.dim with
    | .some d => .ok d
    | .none => .error .other
  | _ => .error .other

/-- `FixedArray.__eq__`: `isinstance(other, FixedArray) and Array.__eq__(self, other) and
self.dimension == other.dimension` -/
def fixedArrayEq (a : Arr) (other : Obj) : Except ErrKind Bool :=
  if !other.isInstance .fixedarray then .ok false else
  match arrayEq a other with
  | .error e => .error e
  | .ok false => .ok false
  | .ok true =>
    match other.dimension with
    | .error e => .error e
    | .ok d => .ok (a.dim == some d)

/-- the `__eq__` found on `type(a)` for an Array or FixedArray object -/
def arrMethEq (a : Arr) (other : Obj) : Except ErrKind Ans :=
  match (match a.dim with
         | none => arrayEq a other
         | some _ => fixedArrayEq a other) with
  | .error e => .error e
  | .ok b => .ok (.val b)

/-- `FractionValue.__eq__` on two FractionValues: `_number == _number and _fraction == _fraction`
(`Fraction == Fraction` is `Fraction.__eq__`, i.e. `__old_cmp__ == 0`) -/
def FVal.eq (a b : FVal) : Bool := a.number == b.number && crossCmp a.frac b.frac == 0

/-- `FractionValue.__eq__` -/
def fvalueEq (v : FVal) (other : Obj) : Except ErrKind Ans :=
  if !(other.cls == .fvalue) then .ok (.val false) else
  match other with
  | .fvalue v' => .ok (.val (v.eq v'))
  | _ => .error .other

/-- `FractionScalar.__eq__`: `type(self) == type(other) and self._value == other.value and
self._quantity == other._quantity` -/
def fscalarEq (v : FVal) (q : Qty) (other : Obj) : Except ErrKind Ans :=
  if !(other.cls == .fscalar) then .ok (.val false) else
  match other with
  | .fscalar v' q' => .ok (.val (v.eq v' && q.eq q'))
  | _ => .error .other

/-- `UnitSystem.__eq__`: `IsImplementation(other, IUnitSystem)`, then id, caption, mapping, read-only -/
def usysEq (u : USys) (other : Obj) : Except ErrKind Ans :=
  if !other.isInstance .usys then .ok (.val false) else
  match other with
  | .usys u' =>
    .ok (.val (u.id == u'.id && u.caption == u'.caption && u.mapping == u'.mapping
      && u.readOnly == u'.readOnly))
  | _ => .error .other

/-- continue with `k` when a method answered `NotImplemented` -/
def Ans.orElse (r : Except ErrKind Ans) (k : Unit → Except ErrKind Bool) : Except ErrKind Bool :=
  match r with
  | .error e => .error e
  | .ok (.val b) => .ok b
  | .ok .notImpl => k ()

/-- `do_richcompare(v, w, Py_EQ / Py_NE)` over a method table `meth self other`: the reflected method
goes first when `type(w)` is a proper subclass of `type(v)`; then `v`'s method; then `w`'s (unless
already tried); then the identity fallback (`v is w` for `==`, `v is not w` for `!=`) -/
def richCompare (meth : Obj → Obj → Except ErrKind Ans) (v w : Obj) (fallback : Bool) :
    Except ErrKind Bool :=
  let reflFirst := v.cls != w.cls && w.cls.isSubclass v.cls
  Ans.orElse (if reflFirst then meth w v else .ok .notImpl) fun _ =>
  Ans.orElse (meth v w) fun _ =>
  Ans.orElse (if reflFirst then .ok .notImpl else meth w v) fun _ =>
  .ok fallback

/-- `a == b` for two Array/FixedArray objects (used by `Curve.__eq__`; an Array method never answers
`NotImplemented`, so the identity fallback is never consulted) -/
def pyEqArr (a b : Arr) : Except ErrKind Bool :=
  richCompare (fun s o => match s with
                          | .arr x => arrMethEq x o
                          | _ => .ok .notImpl) (.arr a) (.arr b) false

/-- `Curve.__eq__`: `isinstance(other, Curve)`, then
`self.GetImage() == other.GetImage() and self.GetDomain() == other.GetDomain()` -/
def curveEq (image domain : Arr) (other : Obj) : Except ErrKind Ans :=
  if !other.isInstance .curve then .ok (.val false) else
  match other with
  | .curve image' domain' =>
    match pyEqArr image image' with
    | .error e => .error e
    | .ok false => .ok (.val false)
    | .ok true =>
      match pyEqArr domain domain' with
      | .error e => .error e
      | .ok b => .ok (.val b)
  | _ => .error .other

/-- `type(self).__eq__(self, other)` (`None` has `object.__eq__`: `self is other`, and `None` is a
singleton) -/
def methEq (small : Rat) (self other : Obj) : Except ErrKind Ans :=
  match self with
  | .quantity q => quantityEq q other
  | .scalar v q => scalarEq v q other
  | .arr a => arrMethEq a other
  | .fscalar v q => fscalarEq v q other
  | .fvalue v => fvalueEq v other
  | .fraction x => fractionEq small x other
  | .curve i d => curveEq i d other
  | .usys u => usysEq u other
  | .none =>
    match other with
    | .none => .ok (.val true)
    | _ => .ok .notImpl
  | .str s =>
    match other with
    | .str s' => .ok (.val (s == s'))
    | _ => .ok .notImpl
  | .num x =>
    match other with
    | .num y => .ok (.val (x == y))
    | _ => .ok .notImpl
  | .tuple xs =>
    match other with
    | .tuple ys => .ok (.val (xs == ys))
    | _ => .ok .notImpl
  | .list xs =>
    match other with
    | .list ys => .ok (.val (xs == ys))
    | _ => .ok .notImpl

/-- `a == b`; `same` = the two operands are one object (`a is b`) -/
def pyEq (small : Rat) (a b : Obj) (same : Bool) : Except ErrKind Bool :=
  richCompare (methEq small) a b same

/-- the class body defines `__ne__` as `not self == other`
(`AbstractValueWithQuantityObject` and `FractionValue`); the others inherit `object.__ne__` -/
def Cls.neIsNotEq : Cls → Bool
  | .scalar | .array | .fixedarray | .fscalar | .fvalue => true
  | _ => false

/-- `type(self).__ne__(self, other)` -/
def methNe (small : Rat) (same : Bool) (self other : Obj) : Except ErrKind Ans :=
  if self.cls.neIsNotEq then
    match pyEq small self other same with
    | .error e => .error e
    | .ok b => .ok (.val (!b))
  else
    -- `object.__ne__` (and the builtins' own): negate `__eq__` unless it is `NotImplemented`
    match methEq small self other with
    | .error e => .error e
    | .ok r => .ok r.neg

/-- `a != b` -/
def pyNe (small : Rat) (a b : Obj) (same : Bool) : Except ErrKind Bool :=
  richCompare (methNe small same) a b (!same)

/-! ### hashing -/

/-- the class body defines `__hash__` -/
def Cls.definesHash : Cls → Bool
  | .quantity | .scalar => true
  | _ => false

/-- the class body defines `__eq__` -/
def Cls.definesEq : Cls → Bool
  | .quantity | .scalar | .array | .fixedarray | .fscalar | .fvalue | .fraction | .curve | .usys => true
  | _ => false

/-- a base class of the class is `AbstractValueWithQuantityObject` (its `__hash__` raises
`NotImplementedError`) -/
def Cls.abstractBase : Cls → Bool
  | .scalar | .array | .fixedarray | .fscalar => true
  | _ => false

inductive HashSlot
  | own            -- the class's own `__hash__`
  | unhashable     -- `__hash__ = None`: TypeError
  | raises         -- inherited `AbstractValueWithQuantityObject.__hash__`
  | builtin
deriving DecidableEq, Repr

/-- what `type(o).__hash__` is: a class body with `__eq__` and without `__hash__` gets
`__hash__ = None` -/
def Cls.hashSlot (c : Cls) : HashSlot :=
  if c == .list then .unhashable
  else if c.definesHash then .own
  else if c.definesEq then .unhashable
  else if c.abstractBase then .raises
  else .builtin

/-- what a hash is computed from; equal keys give equal hashes -/
inductive HKey
  | quantity (es : List (Sym × Sym × Int)) (caption : Sym)
  | scalar (v : Rat) (es : List (Sym × Sym × Int)) (caption : Sym)
  | none
  | str (s : Sym)
  | num (x : Rat)
  | tuple (xs : List Rat)
deriving DecidableEq, Repr

/-- `Quantity.__hash__`: `hash(tuple([(category, tuple(unit_and_exp)) …] + [caption]))` -/
def Qty.hashItems (q : Qty) : List (Sym × Sym × Int) := q.entries.map fun e => (e.cat, e.unit, e.exp)

/-- `hash(o)` -/
def pyHash (o : Obj) : Except ErrKind HKey :=
  match o.cls.hashSlot with
  | .unhashable => .error .type
  | .raises => .error .readonly
  | _ =>
    match o with
    | .quantity q => .ok (.quantity q.hashItems q.caption)
    | .scalar v q => .ok (.scalar v q.hashItems q.caption)   -- `hash((self._value, self._quantity))`
    | .none => .ok .none
    | .str s => .ok (.str s)
    | .num x => .ok (.num x)
    | .tuple xs => .ok (.tuple xs)
    | _ => .error .other

/-! ## 4. ordering operators of `Fraction` (`functools.total_ordering` over `__lt__`, `__eq__`) -/

inductive Op
  | lt | le | gt | ge
deriving DecidableEq, Repr

/-- the reflected operator -/
def Op.swap : Op → Op
  | .lt => .gt | .gt => .lt | .le => .ge | .ge => .le

/-- `Fraction.__lt__` and the three methods `total_ordering` derives from it:
`_gt_from_lt` = `not lt and self != other`, `_le_from_lt` = `lt or self == other`,
`_ge_from_lt` = `not lt`; each passes `NotImplemented` on -/
def fractionOrd (small x : Rat) (op : Op) (other : Obj) : Except ErrKind Ans :=
  match fractionLt small x other with
  | .error e => .error e
  | .ok .notImpl => .ok .notImpl
  | .ok (.val l) =>
    match op with
    | .lt => .ok (.val l)
    | .ge => .ok (.val (!l))
    | .gt =>
      if l then .ok (.val false) else
      match pyNe small (.fraction x) other false with
      | .error e => .error e
      | .ok b => .ok (.val b)
    | .le =>
      if l then .ok (.val true) else
      match pyEq small (.fraction x) other false with
      | .error e => .error e
      | .ok b => .ok (.val b)

/-- `type(self).__op__(self, other)` where one operand is a `Fraction`: numbers, `None`, strings and
tuples answer `NotImplemented` to a `Fraction`.  (Two builtins, or the order methods of the other
barril classes, are outside this function: `.error .other`.) -/
def methOrd (small : Rat) (op : Op) (self other : Obj) : Except ErrKind Ans :=
  match self with
  | .fraction x => fractionOrd small x op other
  | .none | .str _ | .num _ | .tuple _ | .list _ =>
    match other with
    | .fraction _ => .ok .notImpl
    | _ => .error .other
  | _ => .error .other

/-- `do_richcompare(v, w, op)` for an ordering operator: as `richCompare`, but the fallback is a
`TypeError` -/
def richOrder (meth : Op → Obj → Obj → Except ErrKind Ans) (op : Op) (v w : Obj) : Except ErrKind Bool :=
  let reflFirst := v.cls != w.cls && w.cls.isSubclass v.cls
  Ans.orElse (if reflFirst then meth op.swap w v else .ok .notImpl) fun _ =>
  Ans.orElse (meth op v w) fun _ =>
  Ans.orElse (if reflFirst then .ok .notImpl else meth op.swap w v) fun _ =>
  .error .type

/-- `Fraction(x) op b` (`left = true`) or `b op Fraction(x)` -/
def fractionOrder (small x : Rat) (op : Op) (left : Bool) (b : Obj) : Except ErrKind Bool :=
  if left then richOrder (methOrd small) op (.fraction x) b
  else richOrder (methOrd small) op b (.fraction x)

/-! ## 5. order of `Scalar` and `FractionScalar` -/

/-- a non-derived `Quantity`: `_category`, `_quantity_type`, `_unit` and the table row whose
`tobase` was stored in `_tobase` -/
structure SimpleQ where
  cat : Sym
  qtype : Sym
  unit : Sym
  row : UnitRow
deriving DecidableEq, Repr

/-- the unit a simple `Quantity` ends up with: `CheckCategoryUnit`, retried on the legacy rewrite -/
def Db.checkedUnit (db : Db) (cat unit : Sym) : Except ErrKind Sym :=
  if db.categoryUnitValid cat unit then .ok unit
  else if isLegacy db.legacy unit then
    (if db.categoryUnitValid cat (fixLegacy db.legacy unit) then .ok (fixLegacy db.legacy unit)
     else .error .units)
  else .error .units

/-- `Quantity(category, unit)` / `ObtainQuantity(unit, category)` for two strings -/
def Db.simpleQuantity (db : Db) (cat unit : Sym) : Except ErrKind SimpleQ :=
  match db.catByName cat with
  | none => .error .units
  | some ci =>
    match db.checkedUnit cat unit with
    | .error e => .error e
    | .ok u =>
      match db.getInfo ci.qtype u true with
      | .error e => .error e
      | .ok r => .ok ⟨cat, ci.qtype, u, r⟩

/-- the comparison-relevant content of that quantity: `{category: [unit, 1]}`, no caption -/
def SimpleQ.toQty (q : SimpleQ) : Qty := ⟨[⟨q.cat, q.unit, 1, false⟩], 0, q.unit⟩

/-- `Quantity.ConvertScalarValue(value, to_unit)` of a simple quantity:
same unit → the value; else `GetInfo(quantity_type, to_unit, fix_unknown=True).frombase(self._tobase(value))` -/
def SimpleQ.convertScalarValue (db : Db) (q : SimpleQ) (x : Rat) (toU : Sym) : Except ErrKind Rat :=
  if q.unit == toU then .ok x else
  match db.getInfo q.qtype toU true with
  | .error e => .error e
  | .ok other => convRows q.row other x

/-- `self._tobase(value)`: the physical amount, in the base unit of the quantity type -/
def SimpleQ.baseAmount (q : SimpleQ) (x : Rat) : Rat := q.row.toBase.eval x

/-- a `Scalar` with a simple quantity -/
structure Sc where
  v : Rat
  q : SimpleQ
deriving DecidableEq, Repr

/-- `Scalar._GetValuesToCompare` -/
def Sc.valuesToCompare (db : Db) (a b : Sc) : Except ErrKind (Rat × Rat) :=
  if a.q.qtype != b.q.qtype then .error .type else
  match b.q.convertScalarValue db b.v a.q.unit with
  | .error e => .error e
  | .ok v2 => .ok (a.v, v2)

/-- `v1 op v2` on numbers -/
def Op.apply (op : Op) (v1 v2 : Rat) : Bool :=
  match op with
  | .lt => decide (v1 < v2)
  | .le => decide (v1 ≤ v2)
  | .gt => decide (v2 < v1)
  | .ge => decide (v2 ≤ v1)

/-- `Scalar.__lt__/__le__/__gt__/__ge__` (all four are written out in the class; the operand is
another Scalar, so no reflection is involved) -/
def Sc.order (db : Db) (op : Op) (a b : Sc) : Except ErrKind Bool :=
  match a.valuesToCompare db b with
  | .error e => .error e
  | .ok (v1, v2) => .ok (op.apply v1 v2)

def Sc.toObj (a : Sc) : Obj := .scalar a.v a.q.toQty

/-- `float(FractionValue)`: `_number + float(_fraction)` -/
def FVal.toFloat (v : FVal) : Rat := v.number + v.frac

/-- `FractionScalar.ConvertFractionValue(fraction_value, quantity, from_unit, to_unit)` for a
simple quantity: the number is converted; the numerator is converted as an increment
(`convert(numerator) - convert(0.0)`) and stored through `Fraction.set_numerator(float)`, i.e.
`Fraction(numerator).x / Fraction(denominator).x` -/
def convertFractionValue (db : Db) (small : Rat) (fv : FVal) (q : SimpleQ) (toU : Sym) :
    Except ErrKind FVal :=
  -- `convert_to_quantity = ObtainQuantity(from_unit, quantity.GetComposingCategories())`
  match db.simpleQuantity q.cat q.unit with
  | .error e => .error e
  | .ok cq =>
    match cq.convertScalarValue db fv.number toU with
    | .error e => .error e
    | .ok n =>
      match cq.convertScalarValue db (fv.frac.num : Rat) toU with
      | .error e => .error e
      | .ok a =>
        match cq.convertScalarValue db 0 toU with
        | .error e => .error e
        | .ok z => .ok ⟨n, fractionOfNumber small (a - z) / (fv.frac.den : Rat)⟩

/-- a `FractionScalar` with a simple quantity -/
structure FSc where
  v : FVal
  q : SimpleQ
deriving DecidableEq, Repr

/-- `FractionScalar._GetValuesToCompare`, followed by the `float()` that `FractionValue.__lt__` …
`__ge__` apply to both sides -/
def FSc.valuesToCompare (db : Db) (small : Rat) (a b : FSc) : Except ErrKind (Rat × Rat) :=
  if a.q.qtype != b.q.qtype then .error .type else
  match convertFractionValue db small b.v b.q a.q.unit with
  | .error e => .error e
  | .ok v2 => .ok (a.v.toFloat, v2.toFloat)

/-- the approximation inside `ConvertFractionValue`: `Fraction(converted numerator)` shifts the
decimal point until the numerator is within `SMALL` of an integer and rounds it, so it keeps the
numerator only up to `SMALL` (and a converted numerator below `SMALL` becomes 0).  This predicate says
that for `b`, converted to `toU`, nothing was lost. -/
def FSc.NumeratorKept (db : Db) (small : Rat) (b : FSc) (toU : Sym) : Prop :=
  ∀ a z, b.q.convertScalarValue db (b.v.frac.num : Rat) toU = .ok a →
    b.q.convertScalarValue db 0 toU = .ok z → fractionOfNumber small (a - z) = a - z

/-- `FractionScalar.__lt__/__le__/__gt__/__ge__` -/
def FSc.order (db : Db) (small : Rat) (op : Op) (a b : FSc) : Except ErrKind Bool :=
  match a.valuesToCompare db small b with
  | .error e => .error e
  | .ok (v1, v2) => .ok (op.apply v1 v2)

def FSc.toObj (a : FSc) : Obj := .fscalar a.v a.q.toQty

/-! ## 6. any two ordered operands: Scalar or FractionScalar, on a simple (table unit, the `<unknown>`
unit of the quantity type `Unknown` included) or on the empty quantity -/

/-- the quantity of an ordered operand -/
inductive OrdQ
  | simple (q : SimpleQ)
  /-- `Quantity.CreateEmpty()`: derived, no composing unit; category, quantity type and unit are `''` -/
  | empty
deriving DecidableEq, Repr

def OrdQ.qtype : OrdQ → Sym
  | .simple q => q.qtype
  | .empty => 0

def OrdQ.unit : OrdQ → Sym
  | .simple q => q.unit
  | .empty => 0

inductive Operand
  | sc (v : Rat) (q : OrdQ)
  | fsc (v : FVal) (q : OrdQ)
deriving DecidableEq, Repr

def Operand.q : Operand → OrdQ
  | .sc _ q => q
  | .fsc _ q => q

/-- `float()` of the operand's own value -/
def Operand.own : Operand → Rat
  | .sc v _ => v
  | .fsc v _ => v.toFloat

/-- `float(other.GetValue(unit))`.
Scalar on the empty quantity: `ConvertScalarValue` returns the value for the own unit `''`, otherwise
takes the derived branch, where `_ConvertWithExp` with no composing unit returns the value too.
FractionScalar on the empty quantity: `ConvertFractionValue` calls `ObtainQuantity('', ())`, and
`Quantity((), '')` raises `TypeError` ("Only str is accepted"). -/
def Operand.valueIn (db : Db) (small : Rat) (o : Operand) (toU : Sym) : Except ErrKind Rat :=
  match o with
  | .sc v (.simple q) => q.convertScalarValue db v toU
  | .sc v .empty => .ok v
  | .fsc v (.simple q) =>
    match convertFractionValue db small v q toU with
    | .error e => .error e
    | .ok w => .ok w.toFloat
  | .fsc _ .empty => .error .type

/-- `_GetValuesToCompare` of either class followed by the comparison of the two values (a float
against a `FractionValue` ends in `FractionValue`'s reflected method, which compares the floats) -/
def Operand.order (db : Db) (small : Rat) (op : Op) (a b : Operand) : Except ErrKind Bool :=
  if a.q.qtype != b.q.qtype then .error .type else
  match b.valueIn db small a.q.unit with
  | .error e => .error e
  | .ok v2 => .ok (op.apply a.own v2)

/-! ## 7. pooled objects with identity, and what is done with them before they are compared

A comparison is rarely the first thing that happens to an object: it has been hashed (used as a dict
key), it has been an operand of `+ - * /`, it has been converted, copied, pickled.  The objects of a
pool are values (`Obj`, their descriptors) together with their identity; the only state an operation
leaves behind that a later `==`, `!=` or `hash` reads is the memo `Quantity._hash`. -/

/-- what `Quantity.__hash__` computes once and keeps in `_hash` -/
abbrev QKey := List (Sym × Sym × Int) × Sym

def Qty.key (q : Qty) : QKey := (q.hashItems, q.caption)

/-- the `Quantity` object whose `__hash__` the hash of the object goes through: a Quantity itself,
`_quantity` of a Scalar (`hash((self._value, self._quantity))`) -/
def Obj.heldQty : Obj → Option Qty
  | .quantity q => Option.some q
  | .scalar _ q => Option.some q
  | _ => Option.none

/-- a pooled object: its descriptor, its identity (`id(o)`) and the identity of the Quantity object
it holds (`id(o)` of a Quantity, `id(o._quantity)` otherwise; quantities are interned, so many objects
share one) -/
structure PObj where
  obj : Obj
  oid : Nat
  qid : Nat
deriving DecidableEq, Repr

/-- one object has one descriptor, and one Quantity object has one content -/
def PObj.compatible (a b : PObj) : Bool :=
  (a.oid != b.oid || a.obj == b.obj) &&
  (match a.obj.heldQty, b.obj.heldQty with
   | some qa, some qb => a.qid != b.qid || qa == qb
   | _, _ => true)

/-- the pool is well-formed: identities determine descriptors -/
def poolWF (pool : List PObj) : Bool := pool.all fun a => pool.all fun b => a.compatible b

structure Session where
  pool : List PObj
  /-- `_hash` of the Quantity objects hashed so far, by identity -/
  memo : List (Nat × QKey)
deriving Repr

def Session.fresh (pool : List PObj) : Session := ⟨pool, []⟩

def memoGet : List (Nat × QKey) → Nat → Option QKey
  | [], _ => none
  | (i, k) :: m, id => if i == id then some k else memoGet m id

/-- `Quantity.__hash__` of the Quantity object `id` with content `q`:
`try: return self._hash / except AttributeError: self._hash = hash(tuple(lst))` -/
def Session.qtyHash (s : Session) (id : Nat) (q : Qty) : QKey × Session :=
  match memoGet s.memo id with
  | some k => (k, s)
  | none => (q.key, { s with memo := (id, q.key) :: s.memo })

/-- `hash(pool[i])` in the session (as `pyHash`, the Quantity part through the memo) -/
def Session.hash (s : Session) (i : Nat) : Except ErrKind HKey × Session :=
  match s.pool[i]? with
  | none => (.error .index, s)
  | some p =>
    match p.obj.cls.hashSlot with
    | .unhashable => (.error .type, s)
    | .raises => (.error .readonly, s)
    | _ =>
      match p.obj with
      | .quantity q => let r := s.qtyHash p.qid q; (.ok (.quantity r.1.1 r.1.2), r.2)
      | .scalar v q => let r := s.qtyHash p.qid q; (.ok (.scalar v r.1.1 r.1.2), r.2)
      | .none => (.ok .none, s)
      | .str x => (.ok (.str x), s)
      | .num x => (.ok (.num x), s)
      | .tuple xs => (.ok (.tuple xs), s)
      | _ => (.error .other, s)

/-- `hash(pool[i])` of the descriptor alone -/
def Session.pureHash (s : Session) (i : Nat) : Except ErrKind HKey :=
  match s.pool[i]? with
  | none => .error .index
  | some p => pyHash p.obj

/-- `pool[i] == pool[j]` (`a is b` is equality of the identities) -/
def Session.eq (s : Session) (small : Rat) (i j : Nat) : Except ErrKind Bool :=
  match s.pool[i]?, s.pool[j]? with
  | some a, some b => pyEq small a.obj b.obj (a.oid == b.oid)
  | _, _ => .error .index

/-- `pool[i] != pool[j]` -/
def Session.ne (s : Session) (small : Rat) (i j : Nat) : Except ErrKind Bool :=
  match s.pool[i]?, s.pool[j]? with
  | some a, some b => pyNe small a.obj b.obj (a.oid == b.oid)
  | _, _ => .error .index

/-- what is done with pooled objects between their creation and a comparison -/
inductive StirOp
  /-- `hash(o)`, `{o: …}`: memoises `_hash` of the Quantity object involved -/
  | hash (i : Nat)
  /-- `==`, `!=`, `<` …: the comparison methods only read -/
  | cmp (i j : Nat)
  /-- `o_i + o_j`, `-`, `*`, `/` (succeeding or raising): `_DoOperationWithSameQuantity` matches the
  units on `copy.deepcopy` of both composing maps, `_DoOperationResultingInNewQuantity` on
  `GetCategoryToUnitAndExpsCopy()` of both; the operands keep theirs; the result is a new object -/
  | arith (i j : Nat)
  /-- conversions (`GetValue(unit)`, `ConvertScalarValue`), `CreateCopy`, `copy`/`deepcopy`,
  pickling, `str`/`repr`: read the operand, build other objects -/
  | read (i : Nat)
deriving DecidableEq, Repr

def Session.step (s : Session) : StirOp → Session
  | .hash i => (s.hash i).2
  | .cmp _ _ => s
  | .arith _ _ => s
  | .read _ => s

def Session.run (s : Session) (ops : List StirOp) : Session := ops.foldl Session.step s

/-! ## 8. order after histories: pooled Scalars and FractionScalars that were read, shown, converted, compared
and copied before `<`, `<=`, `>`, `>=` are asked

`Scalar.__lt__ … __ge__` and their FractionScalar twins read `self._value`, `self._quantity` and
`other.GetValue(self.unit)`; `Quantity.ConvertScalarValue` builds numbers, `ConvertFractionValue` works on
`copy.copy(fraction)`; `float()`, `str()`, `repr()`, `GetFormatted()`, `GetValue(unit)` build new objects.  None
of them stores anything in an operand (in the code as it is neither `Fraction`, `FractionValue`, `Scalar` nor
`FractionScalar` keeps a memo; `hash` memoises `Quantity._hash`, section 7, which no order operator reads), so the
state of a session is its pool; the only operation that changes the pool
is a copy (`copy.copy`, `copy.deepcopy`, `CreateCopy()`, a pickle round trip), which appends an operand with
the descriptor of its original. -/

structure OSession where
  pool : List Operand
deriving DecidableEq, Repr

/-- what is done with pooled operands before an order operator is asked -/
inductive OStirOp
  /-- `float(o.value)`, `float(o.GetValue())`, `o.GetAbstractValue()` -/
  | float (i : Nat)
  /-- `str(o)`, `repr(o)`, `o.GetFormatted()` -/
  | show (i : Nat)
  /-- `o.GetValue(unit)` / `float()` of it, `o.CreateCopy(unit=unit)` (the result is dropped) -/
  | getValue (i : Nat) (u : Sym)
  /-- `o_i op o_j` (any verdict, any error) -/
  | order (op : Op) (i j : Nat)
  /-- `o_i == o_j`, `o_i != o_j` -/
  | eq (i j : Nat)
  /-- `hash(o)` -/
  | hash (i : Nat)
  /-- `o_i + o_j`, `-`, `*`, `/` (succeeding or raising; the result is dropped) -/
  | arith (i j : Nat)
  /-- `copy.copy(o)`, `copy.deepcopy(o)`, `o.CreateCopy()`, `pickle.loads(pickle.dumps(o))`: a new pooled object -/
  | copy (i : Nat)
deriving DecidableEq, Repr

def OSession.step (s : OSession) : OStirOp → OSession
  | .copy i =>
    match s.pool[i]? with
    | some o => ⟨s.pool ++ [o]⟩
    | none => s
  | _ => s

def OSession.run (s : OSession) (ops : List OStirOp) : OSession := ops.foldl OSession.step s

/-- `pool[i] op pool[j]` -/
def OSession.order (s : OSession) (db : Db) (small : Rat) (op : Op) (i j : Nat) : Except ErrKind Bool :=
  match s.pool[i]?, s.pool[j]? with
  | some a, some b => a.order db small op b
  | _, _ => .error .index

/-- `float(pool[i].GetValue(unit))` -/
def OSession.valueIn (s : OSession) (db : Db) (small : Rat) (i : Nat) (u : Sym) : Except ErrKind Rat :=
  match s.pool[i]? with
  | some a => a.valueIn db small u
  | none => .error .index

/-- a Scalar / FractionScalar with a table unit as an operand -/
def Sc.toOperand (a : Sc) : Operand := .sc a.v (.simple a.q)
def FSc.toOperand (a : FSc) : Operand := .fsc a.v (.simple a.q)

/-- `AbstractValueWithQuantityObject.__hash__(o)` called explicitly (what `super().__hash__()` of a
subclass reaches): a plain function, it raises `NotImplementedError` whatever `o` is.  `hash(o)` itself
never gets there for the nine classes (`Cls.hashSlot` is never `.raises`: Scalar defines `__hash__`,
Array, FixedArray and FractionScalar define `__eq__` without it). -/
def absBaseHash (_o : Obj) : Except ErrKind HKey := .error .readonly

end Barril
