/-
Core types of the barril model.  Core Lean only (no Mathlib): everything here is executable,
kernel-reducible and usable from the line-protocol drivers.

Strings of the library (unit symbols, unit names, categories, quantity types) are represented by
`Sym`: the little-endian base-256 code of their UTF-8 bytes.  The generated tables
(`Barril/Gen/*.lean`) contain only such codes, which keeps `decide +kernel` over 1500-row tables
fast; `Sym.toChars` decodes them where the text itself matters (grammar, legacy rewriting).
-/

namespace Barril

abbrev Sym := Nat

/-- bytes of a symbol code, least significant (= first character) first -/
def symBytesFuel : Nat → Nat → List Nat
  | 0, _ => []
  | fuel + 1, n => if n = 0 then [] else (n % 256) :: symBytesFuel fuel (n / 256)

def Sym.bytes (n : Sym) : List Nat := symBytesFuel n n

def Sym.ofBytes : List Nat → Sym
  | [] => 0
  | b :: bs => b + 256 * Sym.ofBytes bs

/-- table symbols are ASCII; a byte is mapped to the character with that code point -/
def Sym.toChars (n : Sym) : List Char := (Sym.bytes n).map Char.ofNat

def Sym.ofChars (cs : List Char) : Sym := Sym.ofBytes (cs.map Char.toNat)

def Sym.toString (n : Sym) : String := String.ofList (Sym.toChars n)

def Sym.ofString (s : String) : Sym := Sym.ofChars s.toList

/-- A Möbius map `x ↦ (p + q·x) / (r + s·x)`: the shape of every conversion formula of the table. -/
structure Mob where
  p : Rat
  q : Rat
  r : Rat
  s : Rat
deriving DecidableEq, Repr

def Mob.eval (m : Mob) (x : Rat) : Rat := (m.p + m.q * x) / (m.r + m.s * x)

def Mob.ident : Mob := ⟨0, 1, 1, 0⟩

/-- One `UnitInfo`, as read back from the database object by the translator. -/
structure UnitRow where
  qtype : Sym
  name : Sym
  sym : Sym
  /-- both stored callables could be executed symbolically as Möbius maps -/
  ok : Bool
  toBase : Mob
  fromBase : Mob
  /-- `tobase.__has_conversion__`, `frombase.__has_conversion__` -/
  hasConvTo : Bool
  hasConvFrom : Bool
  /-- the `__a__ … __d__` annotations of `tobase` / `frombase`, when present -/
  annTo : Option (Rat × Rat × Rat × Rat)
  annFrom : Option (Rat × Rat × Rat × Rat)
  /-- `default_category`; 0 when `None` or empty -/
  defaultCat : Sym
  /-- number of significant decimal digits the row's scale literals are written with
      (0 = exact: integers and short literals); used only by C06 -/
  digits : Nat
deriving DecidableEq, Repr

/-- One `CategoryInfo`. -/
structure CatRow where
  name : Sym
  qtype : Sym
  validUnits : Option (List Sym)
  defaultUnit : Sym
  defaultValue : Rat
  minV : Option Rat
  maxV : Option Rat
  minExcl : Bool
  maxExcl : Bool
  caption : Sym
deriving DecidableEq, Repr

/-- A unit database: unit rows in the iteration order of `quantity_types` (per quantity type in
registration order of the types, base unit first inside a type) and the categories in registration
order. -/
structure Db where
  units : List UnitRow
  cats : List CatRow
  /-- the module constant `_LEGACY_TO_CURRENT`, in order -/
  legacy : List (Sym × Sym) := []

/-- helper used by generated tables: a row from plain numerals -/
def R (n : Int) (d : Nat) : Rat := mkRat n d

/-- coarse error classes: the distinctions the properties make -/
inductive ErrKind
  | units        -- UnitsError and subclasses
  | type         -- TypeError
  | value        -- ValueError and subclasses
  | readonly     -- ReadOnlyError / NotImplementedError
  | key          -- KeyError and subclasses
  | index        -- IndexError
  | assertion    -- AssertionError
  | runtime      -- RuntimeError (not UnitsError)
  | other
deriving DecidableEq, Repr

def ErrKind.name : ErrKind → String
  | .units => "units" | .type => "type" | .value => "value" | .readonly => "readonly"
  | .key => "key" | .index => "index" | .assertion => "assertion" | .runtime => "runtime"
  | .other => "other"

/-! ### lookups -/

def Db.unitBySym (db : Db) (u : Sym) : Option UnitRow := db.units.find? (·.sym == u)

def Db.catByName (db : Db) (c : Sym) : Option CatRow := db.cats.find? (·.name == c)

def Db.unitsOfType (db : Db) (qt : Sym) : List UnitRow := db.units.filter (·.qtype == qt)

def Db.hasType (db : Db) (qt : Sym) : Bool := db.units.any (·.qtype == qt)

end Barril
