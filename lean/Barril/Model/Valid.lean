/-
Engine `Valid` (C12): limit validation of values with a quantity, written after the Python code
function by function.

* `Val`: a Python float as `fin q | posInf | negInf | nan`, with the IEEE-754 comparison and
  arithmetic rules written out (finite arithmetic is exact: rounding and overflow of finite values are
  not modelled, the correspondence stays away from 1e150 and compares within K·eps·M).
* `Mob.applyV`: a conversion formula of `posc.MakeCustomaryToBase` / `MakeBaseToCustomary` on such a
  value: `(a + b*x) / c` when `d == 0` (an infinity stays an infinity, with the sign of the slope), the
  general `(a + b*x) / (c + d*x)` otherwise; `AddUnitBase`'s `identity` returns its argument untouched.
* `CatInfo`/`Reg`: `CategoryInfo` and the category registry; `addCategory` = `UnitDatabase.AddCategory`
  (all arguments except the caption's title-casing).
* `mkQuant` = simple branch of `Quantity.__init__`; `checkValue` = `Quantity.CheckValue`;
  `doValidate` = `Array._DoValidateValues` (NaN-skipping min/max scan, tuple branch);
  `validateValues` = `Array.ValidateValues` (cached verdict); `isValid` = `IsValid` wrapper;
  `createCopy` = `Array.CreateCopy` without new values (`GetAbstractValue(unit)` + a fresh object).
-/
import Barril.Model.Conv

namespace Barril.Valid
open Barril

/-! ### floats with infinities and NaN -/

inductive Val
  | fin (q : Rat)
  | posInf
  | negInf
  | nan
deriving DecidableEq, Repr

namespace Val

def isNan : Val → Bool
  | nan => true
  | _ => false

/-- IEEE `<` -/
def lt : Val → Val → Bool
  | fin a, fin b => decide (a < b)
  | fin _, posInf => true
  | negInf, fin _ => true
  | negInf, posInf => true
  | _, _ => false

/-- IEEE `<=` -/
def le : Val → Val → Bool
  | fin a, fin b => decide (a ≤ b)
  | fin _, posInf => true
  | negInf, fin _ => true
  | negInf, posInf => true
  | posInf, posInf => true
  | negInf, negInf => true
  | _, _ => false

/-- IEEE `>` -/
def gt (a b : Val) : Bool := lt b a

/-- IEEE `>=` -/
def ge (a b : Val) : Bool := le b a

/-- an infinity with the sign of `s * (±1)` (`pos` = sign of the infinity), NaN for `s = 0` -/
def infTimes (s : Rat) (pos : Bool) : Val :=
  if s = 0 then nan else if (decide (0 < s)) == pos then posInf else negInf

/-- IEEE `*` -/
def mul : Val → Val → Val
  | nan, _ => nan
  | _, nan => nan
  | fin a, fin b => fin (a * b)
  | fin a, posInf => infTimes a true
  | fin a, negInf => infTimes a false
  | posInf, fin b => infTimes b true
  | negInf, fin b => infTimes b false
  | posInf, posInf => posInf
  | posInf, negInf => negInf
  | negInf, posInf => negInf
  | negInf, negInf => posInf

/-- IEEE `+` -/
def add : Val → Val → Val
  | nan, _ => nan
  | _, nan => nan
  | fin a, fin b => fin (a + b)
  | fin _, posInf => posInf
  | fin _, negInf => negInf
  | posInf, fin _ => posInf
  | negInf, fin _ => negInf
  | posInf, posInf => posInf
  | negInf, negInf => negInf
  | posInf, negInf => nan
  | negInf, posInf => nan

/-- Python float `/`: a zero divisor raises `ZeroDivisionError` whatever the dividend -/
def div : Val → Val → Except ErrKind Val
  | a, fin b =>
    if b = 0 then .error .other else
    match a with
    | fin a => .ok (fin (a / b))
    | posInf => .ok (infTimes b true)
    | negInf => .ok (infTimes b false)
    | nan => .ok nan
  | nan, _ => .ok nan
  | _, nan => .ok nan
  | fin _, _ => .ok (fin 0)
  | _, _ => .ok nan      -- inf / inf

end Val

/-- a conversion formula evaluated on a float, in the two shapes `posc.MakeCustomaryToBase` /
`MakeBaseToCustomary` choose between: without a variable term in the denominator (`d == 0`) the value is
`(p + q*x) / r` — an infinite `x` stays infinite, with the sign of the slope —, otherwise the general
`(p + q*x) / (r + s*x)` -/
def _root_.Barril.Mob.applyV (m : Mob) (v : Val) : Except ErrKind Val :=
  if m.s = 0 then Val.div (Val.add (.fin m.p) (Val.mul (.fin m.q) v)) (.fin m.r)
  else Val.div (Val.add (.fin m.p) (Val.mul (.fin m.q) v)) (Val.add (.fin m.r) (Val.mul (.fin m.s) v))

/-- `info.tobase(value)`: `identity` (flagged `__has_conversion__ = False`) or the formula -/
def toBaseV (r : UnitRow) (v : Val) : Except ErrKind Val :=
  if r.hasConvTo then r.toBase.applyV v else .ok v

/-- `info.frombase(value)` -/
def fromBaseV (r : UnitRow) (v : Val) : Except ErrKind Val :=
  if r.hasConvFrom then r.fromBase.applyV v else .ok v

/-- `other.frombase(this.tobase(value))` -/
def convRowsV (this other : UnitRow) (v : Val) : Except ErrKind Val :=
  if !(this.ok && other.ok) then .error .other else
  match toBaseV this v with
  | .error e => .error e
  | .ok b => fromBaseV other b

/-- the shape assumption of `applyV`, as a row predicate for the generated tables: a side flagged
`__has_conversion__ = False` is the identity, every other side carries the `__a__ … __d__`
annotations (so it was made by `MakeCustomaryToBase` / `MakeBaseToCustomary`, and
`UnitRow.annAgree` ties its coefficients to the formula that is executed) -/
def _root_.Barril.UnitRow.valShape (w : UnitRow) : Bool :=
  (if w.hasConvTo then w.annTo.isSome else w.toBase == Mob.ident)
  && (if w.hasConvFrom then w.annFrom.isSome else w.fromBase == Mob.ident)

/-! ### categories -/

/-- `CategoryInfo` (the default value may be any float) -/
structure CatInfo where
  name : Sym
  qtype : Sym
  validUnits : Option (List Sym)
  defaultUnit : Sym
  defaultValue : Val
  minV : Option Rat
  maxV : Option Rat
  minExcl : Bool
  maxExcl : Bool
  caption : Sym
deriving DecidableEq, Repr

/-- the part of a category the `Conv` engine looks at (name and quantity type) -/
def CatInfo.toRow (c : CatInfo) : CatRow :=
  { name := c.name, qtype := c.qtype, validUnits := c.validUnits, defaultUnit := c.defaultUnit,
    defaultValue := (match c.defaultValue with | .fin q => q | _ => 0),
    minV := c.minV, maxV := c.maxV, minExcl := c.minExcl, maxExcl := c.maxExcl, caption := c.caption }

/-- a unit table with a private category registry (`categories_to_quantity_types`; the newest
registration of a name is found first) -/
structure Reg where
  units : List UnitRow
  legacy : List (Sym × Sym)
  cats : List CatInfo

def Reg.db (g : Reg) : Db := ⟨g.units, g.cats.map CatInfo.toRow, g.legacy⟩

/-- `GetCategoryInfo` -/
def Reg.cat? (g : Reg) (c : Sym) : Option CatInfo := g.cats.find? (·.name == c)

/-! ### quantities -/

/-- what `CheckValue` reads from a `Quantity`: derived or (category info, unit, `_tobase` row) -/
inductive Quant
  | simple (cat : CatInfo) (unit : Sym) (this : UnitRow)
  | derived
deriving Repr

/-- the unit `Quantity.__init__` settles on: as given when `CheckCategoryUnit` accepts it, else its
legacy-fixed spelling when that one is accepted -/
def settleUnit (g : Reg) (c u : Sym) : Option Sym :=
  if g.db.categoryUnitValid c u then some u
  else if isLegacy g.legacy u && g.db.categoryUnitValid c (fixLegacy g.legacy u) then
    some (fixLegacy g.legacy u)
  else none

/-- simple branch of `Quantity.__init__(category, unit)` (through `ObtainQuantity`) -/
def mkQuant (g : Reg) (c u : Sym) : Except ErrKind Quant :=
  match g.cat? c with
  | none => .error .units
  | some ci =>
    match settleUnit g c u with
    | none => .error .units
    | some u' =>
      match g.db.getInfo ci.qtype u' true with
      | .ok r => .ok (.simple ci u' r)
      | .error e => .error e

/-- `GetDefaultCategory(unit)`: the unit's own `default_category` when it has one, else its quantity
type when a category of that name is registered; a legacy spelling is looked up under its current one
(`KeyError` when that is no unit either) -/
def pickDefaultCat (g : Reg) (r : UnitRow) : Option Sym :=
  if r.defaultCat != 0 then some r.defaultCat
  else if (g.cat? r.qtype).isSome then some r.qtype
  else none

def defaultCategory (g : Reg) (u : Sym) : Except ErrKind (Option Sym) :=
  match g.db.unitBySym u with
  | some r => .ok (pickDefaultCat g r)
  | none =>
    if isLegacy g.legacy u then
      match g.db.unitBySym (fixLegacy g.legacy u) with
      | some r => .ok (pickDefaultCat g r)
      | none => .error .key
    else .ok none

/-- `ObtainQuantity(unit)` without a category (`Scalar(1.0, 'm')`, `Array([..], 'm')`, …): the default
category of the unit — of its legacy-fixed spelling when the unit itself has none — looked up in the
registry as it is NOW (a registration empties the quantity cache), then the named construction -/
def mkQuantNoCat (g : Reg) (u : Sym) : Except ErrKind Quant :=
  match defaultCategory g u with
  | .error e => .error e
  | .ok (some c) => mkQuant g c u
  | .ok none =>
    if isLegacy g.legacy u then
      match defaultCategory g (fixLegacy g.legacy u) with
      | .error e => .error e
      | .ok (some c) => mkQuant g c (fixLegacy g.legacy u)
      | .ok none => .error .type          -- `Quantity(None, unit)`: "Only str is accepted"
    else .error .units

/-! ### `Quantity.CheckValue` -/

inductive CmpOp | gt | ge | lt | le
deriving DecidableEq, Repr

def CmpOp.name : CmpOp → String
  | .gt => ">" | .ge => ">=" | .lt => "<" | .le => "<="

/-- `QuantityValidationError(operator, limit_value, value)` or any other exception -/
inductive VErr
  | validation (op : CmpOp) (limit : Rat) (value : Val)
  | other (e : ErrKind)
deriving DecidableEq, Repr

/-- "checking minimum value" -/
def checkMin (c : CatInfo) (v : Val) : Except VErr Unit :=
  match c.minV with
  | none => .ok ()
  | some m =>
    if c.minExcl then
      if Val.gt v (.fin m) then .ok () else .error (.validation .gt m v)
    else
      if Val.ge v (.fin m) then .ok () else .error (.validation .ge m v)

/-- "checking maximum value" -/
def checkMax (c : CatInfo) (v : Val) : Except VErr Unit :=
  match c.maxV with
  | none => .ok ()
  | some m =>
    if c.maxExcl then
      if Val.lt v (.fin m) then .ok () else .error (.validation .lt m v)
    else
      if Val.le v (.fin m) then .ok () else .error (.validation .le m v)

def checkLimits (c : CatInfo) (v : Val) : Except VErr Unit :=
  match checkMin c v with
  | .error e => .error e
  | .ok _ => checkMax c v

/-- "convert value to check limit": `ConvertScalarValue(value, default_unit)` of a simple quantity,
guarded by `unit != default_unit` -/
def convToDefault (g : Reg) (c : CatInfo) (unit : Sym) (this : UnitRow) (v : Val) : Except ErrKind Val :=
  if unit == c.defaultUnit then .ok v else
  match g.db.getInfo c.qtype c.defaultUnit true with
  | .error e => .error e
  | .ok other => convRowsV this other v

def CatInfo.limited (c : CatInfo) : Bool := c.minV.isSome || c.maxV.isSome

/-- `Quantity.CheckValue(value)` -/
def checkValue (g : Reg) (q : Quant) (v : Val) : Except VErr Unit :=
  match q with
  | .derived => .ok ()
  | .simple c unit this =>
    if !c.limited then .ok () else
    match convToDefault g c unit this v with
    | .error e => .error (.other e)
    | .ok v' => checkLimits c v'

/-! ### `Array._DoValidateValues` -/

/-- the inner loop: "keep on the iteration now that we can already make the check" -/
def scanRest (mn mx : Val) : List Val → Val × Val
  | [] => (mn, mx)
  | v :: vs =>
    if v.isNan then scanRest mn mx vs
    else if Val.lt v mn then scanRest v mx vs
    else if Val.gt v mx then scanRest mn v vs
    else scanRest mn mx vs

/-- the outer loop: "search for the first non-NaN value to initialize MIN/MAX" -/
def scan : List Val → Option (Val × Val)
  | [] => none
  | v :: vs => if v.isNan then scan vs else some (scanRest v v vs)

inductive Container | list | tuple | ndarray
deriving DecidableEq, Repr

/-- an element of a container whose first element is a tuple -/
inductive Item
  | num (v : Val)
  | tup (vs : List Val)
deriving DecidableEq, Repr

/-- the stored `values`: a flat container of numbers, or a list/tuple whose first element is a
tuple (`isinstance(values[0], tuple)`) -/
inductive ArrVal
  | flat (kind : Container) (vs : List Val)
  | nested (kind : Container) (first : List Val) (rest : List Item)
deriving DecidableEq, Repr

/-- `for v in value: CheckValue(v)` -/
def checkAll (g : Reg) (q : Quant) : List Val → Except VErr Unit
  | [] => .ok ()
  | v :: vs =>
    match checkValue g q v with
    | .error e => .error e
    | .ok _ => checkAll g q vs

/-- `for value in values: if isinstance(value, tuple): …` (other elements are passed over) -/
def checkItems (g : Reg) (q : Quant) : List Item → Except VErr Unit
  | [] => .ok ()
  | .num _ :: r => checkItems g q r
  | .tup vs :: r =>
    match checkAll g q vs with
    | .error e => .error e
    | .ok _ => checkItems g q r

/-- the flat branch: `CheckValue(min_value); CheckValue(max_value)` of the non-NaN elements
(`float(...)` of numpy scalars changes nothing here) -/
def checkFlat (g : Reg) (q : Quant) (vs : List Val) : Except VErr Unit :=
  match scan vs with
  | none => .ok ()
  | some (mn, mx) =>
    match checkValue g q mn with
    | .error e => .error e
    | .ok _ => checkValue g q mx

/-- `Array._DoValidateValues(values, quantity)` -/
def doValidate (g : Reg) (q : Quant) (a : ArrVal) : Except VErr Unit :=
  match q with
  | .derived => .ok ()
  | .simple c _ _ =>
    if !c.limited then .ok () else
    match a with
    | .flat _ vs => checkFlat g q vs
    | .nested _ first rest => checkItems g q (.tup first :: rest)

/-! ### the value objects -/

/-- the `_is_valid` / `_validity_exception` attributes of an `Array` -/
structure Cache where
  isValid : Option Bool
  exc : Option VErr
deriving DecidableEq, Repr

def Cache.fresh : Cache := ⟨none, none⟩

/-- `Array.ValidateValues` (= `Array.CheckValidity`): the verdict is computed once -/
def validateValues (g : Reg) (q : Quant) (a : ArrVal) (k : Cache) : Cache × Except VErr Unit :=
  if k.isValid == some true then (k, .ok ()) else
  match k.exc with
  | some e => (k, .error e)
  | none =>
    match doValidate g q a with
    | .error e => (⟨some false, some e⟩, .error e)
    | .ok _ => (⟨some true, k.exc⟩, .ok ())

/-- a Scalar (value), a FractionScalar (its `float(value)`) or an Array (values + cache) -/
inductive Obj
  | scalar (v : Val)
  | fraction (v : Val)
  | array (a : ArrVal) (k : Cache)
deriving Repr

/-- `CheckValidity()` of the three classes -/
def checkValidity (g : Reg) (q : Quant) : Obj → Obj × Except VErr Unit
  | .scalar v => (.scalar v, checkValue g q v)
  | .fraction v => (.fraction v, checkValue g q v)
  | .array a k => let r := validateValues g q a k; (.array a r.1, r.2)

/-- is the exception a `ValueError`? (`QuantityValidationError` is one) -/
def VErr.isValueError : VErr → Bool
  | .validation _ _ _ => true
  | .other .value => true
  | .other _ => false

/-- `AbstractValueWithQuantityObject.IsValid()`: derived ⇒ True; a `ValueError` ⇒ False; any other
exception propagates -/
def isValid (g : Reg) (q : Quant) (o : Obj) : Obj × Except VErr Bool :=
  match q with
  | .derived => (o, .ok true)
  | .simple _ _ _ =>
    match checkValidity g q o with
    | (o', .ok _) => (o', .ok true)
    | (o', .error e) => if e.isValueError then (o', .ok false) else (o', .error e)

inductive Call | check | isValid
deriving DecidableEq, Repr

inductive CallOut
  | checked (r : Except VErr Unit)
  | valid (r : Except VErr Bool)
deriving Repr

def call (g : Reg) (q : Quant) (o : Obj) : Call → Obj × CallOut
  | .check => let r := checkValidity g q o; (r.1, .checked r.2)
  | .isValid => let r := isValid g q o; (r.1, .valid r.2)

/-- a sequence of calls on one object -/
def calls (g : Reg) (q : Quant) : Obj → List Call → List CallOut
  | _, [] => []
  | o, c :: cs => (call g q o c).2 :: calls g q (call g q o c).1 cs

/-! ### `Array.CreateCopy(values=None, unit, category)` -/

/-- `tuple/list(frombase(tobase(v)) for v in value)` -/
def convElems (this other : UnitRow) : List Val → Except ErrKind (List Val)
  | [] => .ok []
  | v :: vs =>
    match convRowsV this other v with
    | .error e => .error e
    | .ok w =>
      match convElems this other vs with
      | .error e => .error e
      | .ok ws => .ok (w :: ws)

/-- the two rows `UnitDatabase.Convert(category, from_unit, to_unit, …)` works with -/
def convRowsOf (g : Reg) (cat fromU toU : Sym) : Except ErrKind (UnitRow × UnitRow) :=
  match g.db.typeOf cat with
  | .error e => .error e
  | .ok qt =>
    match g.db.getInfo qt fromU true with
    | .error e => .error e
    | .ok this =>
      match g.db.getInfo qt toU true with
      | .error e => .error e
      | .ok other => .ok (this, other)

/-- the elements of a list of tuples, converted tuple by tuple (`Quantity.Convert` per number, so the
rows are looked up only when there is a number to convert); an element that is not a tuple cannot be
iterated: `TypeError` -/
def convItems (g : Reg) (cat fromU toU : Sym) : List Item → Except ErrKind (List Item)
  | [] => .ok []
  | .num _ :: _ => .error .type
  | .tup [] :: r =>
    match convItems g cat fromU toU r with
    | .error e => .error e
    | .ok r' => .ok (.tup [] :: r')
  | .tup (v :: vs) :: r =>
    match convRowsOf g cat fromU toU with
    | .error e => .error e
    | .ok (this, other) =>
      match convElems this other (v :: vs) with
      | .error e => .error e
      | .ok ws =>
        match convItems g cat fromU toU r with
        | .error e => .error e
        | .ok r' => .ok (.tup ws :: r')

/-- `Array.GetAbstractValue(unit)`: the stored values when no unit or the own unit is asked, else
their conversion (container kind kept) -/
def valuesIn (g : Reg) (cat unit : Sym) (toUnit : Option Sym) (a : ArrVal) : Except ErrKind ArrVal :=
  match toUnit with
  | none => .ok a
  | some u =>
    if u == unit then .ok a else
    match a with
    | .flat kind vs =>
      match convRowsOf g cat unit u with
      | .error e => .error e
      | .ok (this, other) =>
        match convElems this other vs with
        | .error e => .error e
        | .ok ws => .ok (.flat kind ws)
    | .nested kind first rest =>
      match convItems g cat unit u (.tup first :: rest) with
      | .ok (.tup f' :: r') => .ok (.nested kind f' r')
      | .ok _ => .error .other          -- unreachable: `convItems` keeps the shape
      | .error e => .error e

/-- `Array.CreateCopy(unit=…, category=…)` without new values: the values in the requested unit, a
quantity obtained for (unit, category) — the own category when none is given — and a NEW object: nothing
of the source's memoised verdict is carried over (`_InternalCreateWithQuantity` resets it).  A `TypeError`
(category without unit, values that cannot be converted) is re-raised as `TypeError`.  Not modelled:
copies of derived quantities and of the empty category. -/
def createCopy (g : Reg) (q : Quant) (a : ArrVal) (_k : Cache) (unit cat : Option Sym) :
    Except ErrKind (Quant × Obj) :=
  match q with
  | .derived => .error .other
  | .simple c u _ =>
    match valuesIn g c.name u unit a with
    | .error e => .error e
    | .ok a' =>
      match unit, cat with
      | none, none => .ok (q, .array a' Cache.fresh)
      | none, some _ => .error .type
      | some u', some c' =>
        match mkQuant g c' u' with
        | .error e => .error e
        | .ok q' => .ok (q', .array a' Cache.fresh)
      | some u', none =>
        if c.name == 0 then .error .other else
        match mkQuant g c.name u' with
        | .error e => .error e
        | .ok q' => .ok (q', .array a' Cache.fresh)

/-- the object after a sequence of calls -/
def afterCalls (g : Reg) (q : Quant) : Obj → List Call → Obj
  | o, [] => o
  | o, c :: cs => afterCalls g q (call g q o c).1 cs

/-! ### objects that come out of an operation

`ObtainQuantity` in its mapping and list forms, `Quantity._CreateDerived`, the result quantity of
`UnitDatabase.Sum/Subtract/Multiply/Divide` for an object of ONE category, `Array._DoOperation` /
`Scalar._DoOperation`, the pickle round trip (`Quantity.__reduce__` → `_ObtainReduced`) and
`CreateWithQuantity`.  A produced object is (quantity, values): nothing else is stored. -/

/-- one item of `category_to_unit_and_exps`: category, unit, exponent -/
abbrev Entry := Sym × Sym × Int

/-- "every unit must belong to the quantity type of its category" (the cache miss of the composing form
of `ObtainQuantity`; `_CreateDerived(validate_category_and_units=True)` makes the same two look-ups) -/
def composingOK (g : Reg) : List Entry → Except ErrKind Unit
  | [] => .ok ()
  | (c, u, _) :: es =>
    match g.cat? c with
    | none => .error .units
    | some ci =>
      match g.db.checkQuantityTypeUnit ci.qtype u with
      | .error e => .error e
      | .ok _ => composingOK g es

/-- `Quantity(mapping, None)`: a derived quantity -/
def obtainComposing (g : Reg) (es : List Entry) : Except ErrKind Quant :=
  match composingOK g es with
  | .error e => .error e
  | .ok _ => .ok .derived

/-- `ObtainQuantity(mapping)`: "although passed as composing, it's a simple case" when the mapping has
ONE category with exponent 1 (then the simple construction is made), else the composing form (mappings
with a repeated category are not modelled) -/
def obtainMapping (g : Reg) : List Entry → Except ErrKind Quant
  | [(c, u, e)] => if e = 1 then mkQuant g c u else obtainComposing g [(c, u, e)]
  | es => obtainComposing g es

/-- `Quantity._CreateDerived(mapping, validate_category_and_units=True)` (= `CreateDerived`) -/
def createDerived (g : Reg) (es : List Entry) : Except ErrKind Quant :=
  match composingOK g es with
  | .error e => .error e
  | .ok _ => obtainMapping g es

/-- the `category` argument of the list form -/
inductive CatArg
  | none
  | one (c : Sym)
  | many (cs : List Sym)
deriving DecidableEq, Repr

/-- `zip(category, unit)` -/
def zipEntries : List Sym → List (Sym × Int) → List Entry
  | c :: cs, (u, e) :: us => (c, u, e) :: zipEntries cs us
  | _, _ => []

/-- `ObtainQuantity([(unit, exp), …], category)`: ONE unit with exponent 1 is the simple case (the first
category of a list is taken, `IndexError` for an empty one; no category = the default category of the
unit), otherwise the categories must be a list and the mapping form takes over -/
def obtainList (g : Reg) (units : List (Sym × Int)) (cat : CatArg) : Except ErrKind Quant :=
  let composing : Except ErrKind Quant :=
    match cat with
    | .many cs => obtainMapping g (zipEntries cs units)
    | _ => .error .assertion
  match units with
  | [(u, e)] =>
    if e = 1 then
      match cat with
      | .none => mkQuantNoCat g u
      | .one c => mkQuant g c u
      | .many [] => .error .index
      | .many (c :: _) => mkQuant g c u
    else composing
  | _ => composing

namespace Val

def neg : Val → Val
  | fin a => fin (-a)
  | posInf => negInf
  | negInf => posInf
  | nan => nan

/-- IEEE `-` -/
def sub (a b : Val) : Val := add a (neg b)

end Val

inductive BinOp | add | sub | mul | div
deriving DecidableEq, Repr

/-- `lambda a, b: a <op> b` on Python floats -/
def BinOp.apply : BinOp → Val → Val → Except ErrKind Val
  | .add, a, b => .ok (Val.add a b)
  | .sub, a, b => .ok (Val.sub a b)
  | .mul, a, b => .ok (Val.mul a b)
  | .div, a, b => Val.div a b

/-- the operation element by element with a fixed number on one side (`_ValueGenerator`) -/
def opElems (op : BinOp) (x : Val) (numLeft : Bool) : List Val → Except ErrKind (List Val)
  | [] => .ok []
  | v :: vs =>
    match (if numLeft then op.apply x v else op.apply v x) with
    | .error e => .error e
    | .ok w =>
      match opElems op x numLeft vs with
      | .error e => .error e
      | .ok ws => .ok (w :: ws)

/-- the values of an object as they are stored (no memoised verdict) -/
inductive Shape
  | scalar (v : Val)
  | fraction (v : Val)
  | array (a : ArrVal)
deriving DecidableEq, Repr

/-- a NEW object with these values -/
def Shape.obj : Shape → Obj
  | .scalar v => .scalar v
  | .fraction v => .fraction v
  | .array a => .array a Cache.fresh

/-- the quantity of `<object of ONE category> <op> <number>` (the other side is `Quantity.CreateEmpty()`):
`Sum`/`Subtract` copy the object's quantity through `CreateCopyInstance` (mapping form, not validated),
`Multiply`/`Divide` go through `CreateDerived` (validated) with the exponent `0 ± 1` when the number is on
the left.  Operations on an object whose quantity is already derived are not modelled. -/
def opNumberQuant (g : Reg) (q : Quant) (op : BinOp) (numLeft : Bool) : Except ErrKind Quant :=
  match q with
  | .derived => .error .other
  | .simple c u _ =>
    match op with
    | .add => obtainMapping g [(c.name, u, 1)]
    | .sub => obtainMapping g [(c.name, u, 1)]
    | .mul => createDerived g [(c.name, u, 1)]
    | .div => createDerived g [(c.name, u, if numLeft then -1 else 1)]

/-- `Array._DoOperation` with a plain number on one side (flat values; list, tuple or numpy alike: a zero
divisor is an error here, numpy's inf/nan answer is not modelled), and `Scalar._DoOperation` with a
number: the scalar keeps its quantity object, except `number / scalar` which asks `Divide`.
FractionScalar has no arithmetic (`TypeError`). -/
def opNumber (g : Reg) (q : Quant) (s : Shape) (op : BinOp) (x : Val) (numLeft : Bool) :
    Except ErrKind (Quant × Shape) :=
  match s with
  | .fraction _ => .error .type
  | .array (.nested _ _ _) => .error .other          -- not modelled
  | .array (.flat kind vs) =>
    match opNumberQuant g q op numLeft with
    | .error e => .error e
    | .ok q' =>
      match opElems op x numLeft vs with
      | .error e => .error e
      | .ok ws => .ok (q', .array (.flat kind ws))
  | .scalar v =>
    if numLeft && op == .div then
      match opNumberQuant g q .div true with
      | .error e => .error e
      | .ok q' =>
        match BinOp.div.apply x v with
        | .error e => .error e
        | .ok w => .ok (q', .scalar w)
    else
      match (if numLeft then op.apply x v else op.apply v x) with
      | .error e => .error e
      | .ok w => .ok (q, .scalar w)

/-- element by element: `operation(value1, Convert(quantity_type, unit2, unit1, value2))` -/
def opPairs (op : BinOp) (conv : Option (UnitRow × UnitRow)) : List Val → List Val → Except ErrKind (List Val)
  | v :: vs, w :: ws =>
    let w' : Except ErrKind Val := match conv with
      | none => .ok w
      | some (this, other) => convRowsV this other w
    match w' with
    | .error e => .error e
    | .ok w' =>
      match op.apply v w' with
      | .error e => .error e
      | .ok r =>
        match opPairs op conv vs ws with
        | .error e => .error e
        | .ok rs => .ok (r :: rs)
  | _, _ => .ok []

/-- `quantity1.CreateCopyInstance(mapping1)`, `quantity2.CreateCopyInstance(mapping2)`: both are obtained
again through the mapping form; the first one is the quantity of the result -/
def reobtainPair (g : Reg) (e1 e2 : Entry) : Except ErrKind Quant :=
  match obtainMapping g [e1] with
  | .error e => .error e
  | .ok q1' =>
    match obtainMapping g [e2] with
    | .error e => .error e
    | .ok _ => .ok q1'

/-- the rows `Convert(quantity_type, unit2, unit1, value2)` works with (none: same unit, value as it is) -/
def matchConv (g : Reg) (qt u2 u1 : Sym) : Except ErrKind (Option (UnitRow × UnitRow)) :=
  if u2 == u1 then .ok none else
  match convRowsOf g qt u2 u1 with
  | .error e => .error e
  | .ok rows => .ok (some rows)

/-- `UnitDatabase._DoOperationWithSameQuantity` (`Sum`, `Subtract`) on two simple quantities: equal
quantities are kept; otherwise `_MatchQuantities` rewrites the second operand in the unit of the first
when both categories have the same quantity type, both quantities are re-obtained through the mapping
form and their units must agree (`InvalidOperationError`).  Answer: the quantity of the result and the
rows the second operand's values are converted with. -/
def sameQuantityOp (g : Reg) (q1 q2 : Quant) : Except ErrKind (Quant × Option (UnitRow × UnitRow)) :=
  match q1, q2 with
  | .simple c1 u1 _, .simple c2 u2 _ =>
    if c1.name == c2.name && u1 == u2 then .ok (q1, none) else
    match g.cat? c1.name, g.cat? c2.name with
    | some i1, some i2 =>
      if i1.qtype == i2.qtype then
        match matchConv g i2.qtype u2 u1 with
        | .error e => .error e
        | .ok conv =>
          match reobtainPair g (c1.name, u1, 1) (c2.name, u1, 1) with
          | .error e => .error e
          | .ok q => .ok (q, conv)
      else
        match reobtainPair g (c1.name, u1, 1) (c2.name, u2, 1) with
        | .error e => .error e
        | .ok q => if u1 == u2 then .ok (q, none) else .error .units
    | _, _ => .error .units
  | _, _ => .error .other          -- derived operands: not modelled

/-- `Array + Array`, `Array - Array`, `Scalar ± Scalar` (flat arrays of the same length, else
`ValueError`; other operations and mixed operands are not modelled) -/
def opObjects (g : Reg) (q1 : Quant) (s1 : Shape) (q2 : Quant) (s2 : Shape) (op : BinOp) :
    Except ErrKind (Quant × Shape) :=
  if op == .mul || op == .div then .error .other else
  match s1, s2 with
  | .scalar v, .scalar w =>
    match sameQuantityOp g q1 q2 with
    | .error e => .error e
    | .ok (q, conv) =>
      match opPairs op conv [v] [w] with
      | .ok [r] => .ok (q, .scalar r)
      | .ok _ => .error .other
      | .error e => .error e
  | .array (.flat kind vs), .array (.flat _ ws) =>
    if vs.length != ws.length then .error .value else
    match sameQuantityOp g q1 q2 with
    | .error e => .error e
    | .ok (q, conv) =>
      match opPairs op conv vs ws with
      | .error e => .error e
      | .ok rs => .ok (q, .array (.flat kind rs))
  | _, _ => .error .other

/-- `pickle.loads(pickle.dumps(x))` of a Scalar / FixedArray: the quantity travels as its mapping
(`Quantity.__reduce__`) and is obtained again from it (`_ObtainReduced`); the values travel as they are -/
def pickled (g : Reg) (q : Quant) (s : Shape) : Except ErrKind (Quant × Shape) :=
  match q with
  | .derived => .error .other
  | .simple c u _ =>
    match obtainMapping g [(c.name, u, 1)] with
    | .error e => .error e
    | .ok q' => .ok (q', s)

/-- `Scalar.CreateCopy(unit=…, category=…)` without a new value: `GetAbstractValue(unit)` —
`Quantity.ConvertScalarValue`, the value as it is for the own unit — and a quantity obtained for (unit,
category) like `Array.CreateCopy` does -/
def createCopyScalar (g : Reg) (q : Quant) (v : Val) (unit cat : Option Sym) : Except ErrKind (Quant × Val) :=
  match q with
  | .derived => .error .other
  | .simple c u this =>
    let value : Except ErrKind Val := match unit with
      | none => .ok v
      | some u' =>
        if u == u' then .ok v else
        match g.db.getInfo c.qtype u' true with
        | .error e => .error e
        | .ok other => convRowsV this other v
    match value with
    | .error e => .error e
    | .ok v' =>
      match unit, cat with
      | none, none => .ok (q, v')
      | none, some _ => .error .type
      | some u', some c' =>
        match mkQuant g c' u' with
        | .error e => .error e
        | .ok q' => .ok (q', v')
      | some u', none =>
        if c.name == 0 then .error .other else
        match mkQuant g c.name u' with
        | .error e => .error e
        | .ok q' => .ok (q', v')

/-- how an object came to be -/
inductive Prov
  /-- `Scalar(c, v, u)`, `FractionScalar(c, v, u)`, `Array(c, values, u)`, `FixedArray(n, c, values, u)` -/
  | direct (c u : Sym) (s : Shape)
  /-- `X.CreateWithQuantity(ObtainQuantity(mapping), values)` / `X(ObtainQuantity(mapping), values)` -/
  | viaMapping (es : List Entry) (s : Shape)
  /-- the same with the list form `ObtainQuantity([(unit, exp), …], category)` -/
  | viaList (units : List (Sym × Int)) (cat : CatArg) (s : Shape)
  /-- `x <op> number` / `number <op> x` -/
  | opNumber (p : Prov) (op : BinOp) (x : Val) (numLeft : Bool)
  /-- `x + y`, `x - y` -/
  | opObjects (p1 p2 : Prov) (op : BinOp)
  /-- pickle round trip -/
  | pickle (p : Prov)
  /-- `x.CreateCopy(unit=…, category=…)` of an Array / FixedArray / Scalar -/
  | copy (p : Prov) (unit cat : Option Sym)
  /-- `CheckValidity()` / `IsValid()` calls on the object before it is used further (their answers are
  dropped; what an Array memoises stays in that Array: every operation builds its result from the values) -/
  | validated (p : Prov) (cs : List Call)
deriving Repr

/-- the object a production path yields -/
def build (g : Reg) : Prov → Except ErrKind (Quant × Shape)
  | .direct c u s =>
    match mkQuant g c u with
    | .error e => .error e
    | .ok q => .ok (q, s)
  | .viaMapping es s =>
    match obtainMapping g es with
    | .error e => .error e
    | .ok q => .ok (q, s)
  | .viaList units cat s =>
    match obtainList g units cat with
    | .error e => .error e
    | .ok q => .ok (q, s)
  | .opNumber p op x numLeft =>
    match build g p with
    | .error e => .error e
    | .ok (q, s) => opNumber g q s op x numLeft
  | .opObjects p1 p2 op =>
    match build g p1 with
    | .error e => .error e
    | .ok (q1, s1) =>
      match build g p2 with
      | .error e => .error e
      | .ok (q2, s2) => opObjects g q1 s1 q2 s2 op
  | .pickle p =>
    match build g p with
    | .error e => .error e
    | .ok (q, s) => pickled g q s
  | .copy p unit cat =>
    match build g p with
    | .error e => .error e
    | .ok (q, .array a) =>
      match createCopy g q a Cache.fresh unit cat with
      | .ok (q', .array a' _) => .ok (q', .array a')
      | .ok _ => .error .other          -- unreachable: `createCopy` yields an array
      | .error e => .error e
    | .ok (q, .scalar v) =>
      match createCopyScalar g q v unit cat with
      | .ok (q', v') => .ok (q', .scalar v')
      | .error e => .error e
    | .ok (_, .fraction _) => .error .other            -- CreateCopy of a FractionScalar: not modelled
  | .validated p _ => build g p

/-! ### `UnitDatabase.AddCategory` -/

structure AddArgs where
  category : Sym
  qtype : Option Sym := none
  validUnits : Option (List Sym) := none
  override : Bool := false
  defaultUnit : Option Sym := none
  defaultValue : Option Val := none
  minV : Option Rat := none
  maxV : Option Rat := none
  minExcl : Bool := false
  maxExcl : Bool := false
  caption : Sym := 0
  fromCategory : Option Sym := none
deriving Repr

/-- an optional string argument that is truthy in Python (given and non-empty) -/
def truthyName : Option Sym → Option Sym
  | some s => if s != 0 then some s else none
  | none => none

def truthy (o : Option Sym) : Bool := (truthyName o).isSome

/-- `GetUnits(quantity_type)`: the unit symbols of a type, `InvalidQuantityTypeError` when unknown -/
def Reg.unitsOf (g : Reg) (qt : Sym) : Except ErrKind (List Sym) :=
  if g.db.hasType qt then .ok ((g.db.unitsOfType qt).map (·.sym)) else .error .units

/-- the arguments after "from_category" filled the missing ones -/
def mergeFrom (a : AddArgs) (src : CatInfo) : AddArgs :=
  { a with
    qtype := some src.qtype
    validUnits := (match a.validUnits with | none => src.validUnits | some v => some v)
    defaultUnit := (match a.defaultUnit with | none => some src.defaultUnit | some u => some u)
    defaultValue := (match a.defaultValue with | none => some src.defaultValue | some v => some v)
    minV := (match a.minV with | none => src.minV | some m => some m)
    maxV := (match a.maxV with | none => src.maxV | some m => some m) }

/-- "valid units given: check if all the given units are valid" — legacy spellings are fixed in
the (copied) list, an unknown unit raises `ValueError` -/
def fixValidUnits (g : Reg) (qunits : List Sym) : List Sym → Except ErrKind (List Sym)
  | [] => .ok []
  | u :: us =>
    let fu := fixLegacy g.legacy u
    if qunits.contains fu then
      match fixValidUnits g qunits us with
      | .ok r => .ok (fu :: r)
      | .error e => .error e
    else .error .value

/-- the default unit: given (legacy-fixed, must be a unit of the type) or the base unit of the type,
replaced by the first valid unit when the base is not one of a non-empty list of valid units -/
def pickDefaultUnit (g : Reg) (qt : Sym) (valid : Option (List Sym)) : Option Sym → Except ErrKind Sym
  | none =>
    match g.unitsOf qt with
    | .error e => .error e
    | .ok [] => .error .index            -- `infos[0]` of an empty list
    | .ok (base :: _) =>
      match valid with
      | some (v0 :: vs) => if (v0 :: vs).contains base then .ok base else .ok v0
      | _ => .ok base
  | some du =>
    match g.unitsOf qt with
    | .error e => .error e
    | .ok qunits =>
      let fu := fixLegacy g.legacy du
      if qunits.contains fu then .ok fu else .error .value

/-- the four `assert default_value <op> limit` statements -/
def assertDefault (minV maxV : Option Rat) (minExcl maxExcl : Bool) (d : Val) : Bool :=
  (match minV with
   | none => true
   | some m => if minExcl then Val.gt d (.fin m) else Val.ge d (.fin m))
  &&
  (match maxV with
   | none => true
   | some m => if maxExcl then Val.lt d (.fin m) else Val.le d (.fin m))

/-- the default value: given (asserted against the limits) or min, else max, else 0.0; not
derivable when a limit is flagged exclusive -/
def pickDefaultValue (minV maxV : Option Rat) (minExcl maxExcl : Bool) : Option Val → Except ErrKind Val
  | none =>
    if minExcl || maxExcl then .error .runtime
    else match minV, maxV with
      | some m, _ => .ok (.fin m)
      | none, some m => .ok (.fin m)
      | none, none => .ok (.fin 0)
  | some d => if assertDefault minV maxV minExcl maxExcl d then .ok d else .error .assertion

/-- "valid units given: check if all the given units are valid" -/
def fixValidOpt (g : Reg) (qt : Sym) : Option (List Sym) → Except ErrKind (Option (List Sym))
  | none => .ok none
  | some vs =>
    match g.unitsOf qt with
    | .error e => .error e
    | .ok qunits =>
      match fixValidUnits g qunits vs with
      | .ok r => .ok (some r)
      | .error e => .error e

/-- the part of `AddCategory` after the `from_category` merge -/
def addCategoryCore (g : Reg) (a : AddArgs) : Except ErrKind CatInfo :=
  match a.qtype with
  | none => .error .assertion
  | some qt =>
    match fixValidOpt g qt a.validUnits with
    | .error e => .error e
    | .ok valid =>
      match pickDefaultUnit g qt valid a.defaultUnit with
      | .error e => .error e
      | .ok du =>
        match pickDefaultValue a.minV a.maxV a.minExcl a.maxExcl a.defaultValue with
        | .error e => .error e
        | .ok dv =>
          .ok { name := a.category, qtype := qt, validUnits := valid, defaultUnit := du,
                defaultValue := dv, minV := a.minV, maxV := a.maxV, minExcl := a.minExcl,
                maxExcl := a.maxExcl, caption := a.caption }

/-- the `max_value < min_value` guard (made on the arguments as passed, before `from_category`) -/
def limitsCrossed (a : AddArgs) : Bool :=
  match a.minV, a.maxV with
  | some m, some M => decide (M < m)
  | _, _ => false

/-- the `from_category` step: the arguments completed from the source category -/
def mergeArgs (g : Reg) (a : AddArgs) : Except ErrKind AddArgs :=
  match truthyName a.fromCategory with
  | some f =>
    match g.cat? f with
    | none => .error .units
    | some src => .ok (mergeFrom a src)
  | none => .ok a

/-- `UnitDatabase.AddCategory(...)`: the new registry and the `CategoryInfo` returned -/
def addCategory (g : Reg) (a : AddArgs) : Except ErrKind (Reg × CatInfo) :=
  if truthy a.fromCategory && truthy a.qtype then .error .value else
  if !a.override && (g.cat? a.category).isSome then .error .units else
  if limitsCrossed a then .error .value else
  match mergeArgs g a with
  | .error e => .error e
  | .ok a' =>
    match addCategoryCore g a' with
    | .error e => .error e
    | .ok info => .ok ({ g with cats := info :: g.cats }, info)

/-! ### `AddCategory` with an explicit `None` for `is_min_exclusive`, `is_max_exclusive`, `caption` -/

/-- the arguments as they are passed: the two flags and the caption may be `None` -/
structure AddArgsRaw where
  /-- every other argument (the flag/caption fields of `base` are not read) -/
  base : AddArgs
  minExcl : Option Bool := some false
  maxExcl : Option Bool := some false
  caption : Option Sym := some 0
deriving Repr

/-- the source category of the `from_category` step, when there is one -/
def rawSource (g : Reg) (r : AddArgsRaw) : Option CatInfo :=
  match truthyName r.base.fromCategory with
  | some f => g.cat? f
  | none => none

/-- the flags and the caption in force: with `from_category` an explicit `None` is inherited from the
source ("if is_min_exclusive is None: is_min_exclusive = category_info.is_min_exclusive", likewise the
maximum flag and the caption); without a source `None` stays and is falsy.  Nothing before that step
reads them, and the step leaves a given value alone. -/
def resolveRaw (g : Reg) (r : AddArgsRaw) : AddArgs :=
  { r.base with
    minExcl := (match r.minExcl with
      | some b => b
      | none => match rawSource g r with | some s => s.minExcl | none => false)
    maxExcl := (match r.maxExcl with
      | some b => b
      | none => match rawSource g r with | some s => s.maxExcl | none => false)
    caption := (match r.caption with
      | some c => c
      | none => match rawSource g r with | some s => s.caption | none => 0) }

/-- `UnitDatabase.AddCategory(...)` with arguments that may be `None` -/
def addCategoryRaw (g : Reg) (r : AddArgsRaw) : Except ErrKind (Reg × CatInfo) :=
  addCategory g (resolveRaw g r)

/-! ### `GetDefaultValue`, `CheckValueForCategory`, `ScalarMinMaxValidator` -/

/-- `UnitDatabase.GetDefaultValue(category)` -/
def getDefaultValue (g : Reg) (c : Sym) : Except ErrKind Val :=
  match g.cat? c with
  | none => .error .units
  | some ci => .ok ci.defaultValue

/-- `ObtainQuantity(unit, category)` with a unit that may be `None` ("unit is given by the category":
`GetDefaultUnit(category)`) -/
def obtainFor (g : Reg) (c : Sym) : Option Sym → Except ErrKind Quant
  | some u => mkQuant g c u
  | none =>
    match g.cat? c with
    | none => .error .units
    | some ci => mkQuant g c ci.defaultUnit

/-- `UnitDatabase.CheckValueForCategory(category, value, unit=None)` -/
def checkValueForCategory (g : Reg) (c : Sym) (v : Val) (u : Option Sym) : Except VErr Unit :=
  match obtainFor g c u with
  | .error e => .error (.other e)
  | .ok q => checkValue g q v

/-- `ScalarMinMaxValidator._ScalarCheckMsgPredicate(scalar)`: the quantity is obtained AGAIN from the
scalar's unit and category, `CheckValue(value, use_literals=True)`; a `ValueError` becomes the message
(here: the error the message is made of), `None` = no complaint; anything else propagates.  Scalars with
a derived quantity are not modelled. -/
def validatorPredicate (g : Reg) (q : Quant) (v : Val) : Except ErrKind (Option VErr) :=
  match q with
  | .derived => .error .other
  | .simple c u _ =>
    match mkQuant g c.name u with
    | .error e => .error e
    | .ok q' =>
      match checkValue g q' v with
      | .ok _ => .ok none
      | .error (.validation op m w) => .ok (some (.validation op m w))
      | .error (.other e) => if e == .value then .ok (some (.other e)) else .error e


end Barril.Valid
