/-
Engine `Routes` (C02): every public route that re-expresses an amount in another unit, one model
function per Python function, written after its own implementation (the memo tables / the quantity
cache are left out: that they are invisible is C07/C15's business).

Modelled after
  * `Quantity.__init__` (simple and derived branch, `_MakeStr`,
    `_CreateUnitsWithJoinedExponentsString`), `ObtainQuantity` (str/str, str/None and dict forms),
    `Quantity.CreateDerived`, `Quantity.ConvertScalarValue` (same-unit shortcut, fast path with the
    cached to-base callable, derived branch), `Quantity.Convert`                       (_quantity.py)
  * `UnitDatabase.Convert` (additional conversion type = ndarray, exponent lists, float/int, list /
    tuple generator), `_ConvertWithExp`, `GetDefaultCategory`                     (unit_database.py)
  * `Scalar.GetAbstractValue`, `Scalar._GetDefaultValue`, the constructor forms `Scalar(quantity,
    value)` and `Scalar(category, unit=…)`, `AbstractValueWithQuantityObject.CreateCopy`
  * `Array.GetAbstractValue` (list-of-tuples branch), `FixedArray.IndexAsScalar/ChangingIndex`
  * `ChangeScalars`, `UnitSystemManager.ConvertToCurrent/ConvertScalarToCurrent`
  * the calls that change what those two read: `UnitSystemManager.AddUnitSystem / RemoveUnitSystem /
    SetCurrent / GetCurrent` (null unit system), `UnitSystem.SetDefaultUnit / RemoveCategory /
    GetDefaultUnit` — `Mgr`, `Mgr.step`, `Mgr.run` (histories)
-/
import Barril.Model.Conv

namespace Barril.Routes
open Barril

/-! ### small helpers -/

/-- `map` with errors: the first failing element fails the whole (a Python loop / generator) -/
def mapE {α β : Type} (f : α → Except ErrKind β) : List α → Except ErrKind (List β)
  | [] => .ok []
  | a :: as =>
    match f a with
    | .error e => .error e
    | .ok b =>
      match mapE f as with
      | .error e => .error e
      | .ok bs => .ok (b :: bs)

def absQ (q : Rat) : Rat := if q < 0 then -q else q

/-- `k ** e` for an integer exponent -/
def powInt (k : Rat) (e : Int) : Rat := if e < 0 then (k ^ (-e).toNat)⁻¹ else k ^ e.toNat

/-! ### strings of derived quantities (on byte lists; `Sym` = code of the bytes) -/

def natDigitsFuel : Nat → Nat → List Nat → List Nat
  | 0, _, acc => acc
  | f + 1, n, acc =>
    if n < 10 then (48 + n) :: acc else natDigitsFuel f (n / 10) ((48 + n % 10) :: acc)

/-- `str(n)` -/
def natDigits (n : Nat) : List Nat := natDigitsFuel (n + 1) n []

/-- `d[k] = d.get(k, 0) + e` on an ordered dict -/
def accAdd (k : Sym) (e : Int) : List (Sym × Int) → List (Sym × Int)
  | [] => [(k, e)]
  | (k', e') :: rest => if k' == k then (k', e' + e) :: rest else (k', e') :: accAdd k e rest

def joinBy (pairs : List (Sym × Int)) : List (Sym × Int) :=
  pairs.foldl (fun acc p => accAdd p.1 p.2 acc) []

/-- the four pieces in which `_MakeStr` and `_CreateUnitsWithJoinedExponentsString` differ -/
structure StrFmt where
  sep : List Nat
  div : List Nat
  divStart : List Nat
  withExp : List Nat → Nat → List Nat

def fmtPos (f : StrFmt) : List Nat → List (Sym × Int) → List Nat
  | ret, [] => ret
  | ret, (rep, e) :: rest =>
    if e > 0 then
      fmtPos f ((if ret.isEmpty then ret else ret ++ f.sep)
        ++ (if e != 1 then f.withExp rep.bytes e.toNat else rep.bytes)) rest
    else fmtPos f ret rest

def fmtNeg (f : StrFmt) : List Nat → Bool → List (Sym × Int) → List Nat
  | ret, _, [] => ret
  | ret, added, (rep, e) :: rest =>
    if e < 0 then
      fmtNeg f ((if added then ret ++ f.sep else if ret.isEmpty then ret ++ f.divStart else ret ++ f.div)
        ++ (if e != -1 then f.withExp rep.bytes (-e).toNat else rep.bytes)) true rest
    else fmtNeg f ret added rest

def fmtAll (f : StrFmt) (l : List (Sym × Int)) : Sym := Sym.ofBytes (fmtNeg f (fmtPos f [] l) false l)

/-- `_MakeStr`: `a * (b) ** 2 / c` -/
def makeStrFmt : StrFmt :=
  ⟨[32, 42, 32], [32, 47, 32], [49, 32, 47, 32],
   fun rep n => [40] ++ rep ++ [41, 32, 42, 42, 32] ++ natDigits n⟩

/-- `_CreateUnitsWithJoinedExponentsString`: `m2.kg/s2` -/
def unitStrFmt : StrFmt := ⟨[46], [47], [49, 47], fun rep n => rep ++ natDigits n⟩

def makeStr (l : List (Sym × Int)) : Sym := fmtAll makeStrFmt l
def joinedUnitStr (l : List (Sym × Int)) : Sym := fmtAll unitStrFmt l

/-! ### quantities -/

/-- one item of `_category_to_unit_and_exps` -/
structure Entry where
  cat : Sym
  unit : Sym
  exp : Int
deriving DecidableEq, Repr

/-- a `Quantity` object: the attributes the conversion routes read -/
inductive Quantity
  /-- `_category`, `_quantity_type`, `_unit`, and the row whose `tobase` is cached in `_tobase` -/
  | simple (cat qtype unit : Sym) (tobase : UnitRow)
  /-- `_category_to_unit_and_exps` and the three strings made from it -/
  | derived (entries : List Entry) (cat qtype unit : Sym)
deriving DecidableEq, Repr

def Quantity.category : Quantity → Sym
  | .simple c _ _ _ => c
  | .derived _ c _ _ => c

def Quantity.qtype : Quantity → Sym
  | .simple _ t _ _ => t
  | .derived _ _ t _ => t

def Quantity.unit : Quantity → Sym
  | .simple _ _ u _ => u
  | .derived _ _ _ u => u

def Quantity.isDerived : Quantity → Bool
  | .simple .. => false
  | .derived .. => true

/-- a "category or quantity type" argument of `UnitDatabase.Convert` -/
inductive CatArg
  | str (c : Sym)
  | list (cs : List Sym)
  | tuple (cs : List Sym)
deriving DecidableEq, Repr

/-- a unit argument of `UnitDatabase.Convert`: a symbol or a list/tuple of `(unit, exponent)` -/
inductive UnitArg
  | str (u : Sym)
  | list (es : List (Sym × Int))
  | tuple (es : List (Sym × Int))
deriving DecidableEq, Repr

/-- `_composing_categories` -/
def Quantity.composingCats : Quantity → CatArg
  | .simple c _ _ _ => .str c
  | .derived es _ _ _ => .tuple (es.map (·.cat))

/-- `_composing_units` -/
def Quantity.composingUnits : Quantity → UnitArg
  | .simple _ _ u _ => .str u
  | .derived es _ _ _ => .tuple (es.map (fun e => (e.unit, e.exp)))

/-- `GetCategoryInfo()`: `None` for a derived quantity -/
def Quantity.catInfo (db : Db) : Quantity → Option CatRow
  | .simple c _ _ _ => db.catByName c
  | .derived .. => none

/-- the unit a simple quantity ends up with: as given when the category accepts it, otherwise the
legacy spelling rewritten (`Quantity.__init__`, try / except InvalidUnitError) -/
def acceptedUnit (db : Db) (c u : Sym) : Option Sym :=
  if db.categoryUnitValid c u then some u
  else if isLegacy db.legacy u then
    (if db.categoryUnitValid c (fixLegacy db.legacy u) then some (fixLegacy db.legacy u) else none)
  else none

/-- `ObtainQuantity(unit, category)` with two strings = `Quantity(category, unit)`, simple branch -/
def newSimple (db : Db) (c u : Sym) : Except ErrKind Quantity :=
  match db.catByName c with
  | none => .error .units
  | some ci =>
    match acceptedUnit db c u with
    | none => .error .units
    | some u' =>
      match db.getInfo ci.qtype u' true with
      | .error e => .error e
      | .ok row => .ok (.simple c ci.qtype u' row)

/-- quantity types of the categories of a derived quantity (`GetCategoryQuantityType` per item) -/
def catQtypes (db : Db) : List Entry → Except ErrKind (List (Sym × Int))
  | [] => .ok []
  | e :: es =>
    match db.catByName e.cat with
    | none => .error .units
    | some ci =>
      match catQtypes db es with
      | .error err => .error err
      | .ok l => .ok ((ci.qtype, e.exp) :: l)

/-- `Quantity(OrderedDict, None)`: the derived branch of `__init__` -/
def mkDerived (db : Db) (es : List Entry) : Except ErrKind Quantity :=
  match catQtypes db es with
  | .error e => .error e
  | .ok qs =>
    .ok (.derived es (makeStr (es.map (fun e => (e.cat, e.exp)))) (makeStr (joinBy qs))
      (joinedUnitStr (joinBy (es.map (fun e => (e.unit, e.exp))))))

/-- the validation loop of `_CreateDerived` -/
def validateEntries (db : Db) : List Entry → Except ErrKind Unit
  | [] => .ok ()
  | e :: es =>
    match db.catByName e.cat with
    | none => .error .units
    | some ci =>
      match db.checkQuantityTypeUnit ci.qtype e.unit with
      | .error err => .error err
      | .ok _ => validateEntries db es

/-- `ObtainQuantity(dict)`: a single item with exponent 1 is the simple case -/
def obtainDict (db : Db) (es : List Entry) : Except ErrKind Quantity :=
  match es with
  | [e] => if e.exp == 1 then newSimple db e.cat e.unit else mkDerived db es
  | _ => mkDerived db es

/-- `Quantity.CreateDerived(OrderedDict)`; `CreateEmpty()` is `createDerived db []` -/
def createDerived (db : Db) (es : List Entry) : Except ErrKind Quantity :=
  match validateEntries db es with
  | .error e => .error e
  | .ok _ => obtainDict db es

/-- `UnitDatabase.GetDefaultCategory(unit)`; `0` = `None` -/
def defaultCategory (db : Db) (u : Sym) : Except ErrKind Sym :=
  let pick (r : UnitRow) : Sym :=
    if r.defaultCat != 0 then r.defaultCat
    else if (db.catByName r.qtype).isSome then r.qtype else 0
  match db.unitBySym u with
  | some r => .ok (pick r)
  | none =>
    if !isLegacy db.legacy u then .ok 0 else
    match db.unitBySym (fixLegacy db.legacy u) with
    | some r => .ok (pick r)
    | none => .error .key

/-- `ObtainQuantity(unit)` (category `None`) -/
def obtainNoCat (db : Db) (u : Sym) : Except ErrKind Quantity :=
  match defaultCategory db u with
  | .error e => .error e
  | .ok c =>
    if c != 0 then newSimple db c u
    else if !isLegacy db.legacy u then .error .units
    else
      match defaultCategory db (fixLegacy db.legacy u) with
      | .error e => .error e
      | .ok c' =>
        if c' == 0 then .error .type          -- `Quantity(None, unit)`: "Only str is accepted"
        else newSimple db c' (fixLegacy db.legacy u)

/-! ### values and containers -/

/-- an item of a list/tuple container: a number or a tuple of numbers -/
inductive Elem
  | num (x : Rat)
  | tup (xs : List Rat)
deriving DecidableEq, Repr

/-- what the routes accept as "value": float/int, list, tuple, 1-d ndarray -/
inductive Val
  | num (x : Rat)
  | list (es : List Elem)
  | tuple (es : List Elem)
  | nd (xs : List Rat)
deriving DecidableEq, Repr

/-- `frombase(tobase(v))` on an item: the arithmetic of the closures rejects a tuple -/
def applyElem (this other : UnitRow) : Elem → Except ErrKind Elem
  | .num x =>
    match convRows this other x with
    | .error e => .error e
    | .ok y => .ok (.num y)
  | .tup _ => .error .type

def wrapList (r : Except ErrKind (List Elem)) : Except ErrKind Val :=
  match r with
  | .error e => .error e
  | .ok l => .ok (.list l)

def wrapTuple (r : Except ErrKind (List Elem)) : Except ErrKind Val :=
  match r with
  | .error e => .error e
  | .ok l => .ok (.tuple l)

def wrapNd (r : Except ErrKind (List Rat)) : Except ErrKind Val :=
  match r with
  | .error e => .error e
  | .ok l => .ok (.nd l)

def wrapNum (r : Except ErrKind Rat) : Except ErrKind Val :=
  match r with
  | .error e => .error e
  | .ok y => .ok (.num y)

/-- the four value branches of `UnitDatabase.Convert` once both rows are known: float/int, the
generator over a list / a tuple, and `ConvertNumpyArray` (the same two closures applied to the
array = to every element) -/
def applyVal (this other : UnitRow) : Val → Except ErrKind Val
  | .num x => wrapNum (convRows this other x)
  | .list es => wrapList (mapE (applyElem this other) es)
  | .tuple es => wrapTuple (mapE (applyElem this other) es)
  | .nd xs => wrapNd (mapE (convRows this other) xs)

/-- the lookup of `categories_to_quantity_types[…]` / `CheckQuantityType` for each argument kind:
a list is unhashable (`TypeError`), a tuple is simply not a key -/
def CatArg.typeOf (db : Db) : CatArg → Except ErrKind Sym
  | .str c => db.typeOf c
  | .list _ => .error .type
  | .tuple _ => .error .units

/-- `UnitDatabase.Convert` with two string units -/
def convertStr (db : Db) (cq : CatArg) (u v : Sym) (val : Val) : Except ErrKind Val :=
  if u == v then .ok val else
  match cq.typeOf db with
  | .error e => .error e
  | .ok qt =>
    match db.getInfo qt u true with
    | .error e => .error e
    | .ok this =>
      match db.getInfo qt v true with
      | .error e => .error e
      | .ok other => applyVal this other val

/-- "`category_or_quantity_type.__class__ in (list, tuple) and len(...) == 1`" -/
def CatArg.unwrap1 : CatArg → CatArg
  | .list [c] => .str c
  | .tuple [c] => .str c
  | c => c

/-- `from_unit_exps` / `to_unit_exps`: a string becomes the *list* `[(unit, 1)]` -/
def UnitArg.exps : UnitArg → List (Sym × Int)
  | .str u => [(u, 1)]
  | .list es => es
  | .tuple es => es

def UnitArg.isTuple : UnitArg → Bool
  | .tuple _ => true
  | _ => false

/-- Python `==` of the two sequences: a list never equals a tuple -/
def UnitArg.sameExps (a b : UnitArg) : Bool := a.isTuple == b.isTuple && a.exps == b.exps

/-- the factor `k` when `other.frombase ∘ this.tobase` is `x ↦ k·x` (no offsets, constant non-zero
denominators); `none` otherwise -/
def scaleOf (this other : UnitRow) : Option Rat :=
  if this.ok && other.ok && this.toBase.p == 0 && this.toBase.s == 0 && this.toBase.r != 0
      && other.fromBase.p == 0 && other.fromBase.s == 0 && other.fromBase.r != 0
  then some (other.fromBase.q / other.fromBase.r * (this.toBase.q / this.toBase.r)) else none

/-- the lookups of the inner `self.Convert(quantity_type, from_unit, to_unit, value)` of
`_ConvertWithExp`, returning the scale factor; outer `none` = a unit with an offset is involved -/
def convScale (db : Db) (cq : CatArg) (u v : Sym) : Option (Except ErrKind Rat) :=
  if u == v then some (.ok 1) else
  match cq.typeOf db with
  | .error e => some (.error e)
  | .ok qt =>
    match db.getInfo qt u true with
    | .error e => some (.error e)
    | .ok this =>
      match db.getInfo qt v true with
      | .error e => some (.error e)
      | .ok other =>
        match scaleOf this other with
        | none => none
        | some k => some (.ok k)

/-- the `math.pow` part of `_ConvertWithExp` (exponent ≠ 1):
`sign(v) · pow(Convert(pow(|v|, 1/e)), e)`.  The intermediate root is irrational, so only the closed
form for pure scalings `x ↦ k·x` is modelled: `sign(v) · k^e · |v|`.  Outer `none` = outside the
model (a unit with an offset, or an ndarray value); this is stated, not defaulted. -/
def powPath (db : Db) (cq : CatArg) (u v : Sym) (e : Int) : Val → Option (Except ErrKind Val)
  | .list _ => some (.error .type)            -- `value < 0.0`
  | .tuple _ => some (.error .type)
  | .nd _ => none
  | .num x =>
    if e == 0 then some (.error .other)        -- `1.0 / from_exp`: ZeroDivisionError
    else if x == 0 && e < 0 then some (.error .value)    -- `math.pow(0.0, negative)`
    else
      match convScale db cq u v with
      | none => none
      | some (.error er) => some (.error er)
      | some (.ok k) =>
        if k == 0 && e < 0 then some (.error .value)
        else some (.ok (.num (if x < 0 then -(powInt k e * absQ x) else powInt k e * absQ x)))

/-- `UnitDatabase._ConvertWithExp` -/
def convertWithExp (db : Db) (cq : CatArg) (fromExps toExps : List (Sym × Int)) (val : Val) :
    Option (Except ErrKind Val) :=
  match fromExps, toExps with
  | [], _ => some (.ok val)
  | _, [] => some (.ok val)
  | [(u, e)], [(v, e')] =>
    if e != e' then some (.error .value)
    else if e == 1 then some (convertStr db cq u v val)
    else powPath db cq u v e val
  | _, _ => some (.error .units)              -- ComposedUnitError

/-- `UnitDatabase.Convert(category_or_quantity_type, from_unit, to_unit, value)`, every argument
form.  Outer `none` only from `powPath`. -/
def convertAny (db : Db) (cq : CatArg) (fromU toU : UnitArg) (val : Val) :
    Option (Except ErrKind Val) :=
  match fromU, toU with
  | .str u, .str v => some (convertStr db cq u v val)
  | _, _ =>
    if fromU.sameExps toU then some (.ok val)
    else convertWithExp db cq.unwrap1 fromU.exps toU.exps val

/-- `UnitDatabase.Convert` when `to_unit` is a string (what `Quantity.Convert` calls): the `math.pow`
part cannot be reached because the target exponent is 1 (`convertAny_str_target`) -/
def convertTo (db : Db) (cq : CatArg) (fromU : UnitArg) (v : Sym) (val : Val) : Except ErrKind Val :=
  match fromU with
  | .str u => convertStr db cq u v val
  | _ =>
    if fromU.sameExps (.str v) then .ok val else
    match fromU.exps with
    | [] => .ok val
    | [(u, e)] => if e != 1 then .error .value else convertStr db cq.unwrap1 u v val
    | _ => .error .units

/-- `Quantity.Convert(value, to_unit)` — the generic path -/
def Quantity.convert (db : Db) (q : Quantity) (val : Val) (toU : Sym) : Except ErrKind Val :=
  convertTo db q.composingCats q.composingUnits toU val

def Val.asNum : Val → Except ErrKind Rat
  | .num x => .ok x
  | _ => .error .type

/-- `Quantity.ConvertScalarValue(value, to_unit)` — same-unit shortcut, then the fast path through
the cached `_tobase` for a simple quantity, `self.Convert` for a derived one -/
def Quantity.convertScalarValue (db : Db) (q : Quantity) (x : Rat) (toU : Sym) : Except ErrKind Rat :=
  if q.unit == toU then .ok x else
  match q with
  | .simple _ qt _ tobase =>
    match db.getInfo qt toU true with
    | .error e => .error e
    | .ok other => convRows tobase other x
  | .derived .. =>
    match q.convert db (.num x) toU with
    | .error e => .error e
    | .ok v => v.asNum

/-! ### Scalar -/

structure Scalar where
  q : Quantity
  value : Rat
deriving DecidableEq, Repr

/-- `Scalar.GetValue(unit=None)` -/
def Scalar.getValue (db : Db) (s : Scalar) : Option Sym → Except ErrKind Rat
  | none => .ok s.value
  | some u => s.q.convertScalarValue db s.value u

/-- `Scalar._GetDefaultValue(category_info, unit)`: `category_info` is `None` for a derived quantity
(`AttributeError` → 0.0) -/
def defaultValue (db : Db) (ci : Option CatRow) (unit : Option Sym) : Except ErrKind Rat :=
  match ci with
  | none => .ok 0
  | some ci =>
    match unit with
    | none => .ok ci.defaultValue
    | some u =>
      match newSimple db ci.name ci.defaultUnit with
      | .error e => .error e
      | .ok q => q.convertScalarValue db ci.defaultValue u

/-- `Scalar(quantity, value=None)` -/
def Scalar.ofQuantity (db : Db) (q : Quantity) : Option Rat → Except ErrKind Scalar
  | some x => .ok ⟨q, x⟩
  | none =>
    match defaultValue db (q.catInfo db) none with
    | .error e => .error e
    | .ok x => .ok ⟨q, x⟩

/-- `Scalar(category, unit=unit)` / `Scalar(category)`: the value is the category default -/
def Scalar.ofCategory (db : Db) (c : Sym) (unit : Option Sym) : Except ErrKind Scalar :=
  match db.catByName c with
  | none => .error .units
  | some ci =>
    match defaultValue db (some ci) unit with
    | .error e => .error e
    | .ok x =>
      match newSimple db c (unit.getD ci.defaultUnit) with
      | .error e => .error e
      | .ok q => .ok ⟨q, x⟩

/-- the quantity of `CreateCopy(unit=…, category=…)` (`none` = keep the current one) -/
def copyQuantity (db : Db) (q : Quantity) (unit category : Option Sym) : Except ErrKind Quantity :=
  match unit, category with
  | none, none => .ok q
  | none, some _ => .error .type               -- "If category is given, the unit must be specified too."
  | some u, some c => newSimple db c u
  | some u, none => if q.category != 0 then newSimple db q.category u else obtainNoCat db u

/-- "`if value is None: value = self.GetAbstractValue(unit)`" -/
def Scalar.copyValue (db : Db) (s : Scalar) (value : Option Rat) (unit : Option Sym) :
    Except ErrKind Rat :=
  match value with
  | some x => .ok x
  | none => s.getValue db unit

/-- `Scalar.CreateCopy(value=None, unit=None, category=None)` -/
def Scalar.createCopy (db : Db) (s : Scalar) (value : Option Rat) (unit category : Option Sym) :
    Except ErrKind Scalar :=
  match s.copyValue db value unit with
  | .error e => .error e
  | .ok x =>
    match copyQuantity db s.q unit category with
    | .error e => .error e
    | .ok q' => .ok ⟨q', x⟩

/-! ### ChangeScalars -/

/-- `ChangeScalars(owner, name=(value, unit), …)`: the owner is its attribute dictionary -/
def setAttr (name : Sym) (s : Scalar) : List (Sym × Scalar) → List (Sym × Scalar)
  | [] => [(name, s)]
  | (n, t) :: rest => if n == name then (n, s) :: rest else (n, t) :: setAttr name s rest

def changeScalars (db : Db) (owner : List (Sym × Scalar)) :
    List (Sym × Option Rat × Option Sym) → Except ErrKind (List (Sym × Scalar))
  | [] => .ok owner
  | (name, value, unit) :: rest =>
    match owner.find? (·.1 == name) with
    | none => .error .other                    -- AttributeError
    | some (_, s) =>
      match s.createCopy db value unit none with
      | .error e => .error e
      | .ok s' => changeScalars db (setAttr name s' owner) rest

/-! ### Array -/

structure Arr where
  q : Quantity
  values : Val
deriving DecidableEq, Repr

/-- `IsListOfTuples(values)`: only the first item is looked at -/
def isListOfTuples : Val → Bool
  | .list (.tup _ :: _) => true
  | .tuple (.tup _ :: _) => true
  | _ => false

/-- one item of the list-of-tuples loop: `tuple(Convert(v, unit) for v in elem)`; a float item is
not iterable -/
def convTupleElem (db : Db) (q : Quantity) (toU : Sym) : Elem → Except ErrKind Elem
  | .num _ => .error .type
  | .tup xs =>
    match mapE (fun x => match q.convert db (.num x) toU with
                         | .error e => .error e
                         | .ok v => v.asNum) xs with
    | .error e => .error e
    | .ok ys => .ok (.tup ys)

/-- `Array.GetValues(unit=None)` -/
def Arr.getValues (db : Db) (a : Arr) : Option Sym → Except ErrKind Val
  | none => .ok a.values
  | some u =>
    if u == a.q.unit then .ok a.values
    else if isListOfTuples a.values then
      match a.values with
      | .list es => wrapList (mapE (convTupleElem db a.q u) es)
      | .tuple es => wrapTuple (mapE (convTupleElem db a.q u) es)
      | v => .ok v
    else a.q.convert db a.values u

def Arr.copyValues (db : Db) (a : Arr) (values : Option Val) (unit : Option Sym) :
    Except ErrKind Val :=
  match values with
  | some v => .ok v
  | none => a.getValues db unit

/-- `Array.CreateCopy(values=None, unit=None, category=None)` -/
def Arr.createCopy (db : Db) (a : Arr) (values : Option Val) (unit category : Option Sym) :
    Except ErrKind Arr :=
  match a.copyValues db values unit with
  | .error e => .error e
  | .ok v =>
    match copyQuantity db a.q unit category with
    | .error e => .error e
    | .ok q' => .ok ⟨q', v⟩

/-! ### FixedArray: the two index routes -/

structure FixedArr where
  dim : Nat
  arr : Arr
deriving DecidableEq, Repr

/-- Python index normalisation on a sequence of length `n` -/
def normIndex (n : Nat) (i : Int) : Except ErrKind Nat :=
  if 0 ≤ i then (if i.toNat < n then .ok i.toNat else .error .index)
  else if (-i).toNat ≤ n then .ok (n - (-i).toNat) else .error .index

def Val.items : Val → List Elem
  | .num _ => []
  | .list es => es
  | .tuple es => es
  | .nd xs => xs.map .num

/-- `values[index]` -/
def Val.index (v : Val) (i : Int) : Except ErrKind Elem :=
  match v with
  | .num _ => .error .type
  | _ =>
    match normIndex v.items.length i with
    | .error e => .error e
    | .ok k =>
      match v.items[k]? with
      | some e => .ok e
      | none => .error .index

/-- `float(item)` in `Scalar._InternalCreateWithQuantity` -/
def Elem.asNum : Elem → Except ErrKind Rat
  | .num x => .ok x
  | .tup _ => .error .type

/-- `FixedArray.IndexAsScalar(index, quantity=None)` -/
def FixedArr.indexAsScalar (db : Db) (fa : FixedArr) (i : Int) (quantity : Option Quantity) :
    Except ErrKind Scalar :=
  let q := quantity.getD fa.arr.q
  match fa.arr.getValues db (some q.unit) with
  | .error e => .error e
  | .ok vs =>
    match vs.index i with
    | .error e => .error e
    | .ok el =>
      match el.asNum with
      | .error e => .error e
      | .ok x => .ok ⟨q, x⟩

/-- the `value` argument of `ChangingIndex` -/
inductive NewValue
  | number (x : Rat)
  | scalar (s : Scalar)
  /-- a tuple: the positional arguments of `CreateCopy(value, unit, category)` -/
  | tuple (value : Option Rat) (unit category : Option Sym)
deriving Repr

/-- `list.__setitem__` -/
def setAt : List Elem → Nat → Elem → List Elem
  | [], _, _ => []
  | _ :: es, 0, x => x :: es
  | e :: es, k + 1, x => e :: setAt es k x

/-- the scalar `ChangingIndex` works with -/
def FixedArr.scalarFor (db : Db) (fa : FixedArr) (i : Int) : NewValue → Except ErrKind Scalar
  | .scalar s => .ok s
  | .number x => .ok ⟨fa.arr.q, x⟩
  | .tuple value unit category =>
    match fa.arr.values.index i with
    | .error e => .error e
    | .ok el =>
      match el.asNum with
      | .error e => .error e
      | .ok x => (Scalar.mk fa.arr.q x).createCopy db value unit category

/-- `FixedArray.ChangingIndex(index, value, use_value_unit=True)`; the result holds a tuple -/
def FixedArr.changingIndex (db : Db) (fa : FixedArr) (i : Int) (nv : NewValue) (useValueUnit : Bool) :
    Except ErrKind FixedArr :=
  match fa.scalarFor db i nv with
  | .error e => .error e
  | .ok s =>
    let q := if useValueUnit then s.q else fa.arr.q
    match fa.arr.getValues db (some q.unit) with
    | .error e => .error e
    | .ok vs =>
      match vs with
      | .num _ => .error .type
      | _ =>
        match s.getValue db (some q.unit) with
        | .error e => .error e
        | .ok y =>
          match normIndex vs.items.length i with
          | .error e => .error e
          | .ok k =>
            if fa.dim < 2 then .error .value
            else if vs.items.length != fa.dim then .error .value
            else .ok ⟨fa.dim, ⟨q, .tuple (setAt vs.items k (.num y))⟩⟩

/-! ### UnitSystemManager: the two conversion routes -/

/-- the state the two routes read: the units mapping of the current unit system, if any -/
abbrev Current := Option (List (Sym × Sym))

/-- `current.GetDefaultUnit(category)` (`None` for a falsy category or a missing key) -/
def systemDefaultUnit (m : List (Sym × Sym)) (c : Sym) : Option Sym :=
  if c == 0 then none else (m.find? (·.1 == c)).map (·.2)

/-- `UnitSystemManager.ConvertToCurrent(category, unit, value)` -/
def convertToCurrent (db : Db) (cur : Current) (c u : Sym) (val : Val) : Except ErrKind (Val × Sym) :=
  match cur with
  | none => .ok (val, u)
  | some m =>
    match systemDefaultUnit m c with
    | none => .ok (val, u)
    | some toU =>
      match convertStr db (.str c) u toU val with
      | .error e => .error e
      | .ok v => .ok (v, toU)

/-- `UnitSystemManager.ConvertScalarToCurrent(scalar)` -/
def convertScalarToCurrent (db : Db) (cur : Current) (s : Scalar) : Except ErrKind Scalar :=
  match convertToCurrent db cur s.q.category s.q.unit (.num s.value) with
  | .error e => .error e
  | .ok (v, u) =>
    match v.asNum with
    | .error e => .error e
    | .ok x =>
      if u == s.q.unit then s.createCopy db (some x) none none
      else s.createCopy db (some x) (some u) none

/-! ### UnitSystemManager: the operations that change what the two routes read

The two routes read ONE thing of the manager: the units mapping of `GetCurrent()` (the current unit
system, or the manager's private null unit system when there is none).  `Mgr` is the part of the
manager that decides it; the conversion steps call `convertToCurrent` with that mapping and nothing
else (no memo of earlier calls exists in the code: `Barril/Props/C02.lean`, section 6b). -/

/-- `d[k] = v` on an ordered dict -/
def dictSet (k v : Sym) : List (Sym × Sym) → List (Sym × Sym)
  | [] => [(k, v)]
  | (k', v') :: rest => if k' == k then (k', v) :: rest else (k', v') :: dictSet k v rest

/-- `del d[k]` (a missing key is swallowed by `RemoveCategory`) -/
def dictDel (k : Sym) (m : List (Sym × Sym)) : List (Sym × Sym) := m.filter (fun p => !(p.1 == k))

/-- a `UnitSystem`: id and `_units_mapping` -/
structure USys where
  id : Sym
  mapping : List (Sym × Sym)
deriving DecidableEq, Repr

/-- `_unit_systems` (insertion order), the id of `_current`, the mapping of the null unit system -/
structure Mgr where
  systems : List USys
  current : Option Sym
  nullMap : List (Sym × Sym)
deriving DecidableEq, Repr

/-- `UnitSystemManager()` -/
def Mgr.new : Mgr := ⟨[], none, []⟩

def Mgr.find (m : Mgr) (id : Sym) : Option USys := m.systems.find? (·.id == id)

/-- `GetCurrent().GetUnitsMapping()` -/
def Mgr.currentMapping (m : Mgr) : List (Sym × Sym) :=
  match m.current with
  | none => m.nullMap
  | some id =>
    match m.find id with
    | some s => s.mapping
    | none => []

def mapSys (id : Sym) (f : List (Sym × Sym) → List (Sym × Sym)) : List USys → List USys
  | [] => []
  | s :: rest => if s.id == id then { s with mapping := f s.mapping } :: rest else s :: mapSys id f rest

/-- an in-place edit of a unit system's mapping: of `GetUnitSystemById(id)` or of `GetCurrent()` -/
def Mgr.edit (m : Mgr) (on : Option Sym) (f : List (Sym × Sym) → List (Sym × Sym)) : Except ErrKind Mgr :=
  match on with
  | some id => if (m.find id).isSome then .ok { m with systems := mapSys id f m.systems } else .error .value
  | none =>
    match m.current with
    | some id => .ok { m with systems := mapSys id f m.systems }
    | none => .ok { m with nullMap := f m.nullMap }

/-- one call on the manager / on one of its unit systems -/
inductive MgrOp
  /-- `AddUnitSystem(id, caption, mapping)` (no template) -/
  | add (id : Sym) (mapping : List (Sym × Sym))
  /-- `RemoveUnitSystem(id)` -/
  | remove (id : Sym)
  /-- `SetCurrent(GetUnitSystemById(id))` / `SetCurrent(None)` -/
  | setCurrent (id : Option Sym)
  /-- `system.SetDefaultUnit(category, unit)`; `on = none`: on `GetCurrent()` -/
  | setDefaultUnit (on : Option Sym) (c u : Sym)
  /-- `system.RemoveCategory(category)` -/
  | removeCategory (on : Option Sym) (c : Sym)
  /-- `ConvertToCurrent(category, unit, value)` -/
  | convert (c u : Sym) (val : Val)
  /-- `ConvertScalarToCurrent(scalar)` -/
  | convertScalar (s : Scalar)
deriving Repr

/-- what a step answers: the mapping now current (state-changing calls), or the route's result -/
inductive MgrOut
  | state (cur : List (Sym × Sym))
  | conv (v : Val) (u : Sym)
  | scalar (s : Scalar)
deriving DecidableEq, Repr

def okState (m : Mgr) : Mgr × Except ErrKind MgrOut := (m, .ok (.state m.currentMapping))

def convOut (r : Except ErrKind (Val × Sym)) : Except ErrKind MgrOut :=
  match r with
  | .error e => .error e
  | .ok (v, u) => .ok (.conv v u)

def scalarOut (r : Except ErrKind Scalar) : Except ErrKind MgrOut :=
  match r with
  | .error e => .error e
  | .ok s => .ok (.scalar s)

/-- one step: the new state and the answer; a call that raises leaves the manager as it was -/
def Mgr.step (db : Db) (m : Mgr) : MgrOp → Mgr × Except ErrKind MgrOut
  | .add id mapping =>
    if (m.find id).isSome then (m, .error .key)          -- UnitSystemIDError
    else okState { m with systems := m.systems ++ [⟨id, mapping⟩],
                          current := match m.current with
                            | some c => some c
                            | none => some id }
  | .remove id =>
    if (m.find id).isSome then
      let rest := m.systems.filter (fun s => !(s.id == id))
      okState { m with systems := rest,
                       current := if m.current == some id then rest.head?.map (·.id) else m.current }
    else (m, .error .key)
  | .setCurrent none => okState { m with current := none }
  | .setCurrent (some id) =>
    if (m.find id).isSome then okState { m with current := some id } else (m, .error .value)
  | .setDefaultUnit on c u =>
    match m.edit on (dictSet c u) with
    | .error e => (m, .error e)
    | .ok m' => okState m'
  | .removeCategory on c =>
    match m.edit on (dictDel c) with
    | .error e => (m, .error e)
    | .ok m' => okState m'
  | .convert c u val => (m, convOut (convertToCurrent db (some m.currentMapping) c u val))
  | .convertScalar s => (m, scalarOut (convertScalarToCurrent db (some m.currentMapping) s))

/-- a history of calls: the state it ends in and the answers in order -/
def Mgr.run (db : Db) : Mgr → List MgrOp → Mgr × List (Except ErrKind MgrOut)
  | m, [] => (m, [])
  | m, op :: ops =>
    let r := m.step db op
    let rest := Mgr.run db r.1 ops
    (rest.1, r.2 :: rest.2)

end Barril.Routes
