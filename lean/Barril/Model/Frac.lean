/-
Engine `Frac` (C18): `barril.basic.fraction.Fraction`, `FractionValue` and the `FractionScalar`
conversion, written after the Python function by function, in exact rational arithmetic.

Modelled after
* `basic/fraction/_fraction.py`  : `Fraction.__init__` (sign move, the `while abs(a - round(a)) > SMALL`
  scaling loop, `round`), the operators `+ - * / % neg abs inv copy float`, `__old_cmp__`, `__eq__`,
  `__lt__` and the operators `functools.total_ordering` derives from them;
* `basic/fraction/_fraction_value.py` : `FractionValue.__init__/SetNumber/SetFraction`, `__float__`,
  the order operators, `__eq__`, `__copy__`, `__str__` (`%g` of number, numerator and denominator),
  `CreateFromString` (both regular expressions, as a backtracking matcher in the regex engine's
  order) and `CreateFromFloat` (the continued-fraction loop with its four exits);
* `units/_fraction_scalar.py` : `ConvertFractionValue`, `GetValue`, `_GetValuesToCompare` + the four
  order operators, `__eq__`, `CheckValidity`, the conversion registered for `UnitDatabase.Convert`.

Numbers: a Python float is the rational it denotes.  `str(float)` (used by `CreateFromFloat`) is
modelled by the decimal decomposition `decParts` (digits, decimal point position) of the decimal the
float is written as; `'%g' % x` by `fmtG` (6 significant digits, ties to even, exponent form outside
`1e-4 ≤ |x| < 1e6`).  Core Lean only.
-/
import Barril.Model.Conv

namespace Barril.Frac
open Barril

/-! ### numbers and rounding -/

/-- a Python value given where a number is expected -/
inductive Num
  | fin (q : Rat)        -- int or finite float
  | inf (neg : Bool)     -- float('inf') / float('-inf')
  | bad                  -- anything that is not an int/float (None, str, …)
deriving DecidableEq, Repr

/-- `SMALL = 1e-8`: the double that literal denotes (slightly above 10⁻⁸), since the code compares floats with it -/
def small : Rat := mkRat 3022314549036573 302231454903657293676544

def absR (q : Rat) : Rat := if q < 0 then -q else q

/-- Python `round(x)` of a float: nearest integer, ties to even (an int is returned unchanged) -/
def roundHE (q : Rat) : Int :=
  if q - q.floor < 1 / 2 then q.floor
  else if 1 / 2 < q - q.floor then q.floor + 1
  else if q.floor % 2 = 0 then q.floor else q.floor + 1

/-- the loop condition `abs(a - round(a)) > SMALL` -/
def needsScaling (a : Rat) : Bool := decide (small < absR (a - roundHE a))

/-- `while abs(a - round(a)) > SMALL: a *= 10; b *= 10`.  In float arithmetic the loop always ends
(every float ≥ 2^52 is an integer); in exact arithmetic it ends for decimals, and the fuel plays
the part of the float mantissa for everything else. -/
def normLoop : Nat → Rat → Rat → Rat × Rat
  | 0, a, b => (a, b)
  | fuel + 1, a, b => if needsScaling a then normLoop fuel (a * 10) (b * 10) else (a, b)

def normFuel : Nat := 60

/-! ### `Fraction` -/

/-- `self.x`, a `fractions.Fraction` -/
structure Frac where
  x : Rat
deriving DecidableEq, Repr

def Frac.numerator (f : Frac) : Int := f.x.num
def Frac.denominator (f : Frac) : Int := f.x.den

/-- `if b < 0: a, b = -a, -b` -/
def signMove (a b : Rat) : Rat × Rat := if b < 0 then (-a, -b) else (a, b)

/-- the arithmetic part of `Fraction.__init__` (finite `a`, finite `b ≠ 0`) -/
def normalise (a b : Rat) : Frac :=
  let ab := signMove a b
  let r := normLoop normFuel ab.1 ab.2
  ⟨(roundHE r.1 : Rat) / r.2⟩

/-- `Fraction(a, b)`; `b = none` is the default `None` -/
def Frac.init (a : Num) (b : Option Num) : Except ErrKind Frac :=
  match a, b with
  | .inf _, _ => .error .value
  | _, some (.inf _) => .error .value
  | .bad, _ => .error .assertion
  | _, some .bad => .error .assertion
  | .fin a, none => .ok (normalise a 1)
  | .fin a, some (.fin b) => if b = 0 then .error .assertion else .ok (normalise a b)

/-- `Fraction(n, d)` on two ints, as every operator builds its result -/
def ofInts (n d : Int) : Except ErrKind Frac := Frac.init (.fin n) (some (.fin d))

/-- the right operand of a `Fraction` operator -/
inductive Operand
  | frac (f : Frac)
  | num (n : Num)
  | seq                  -- a list, tuple, str or any other iterable (`classify(other) == -1`)
deriving DecidableEq, Repr

/-- `if isinstance(other, NumberType): other = Fraction(other)`, followed by an attribute access
(`AttributeError` for anything that is neither) -/
def coerce : Operand → Except ErrKind Frac
  | .frac f => .ok f
  | .num .bad => .error .other
  | .seq => .error .other
  | .num n => Frac.init n none

def Frac.add (s : Frac) (o : Operand) : Except ErrKind Frac :=
  match coerce o with
  | .error e => .error e
  | .ok o => ofInts (s.x + o.x).num (s.x + o.x).den

/-- `other + self` = `self + other` -/
def Frac.radd (s : Frac) (o : Operand) : Except ErrKind Frac := s.add o

def Frac.neg (s : Frac) : Except ErrKind Frac := ofInts (-s.x).num (-s.x).den

/-- Python's unary minus on the operand -/
def Operand.neg : Operand → Except ErrKind Operand
  | .frac f => match f.neg with
    | .ok g => .ok (.frac g)
    | .error e => .error e
  | .num (.fin q) => .ok (.num (.fin (-q)))
  | .num (.inf n) => .ok (.num (.inf (!n)))
  | .num .bad => .error .type
  | .seq => .error .type

/-- `self + (-other)` -/
def Frac.sub (s : Frac) (o : Operand) : Except ErrKind Frac :=
  match o.neg with
  | .error e => .error e
  | .ok n => s.add n

/-- `other - self` = `-(self - other)` -/
def Frac.rsub (s : Frac) (o : Operand) : Except ErrKind Frac :=
  match s.sub o with
  | .error e => .error e
  | .ok d => d.neg

/-- `reduce()` -/
def Frac.reduce (f : Frac) : Frac := ⟨(f.numerator : Rat) / (f.denominator : Rat)⟩

/-- `classify(other) == -1` -/
def Operand.isSeq : Operand → Bool
  | .seq => true
  | _ => false

/-- `self * other`.  For a sequence (`classify(other) == -1`) the code returns `other * self`: the
sequence type does not know the Fraction, so `Fraction.__rmul__(other)` runs and raises `ValueError` -/
def Frac.mul (s : Frac) (o : Operand) : Except ErrKind Frac :=
  if o.isSeq then .error .value else
  match coerce o with
  | .error e => .error e
  | .ok o =>
    match ofInts (s.numerator * o.numerator) (s.denominator * o.denominator) with
    | .error e => .error e
    | .ok x => .ok x.reduce

/-- `other * self`: `ValueError` for a sequence, else `self * other` -/
def Frac.rmul (s : Frac) (o : Operand) : Except ErrKind Frac :=
  if o.isSeq then .error .value else s.mul o

/-- `inv()`: `1 / self.x` raises `ZeroDivisionError` on zero -/
def Frac.inv (s : Frac) : Except ErrKind Frac :=
  if s.x = 0 then .error .other else ofInts (1 / s.x).num (1 / s.x).den

def Frac.div (s : Frac) (o : Operand) : Except ErrKind Frac :=
  match coerce o with
  | .error e => .error e
  | .ok o =>
    match o.inv with
    | .error e => .error e
    | .ok i => s.mul (.frac i)

/-- `other / self` = `self.inv() * other` -/
def Frac.rdiv (s : Frac) (o : Operand) : Except ErrKind Frac :=
  match s.inv with
  | .error e => .error e
  | .ok i => i.mul o

/-- `fractions.Fraction.__mod__`: `a - b * floor(a / b)` -/
def pyMod (a b : Rat) : Rat := a - b * ((a / b).floor : Rat)

def Frac.mod (s : Frac) (o : Operand) : Except ErrKind Frac :=
  match coerce o with
  | .error e => .error e
  | .ok o => if o.x = 0 then .error .other else ofInts (pyMod s.x o.x).num (pyMod s.x o.x).den

def Frac.abs (s : Frac) : Except ErrKind Frac := ofInts s.numerator.natAbs s.denominator

def Frac.copy (s : Frac) : Except ErrKind Frac := ofInts s.numerator s.denominator

def Frac.toFloat (s : Frac) : Rat := s.x

/-- `__old_cmp__` -/
def Frac.oldCmp (s : Frac) (o : Operand) : Except ErrKind Int :=
  match o with
  | .num (.inf false) => .ok (-1)
  | .num (.inf true) => .ok 1
  | _ =>
    match coerce o with
    | .error e => .error e
    | .ok o =>
      let t := s.numerator * o.denominator - o.numerator * s.denominator
      .ok (if t < 0 then -1 else if 0 < t then 1 else 0)

/-- `__eq__`; `none` is `NotImplemented` -/
def Frac.eqImpl (s : Frac) (o : Operand) : Except ErrKind (Option Bool) :=
  match o with
  | .num .bad => .ok none
  | .seq => .ok none
  | _ => match s.oldCmp o with
    | .error e => .error e
    | .ok c => .ok (some (c == 0))

/-- `__lt__`; `none` is `NotImplemented` -/
def Frac.ltImpl (s : Frac) (o : Operand) : Except ErrKind (Option Bool) :=
  match o with
  | .num .bad => .ok none
  | .seq => .ok none
  | _ => match s.oldCmp o with
    | .error e => .error e
    | .ok c => .ok (some (c == -1))

inductive CmpOp | eq | ne | lt | le | gt | ge
deriving DecidableEq, Repr

/-- `self == other` as the interpreter evaluates it: `NotImplemented` from both sides falls back to
identity, i.e. `False` for a non-number -/
def Frac.pyEq (s : Frac) (o : Operand) : Except ErrKind Bool :=
  match s.eqImpl o with
  | .error e => .error e
  | .ok none => .ok false
  | .ok (some b) => .ok b

/-- the six comparison operators, with the derivations of `functools.total_ordering`
(`_le_from_lt`, `_gt_from_lt`, `_ge_from_lt`) and the default `__ne__` -/
def Frac.cmp (s : Frac) (op : CmpOp) (o : Operand) : Except ErrKind Bool :=
  match op with
  | .eq => s.pyEq o
  | .ne => match s.pyEq o with
    | .error e => .error e
    | .ok b => .ok (!b)
  | _ =>
    match s.ltImpl o with
    | .error e => .error e
    | .ok none => .error .type
    | .ok (some lt) =>
      match op with
      | .lt => .ok lt
      | .ge => .ok (!lt)
      | .le => if lt then .ok true else s.pyEq o
      | _ => if lt then .ok false else
        match s.pyEq o with
        | .error e => .error e
        | .ok b => .ok (!b)

/-- `number OP fraction`: int/float return `NotImplemented`, so the reflected operator runs -/
def CmpOp.swap : CmpOp → CmpOp
  | .lt => .gt | .gt => .lt | .le => .ge | .ge => .le | .eq => .eq | .ne => .ne

def Frac.rcmp (s : Frac) (op : CmpOp) (o : Operand) : Except ErrKind Bool := s.cmp op.swap o

/-! ### `FractionValue` -/

structure FV where
  number : Rat
  frac : Frac
deriving DecidableEq, Repr

/-- the `fraction` argument of `FractionValue(...)` / `SetFraction` -/
inductive FracArg
  | frac (f : Frac)
  | pair (a b : Num)     -- a 2-tuple
  | badLen               -- a tuple of another length
  | bad                  -- neither a Fraction nor a tuple
deriving DecidableEq, Repr

/-- `SetFraction` -/
def setFraction : FracArg → Except ErrKind Frac
  | .frac f => .ok f
  | .pair a b => Frac.init a (some b)
  | .badLen => .error .value
  | .bad => .error .type

/-- `FractionValue(number, fraction)`; `number = none` stands for a non-number -/
def FV.init (number : Option Rat) (fr : FracArg) : Except ErrKind FV :=
  match number with
  | none => .error .type
  | some n =>
    match setFraction fr with
    | .error e => .error e
    | .ok f => .ok ⟨n, f⟩

/-- the default `fraction=(0.0, 1.0)` -/
def FracArg.default : FracArg := .pair (.fin 0) (.fin 1)

/-- `__float__` -/
def FV.value (v : FV) : Rat := v.number + v.frac.toFloat

/-- `<`, `<=`, `>`, `>=` compare `float(self)` with `float(other)`; `==` compares the parts -/
def FV.cmpValue (op : CmpOp) (a b : Rat) : Bool :=
  match op with
  | .lt => decide (a < b) | .le => decide (a ≤ b) | .gt => decide (b < a) | .ge => decide (b ≤ a)
  | .eq => decide (a = b) | .ne => !decide (a = b)

/-- `FractionValue.__eq__` on two FractionValues -/
def FV.eq (a b : FV) : Except ErrKind Bool :=
  if a.number = b.number then a.frac.pyEq (.frac b.frac) else .ok false

def FV.cmp (a : FV) (op : CmpOp) (b : FV) : Except ErrKind Bool :=
  match op with
  | .eq => a.eq b
  | .ne => match a.eq b with
    | .error e => .error e
    | .ok r => .ok (!r)
  | _ => .ok (FV.cmpValue op a.value b.value)

/-- order against a plain number (`float(other)`) -/
def FV.cmpNum (a : FV) (op : CmpOp) (b : Rat) : Except ErrKind Bool :=
  match op with
  | .eq => .ok false       -- `type(self) is not type(other)`
  | .ne => .ok true
  | _ => .ok (FV.cmpValue op a.value b)

/-- `__copy__` -/
def FV.copy (v : FV) : Except ErrKind FV :=
  FV.init (some v.number) (.pair (.fin v.frac.numerator) (.fin v.frac.denominator))

/-! ### decimal digits -/

def digitChar (d : Nat) : Char := Char.ofNat (48 + d)

def natDigitsF : Nat → Nat → List Char
  | 0, _ => []
  | fuel + 1, n => if n < 10 then [digitChar n] else natDigitsF fuel (n / 10) ++ [digitChar (n % 10)]

/-- decimal digits of a natural number, most significant first (`"0"` for zero) -/
def natDigits (n : Nat) : List Char := natDigitsF (n + 1) n

def isDigit (c : Char) : Bool := 48 ≤ c.toNat && c.toNat ≤ 57

def digitVal (c : Char) : Nat := c.toNat - 48

/-- value of a digit string (Horner) -/
def readDigits (cs : List Char) : Nat := cs.foldl (fun acc c => acc * 10 + digitVal c) 0

def pow10 (e : Int) : Rat := if 0 ≤ e then (10 : Rat) ^ e.toNat else 1 / (10 : Rat) ^ (-e).toNat

/-! ### `'%g' % x` -/

def ilogUp : Nat → Rat → Int → Rat × Int
  | 0, a, e => (a, e)
  | fuel + 1, a, e => if 10 ≤ a then ilogUp fuel (a / 10) (e + 1) else (a, e)

def ilogDown : Nat → Rat → Int → Rat × Int
  | 0, a, e => (a, e)
  | fuel + 1, a, e => if a < 1 then ilogDown fuel (a * 10) (e - 1) else (a, e)

/-- `floor(log10 a)` for `a > 0` -/
def ilog10 (a : Rat) : Int :=
  let u := ilogUp 400 a 0
  (ilogDown 400 u.1 u.2).2

/-- six significant digits, ties to even: `(r, e)` with `10^5 ≤ r < 10^6`, `a ≈ r · 10^(e-5)` -/
def sci6 (a : Rat) : Nat × Int :=
  let e := ilog10 a
  let r := (roundHE (a / pow10 (e - 5))).toNat
  if r = 1000000 then (100000, e + 1) else (r, e)

/-- strip at most `s` trailing zeros of `n`: `(n', s')` with `n / 10^s = n' / 10^s'` -/
def strip0 : Nat → Nat → Nat × Nat
  | n, 0 => (n, 0)
  | n, s + 1 => if n % 10 = 0 then strip0 (n / 10) s else (n, s + 1)

def padLeft (s : Nat) (cs : List Char) : List Char := List.replicate (s - cs.length) '0' ++ cs

/-- `n / 10^s` in fixed notation without trailing zeros (and without a trailing point) -/
def renderFixed (n s : Nat) : List Char :=
  let p := strip0 n s
  if p.2 = 0 then natDigits p.1
  else natDigits (p.1 / 10 ^ p.2) ++ '.' :: padLeft p.2 (natDigits (p.1 % 10 ^ p.2))

def dropZeros : Nat → Nat → Nat
  | 0, n => n
  | fuel + 1, n => if n ≠ 0 ∧ n % 10 = 0 then dropZeros fuel (n / 10) else n

def pad2 (cs : List Char) : List Char := if cs.length < 2 then padLeft 2 cs else cs

/-- exponent style: `d[.ddd]e±XX` -/
def renderExp (r : Nat) (e : Int) : List Char :=
  let ds := natDigits (dropZeros 6 r)
  let mant := match ds with
    | [] => []
    | d :: rest => if rest.isEmpty then [d] else d :: '.' :: rest
  mant ++ 'e' :: (if e < 0 then '-' else '+') :: pad2 (natDigits e.natAbs)

/-- `'%g' % q` -/
def fmtG (q : Rat) : List Char :=
  if q = 0 then ['0'] else
  let p := sci6 (absR q)
  let body := if p.2 < -4 ∨ 6 ≤ p.2 then renderExp p.1 p.2 else renderFixed p.1 (5 - p.2).toNat
  if q < 0 then '-' :: body else body

/-- `Fraction.__str__` -/
def Frac.str (f : Frac) : List Char := fmtG f.numerator ++ '/' :: fmtG f.denominator

/-- `FractionValue.__str__` -/
def FV.str (v : FV) : List Char :=
  if v.frac.toFloat = 0 then fmtG v.number else fmtG v.number ++ ' ' :: v.frac.str

/-! ### `CreateFromString`: the two regular expressions as a backtracking matcher -/

/-- `\s` (ASCII) -/
def isSpace (c : Char) : Bool :=
  c == ' ' || c == '\t' || c == '\n' || c == '\r' || c.toNat == 11 || c.toNat == 12

def spanDigits : List Char → List Char × List Char
  | [] => ([], [])
  | c :: cs => if isDigit c then ((spanDigits cs).1.cons c, (spanDigits cs).2) else ([], c :: cs)

def skipSpaces : List Char → List Char
  | [] => []
  | c :: cs => if isSpace c then skipSpaces cs else c :: cs

/-- prefixes of `ds` of length `n, n-1, …, 1`, each with what follows it -/
def prefixesDesc : Nat → List Char → List (List Char × List Char)
  | 0, _ => []
  | n + 1, ds => (ds.take (n + 1), ds.drop (n + 1)) :: prefixesDesc n ds

def isSep (c : Char) : Bool := c == '.' || c == ','

/-- the unsigned part of `NUM = [-+]?\d+(?:(\.|\,)\d+)?`: all `(matched, rest)` in the order the
regex engine tries them (greedy first, then backtracking) -/
def numCandsU (s : List Char) : List (List Char × List Char) :=
  let ds := (spanDigits s).1
  let rest := (spanDigits s).2
  if ds.isEmpty then [] else
  let withDec := match rest with
    | sep :: more =>
      if isSep sep then
        (prefixesDesc (spanDigits more).1.length (spanDigits more).1).map
          (fun p => (ds ++ sep :: p.1, p.2 ++ (spanDigits more).2))
      else []
    | [] => []
  withDec ++ (prefixesDesc ds.length ds).map (fun p => (p.1, p.2 ++ rest))

def numCands (s : List Char) : List (List Char × List Char) :=
  match s with
  | c :: cs => if c == '-' || c == '+' then (numCandsU cs).map (fun p => (c :: p.1, p.2)) else numCandsU s
  | [] => []

/-- `NUM \s*/\s* \d+ $` on the whole input: the numerator and denominator texts -/
def fracPart (s : List Char) : Option (List Char × List Char) :=
  match numCands s with
  | [] => none
  | (numr, rest) :: _ =>
    match skipSpaces rest with
    | c :: rest1 =>
      if c == '/' then
        let sd := spanDigits (skipSpaces rest1)
        if sd.1.isEmpty || !sd.2.isEmpty then none else some (numr, sd.1)
      else none
    | [] => none

/-- groups of a match: the `float` group and the `(numerator, denominator)` groups -/
structure Groups where
  float : Option (List Char)
  frac : Option (List Char × List Char)
deriving DecidableEq, Repr

/-- `_FRACTION_PARTIAL_RE.match(text)` -/
def matchPartial (s : List Char) : Option Groups :=
  if s.isEmpty then some ⟨none, none⟩ else
  match fracPart s with
  | some fp => some ⟨none, some fp⟩
  | none => none

def matchFullCands : List (List Char × List Char) → Option Groups
  | [] => none
  | (fl, rest) :: more =>
    match skipSpaces rest with
    | [] => some ⟨some fl, none⟩
    | r1 =>
      match fracPart r1 with
      | some fp => some ⟨some fl, some fp⟩
      | none => matchFullCands more

/-- `_FRACTION_RE.match(text)` -/
def matchFull (s : List Char) : Option Groups := matchFullCands (numCands s)

/-- `float(text)` / `locale.atof(text)` (C locale) of a text matched by `NUM`: a comma is refused -/
def readUnsigned (s : List Char) : Except ErrKind Rat :=
  if s.any (· == ',') then .error .value else
  let ip := (spanDigits s).1
  match (spanDigits s).2 with
  | [] => .ok (readDigits ip : Rat)
  | _ :: fp => .ok ((readDigits (ip ++ fp) : Rat) / (10 : Rat) ^ fp.length)

def readFloat (s : List Char) : Except ErrKind Rat :=
  match s with
  | '-' :: cs => match readUnsigned cs with
    | .ok q => .ok (-q)
    | .error e => .error e
  | '+' :: cs => readUnsigned cs
  | _ => readUnsigned s

/-- `str.strip()` (ASCII white space) -/
def stripSpaces (s : List Char) : List Char := (skipSpaces (skipSpaces s).reverse).reverse

/-- what `CreateFromString` builds from the groups -/
def fromGroups (g : Groups) : Except ErrKind FV :=
  match (match g.float with
         | none => (.ok 0 : Except ErrKind Rat)
         | some t => readFloat t) with
  | .error e => .error e
  | .ok number =>
    match g.frac with
    | none => FV.init (some number) (.pair (.fin 0) (.fin 1))
    | some (nt, dt) =>
      match readFloat nt with
      | .error e => .error e
      | .ok numr =>
        match Frac.init (.fin numr) (some (.fin (readDigits dt : Rat))) with
        | .error e => .error e
        | .ok f => FV.init (some number) (.frac f)

/-- `FractionValue.CreateFromString(text)` -/
def parse (text : List Char) : Except ErrKind FV :=
  match matchPartial (stripSpaces text) with
  | some g => fromGroups g
  | none =>
    match matchFull (stripSpaces text) with
    | some g => fromGroups g
    | none => .error .value

/-- `FractionValue.MatchFractionPart(text)`: only the partial expression may match -/
def matchFractionPart (text : List Char) : Except ErrKind Unit :=
  match matchPartial (stripSpaces text) with
  | some _ => .ok ()
  | none => .error .value

/-! ### `CreateFromFloat` -/

/-- least `j ≤ fuel` with `q · 10^j` an integer -/
def decShift : Nat → Rat → Nat → Option (Nat × Int)
  | 0, q, j => if q.den = 1 then some (j, q.num) else none
  | fuel + 1, q, j => if q.den = 1 then some (j, q.num) else decShift fuel (q * 10) (j + 1)

def stripAll : Nat → Nat → Nat → Nat × Nat
  | 0, n, z => (n, z)
  | fuel + 1, n, z => if n ≠ 0 ∧ n % 10 = 0 then stripAll fuel (n / 10) (z + 1) else (n, z)

/-- the digits of `repr(float)`: for a decimal `q > 0`, `(D, nd, decpt)` with `q = 0.D · 10^decpt`,
`D` an `nd`-digit number without trailing zeros -/
structure DecParts where
  digits : Nat
  nd : Nat
  decpt : Int
deriving DecidableEq, Repr

def decParts (q : Rat) : Option DecParts :=
  match decShift 400 q 0 with
  | none => none
  | some (j, n) =>
    let p := stripAll 400 n.toNat 0
    let nd := (natDigits p.1).length
    some ⟨p.1, nd, (nd : Int) + (p.2 : Int) - (j : Int)⟩

/-- `repr` switches to exponent notation -/
def DecParts.useExp (d : DecParts) : Bool := decide (d.decpt ≤ -4) || decide (16 < d.decpt)

/-- `len(str(value))` -/
def DecParts.reprLen (d : DecParts) : Nat :=
  if d.useExp then
    (if d.nd = 1 then 1 else d.nd + 1) + 2 + max 2 (natDigits (d.decpt - 1).natAbs).length
  else if d.decpt ≤ 0 then 2 + (-d.decpt).toNat + d.nd
  else if (d.nd : Int) ≤ d.decpt then d.decpt.toNat + 2
  else d.nd + 1

/-- `GetFractionalPart(value)`: `float("0." + str(value)[str(value).find(".") + 1:])` -/
def getFractionalPart (v : Rat) (d : DecParts) : Rat :=
  if d.useExp then
    if d.nd = 1 then (d.digits : Rat) * pow10 (d.decpt - 2)
    else ((d.digits % 10 ^ (d.nd - 1) : Nat) : Rat) / (10 : Rat) ^ (d.nd - 1) * pow10 (d.decpt - 1)
  else if (d.nd : Int) ≤ d.decpt then 0
  else v - (v.floor : Rat)

/-- `FindNumerator` -/
def findNumerator : Nat → Int → Rat → Rat → Rat
  | 0, _, result, _ => result
  | fuel + 1, past, result, divisor =>
    if 0 < past ∧ pyMod result divisor = 0 then findNumerator fuel (past - 1) (result / divisor) divisor
    else result

/-- `GetMaxNumerator(fractional_part)` for `fractional_part > 0` -/
def getMaxNumerator (d : DecParts) : Int :=
  let ndigits : Nat :=
    if d.useExp then d.nd
    else if d.decpt ≤ 0 then 1 + (-d.decpt).toNat + d.nd
    else if (d.nd : Int) ≤ d.decpt then d.decpt.toNat + 1
    else d.nd
  let dividend : Rat :=
    if !d.useExp && decide (0 < d.decpt) && decide ((d.nd : Int) ≤ d.decpt)
    then (d.digits : Rat) * (10 : Rat) ^ (d.decpt.toNat - d.nd) * 10 else (d.digits : Rat)
  let past : Int := (ndigits : Int) - (d.reprLen : Int)
  let r2 := findNumerator 400 past dividend 2
  (findNumerator 400 past r2 5).floor

/-- the state of the continued-fraction loop -/
structure CFState where
  f : Rat            -- `fractional_part`
  pPrev : Int        -- `numerators[i-2]`
  pCur : Int         -- `numerators[i-1]`
  qPrev : Int
  qCur : Int
  prevCalc : Option Rat   -- `previous_calculation` (`none` = NaN)
  num : Int          -- `numerator`
  den : Int          -- `denominator`
deriving DecidableEq, Repr

/-- one pass of `while i < 1000`; `.inl` = loop left with `(numerator, denominator)` -/
def cfStep (target : Rat) (maxNum : Int) (s : CFState) : Except ErrKind (Sum (Int × Int) CFState) :=
  let l2 := s.f.floor
  let p := l2 * s.pCur + s.pPrev
  if maxNum < p.natAbs then .ok (.inl (s.num, s.den)) else
  let q := l2 * s.qCur + s.qPrev
  if q = 0 then .error .other else
  let cv : Rat := (p : Rat) / (q : Rat)
  if s.prevCalc = some cv then .ok (.inl (s.num, s.den)) else
  if cv = target then .ok (.inl (p.natAbs, q.natAbs)) else
  if s.f - l2 = 0 then .error .other else
  .ok (.inr ⟨1 / (s.f - l2), s.pCur, p, s.qCur, q, some cv, p.natAbs, q.natAbs⟩)

def cfLoop (target : Rat) (maxNum : Int) : Nat → CFState → Except ErrKind (Int × Int)
  | 0, s => .ok (s.num, s.den)
  | fuel + 1, s =>
    match cfStep target maxNum s with
    | .error e => .error e
    | .ok (.inl r) => .ok r
    | .ok (.inr s') => cfLoop target maxNum fuel s'

def cfInit (fp : Rat) : CFState := ⟨fp, 0, 1, 1, 0, none, 0, 0⟩

/-- `FractionValue.CreateFromFloat(value)` on the decimal the float is written as -/
def createFromFloat (d : Rat) : Except ErrKind FV :=
  if d.den = 1 then FV.init (some d) FracArg.default else
  let sign : Rat := if d < 0 then -1 else 1
  let v := absR d
  match decParts v with
  | none => .error .other
  | some dp =>
    let ip : Rat := (v.floor : Rat)
    let fp := getFractionalPart v dp
    match decParts fp with
    | none => .error .other
    | some fdp =>
      match cfLoop fp (getMaxNumerator fdp) 998 (cfInit fp) with
      | .error e => .error e
      | .ok (n, m) =>
        if n = m then FV.init (some ip) FracArg.default
        else FV.init (some (sign * ip)) (.pair (.fin (sign * n)) (.fin m))

/-! ### `FractionScalar` -/

/-- a simple quantity: category and unit, as `Quantity.__init__` accepts them -/
structure Qty where
  cat : Sym
  unit : Sym
deriving DecidableEq, Repr

/-- `ObtainQuantity(unit, category)` for two strings (memo-free meaning) -/
def obtain (db : Db) (c u : Sym) : Except ErrKind Qty :=
  match db.catByName c with
  | none => .error .units
  | some _ =>
    if db.categoryUnitValid c u then .ok ⟨c, u⟩
    else if isLegacy db.legacy u && db.categoryUnitValid c (fixLegacy db.legacy u)
    then .ok ⟨c, fixLegacy db.legacy u⟩
    else .error .units

def Qty.qtype (db : Db) (q : Qty) : Sym :=
  match db.catByName q.cat with
  | some c => c.qtype
  | none => 0

/-- `Quantity.ConvertScalarValue(value, to_unit)` of a simple quantity -/
def Qty.convertScalarValue (db : Db) (q : Qty) (toU : Sym) (x : Rat) : Except ErrKind Rat :=
  if q.unit == toU then .ok x else
  match db.getInfo (q.qtype db) toU true with
  | .error e => .error e
  | .ok other =>
    match db.getInfo (q.qtype db) q.unit true with
    | .error e => .error e
    | .ok this => convRows this other x

/-- `converted_fraction.numerator = converted_numerator` (`set_numerator` with a float) -/
def Frac.setNumerator (f : Frac) (numr : Rat) : Except ErrKind Frac :=
  match Frac.init (.fin numr) none with
  | .error e => .error e
  | .ok a =>
    match Frac.init (.fin f.denominator) none with
    | .error e => .error e
    | .ok b => .ok ⟨a.x / b.x⟩

/-- `FractionScalar.ConvertFractionValue(fv, quantity, from_unit, to_unit)` with a Quantity -/
def convertFV (db : Db) (cat fromU toU : Sym) (fv : FV) : Except ErrKind FV :=
  match obtain db cat fromU with
  | .error e => .error e
  | .ok q =>
    match q.convertScalarValue db toU fv.number with
    | .error e => .error e
    | .ok n' =>
      match q.convertScalarValue db toU fv.frac.numerator with
      | .error e => .error e
      | .ok a =>
        match q.convertScalarValue db toU 0 with
        | .error e => .error e
        | .ok z =>
          match fv.frac.setNumerator (a - z) with
          | .error e => .error e
          | .ok f' => .ok ⟨n', f'⟩

/-- a `FractionScalar`: quantity and value -/
structure FS where
  q : Qty
  value : FV
deriving DecidableEq, Repr

/-- `FractionScalar(value, unit, category)` -/
def FS.init (db : Db) (cat unit : Sym) (v : FV) : Except ErrKind FS :=
  match obtain db cat unit with
  | .error e => .error e
  | .ok q => .ok ⟨q, v⟩

/-- `GetValue(unit)` -/
def FS.getValue (db : Db) (s : FS) (unit : Option Sym) : Except ErrKind FV :=
  match unit with
  | none => .ok s.value
  | some u => convertFV db s.q.cat s.q.unit u s.value

/-- `_GetValuesToCompare` followed by the FractionValue operator -/
def FS.order (db : Db) (op : CmpOp) (a b : FS) : Except ErrKind Bool :=
  if a.q.qtype db != b.q.qtype db then .error .type else
  match b.getValue db (some a.q.unit) with
  | .error e => .error e
  | .ok v2 => a.value.cmp op v2

/-- the same operator on two `Scalar`s of these quantities holding the floats `x` and `y`
(`Scalar._GetValuesToCompare`: `self.value OP other.GetValue(self.unit)`) -/
def scalarOrder (db : Db) (op : CmpOp) (qa qb : Qty) (x y : Rat) : Except ErrKind Bool :=
  if qa.qtype db != qb.qtype db then .error .type else
  match qb.convertScalarValue db qa.unit y with
  | .error e => .error e
  | .ok y' => .ok (FV.cmpValue op x y')

def CmpOp.isOrder : CmpOp → Bool
  | .eq => false | .ne => false | _ => true

/-- `FractionScalar.__eq__` on two FractionScalars -/
def FS.eq (a b : FS) : Except ErrKind Bool :=
  match a.value.eq b.value with
  | .error e => .error e
  | .ok r => .ok (r && decide (a.q = b.q))

/-- `Quantity.CheckValue(value)` of a simple quantity (`QuantityValidationError` is a `ValueError`) -/
def Qty.checkValue (db : Db) (q : Qty) (x : Rat) : Except ErrKind Unit :=
  match db.catByName q.cat with
  | none => .error .units
  | some ci =>
    if ci.minV.isNone && ci.maxV.isNone then .ok () else
    match (if q.unit != ci.defaultUnit then q.convertScalarValue db ci.defaultUnit x else .ok x) with
    | .error e => .error e
    | .ok y =>
      let okMin := match ci.minV with
        | none => true
        | some m => if ci.minExcl then decide (m < y) else decide (m ≤ y)
      let okMax := match ci.maxV with
        | none => true
        | some m => if ci.maxExcl then decide (y < m) else decide (y ≤ m)
      if okMin && okMax then .ok () else .error .value

/-- `FractionScalar.CheckValidity()` -/
def FS.checkValidity (db : Db) (s : FS) : Except ErrKind Unit := s.q.checkValue db s.value.value

/-- `Scalar.CheckValidity()` of a Scalar with the same quantity holding the float `x` -/
def scalarCheckValidity (db : Db) (q : Qty) (x : Rat) : Except ErrKind Unit := q.checkValue db x

/-- `UnitDatabase.GetDefaultCategory(unit)` -/
def defaultCategory (db : Db) (u : Sym) : Option Sym :=
  match (match db.unitBySym u with
         | some r => some r
         | none => if isLegacy db.legacy u then db.unitBySym (fixLegacy db.legacy u) else none) with
  | none => none
  | some r =>
    if r.defaultCat != 0 then some r.defaultCat
    else if (db.catByName r.qtype).isSome then some r.qtype else none

/-- the second argument of the public classmethod `ConvertFractionValue`: a quantity-type string
(ignored by the code: the quantity is rebuilt from `from_unit`) or a `Quantity` object -/
inductive QArg
  | qtype (s : Sym)
  | quantity (q : Qty)
deriving DecidableEq, Repr

/-- `FractionScalar.ConvertFractionValue(fv, quantity, from_unit, to_unit)` called directly.  A string
becomes `ObtainQuantity(from_unit)` (the default category of `from_unit`); of a Quantity object only the
categories are used: the conversion source is `ObtainQuantity(from_unit, quantity.GetComposingCategories())`,
whatever unit the object itself is in. -/
def convertFractionValue (db : Db) (qa : QArg) (fromU toU : Sym) (fv : FV) : Except ErrKind FV :=
  match qa with
  | .qtype _ =>
    match defaultCategory db fromU with
    | none => .error .units
    | some c => convertFV db c fromU toU fv
  | .quantity q => convertFV db q.cat fromU toU fv

/-- `UnitDatabase.Convert(cq, from_unit, to_unit, fraction_value)`: the conversion registered by
`RegisterFractionScalarConversion`; the quantity is the one of `from_unit`'s default category -/
def dbConvertFV (db : Db) (cq fromU toU : Sym) (fv : FV) : Except ErrKind FV :=
  if fromU == toU then .ok fv else
  match db.typeOf cq with
  | .error e => .error e
  | .ok _ =>
    match defaultCategory db fromU with
    | none => .error .units
    | some c =>
      match convertFV db c fromU toU fv with
      | .error e => .error e
      | .ok r => FV.init (some r.value) FracArg.default

/-! ### `Fraction.__pow__` -/

/-- the exponent of `fraction ** other` -/
inductive PowExp
  | int (k : Int)        -- a Python int
  | float (k : Int)      -- a float with an integral value (`2.0`)
  | inf (neg : Bool)     -- `float('inf')` / `float('-inf')`
  | bad                  -- not a number: `other - other` raises `TypeError`
  | frac                 -- a Fraction: `abs(other - other) < SMALL` is False (`Fraction(SMALL)` is 0), and
                         -- `float(self) ** other` raises `TypeError`
deriving DecidableEq, Repr

/-- the finite branch: `Fraction(den ** -k, num ** -k)` for `k < 0`, else `Fraction(num ** k, den ** k)`.
With a float exponent the two powers are floats with the same (integral) values. -/
def Frac.powInt (s : Frac) (k : Int) : Except ErrKind Frac :=
  if k < 0 then
    Frac.init (.fin ((s.denominator ^ (-k).toNat : Int) : Rat)) (some (.fin ((s.numerator ^ (-k).toNat : Int) : Rat)))
  else
    Frac.init (.fin ((s.numerator ^ k.toNat : Int) : Rat)) (some (.fin ((s.denominator ^ k.toNat : Int) : Rat)))

/-- `float(self) ** ±inf` (C `pow`): 1 for `|x| = 1`, 0 or `inf` otherwise; `Fraction(inf)` is a `ValueError` -/
def Frac.powInf (s : Frac) (neg : Bool) : Except ErrKind Frac :=
  if absR s.x = 1 then Frac.init (.fin 1) none
  else if (decide (1 < absR s.x)) != neg then .error .value
  else Frac.init (.fin 0) none

/-- `self ** other` -/
def Frac.pow (s : Frac) : PowExp → Except ErrKind Frac
  | .int k => s.powInt k
  | .float k => s.powInt k
  | .inf neg => s.powInf neg
  | .bad => .error .type
  | .frac => .error .type

/-! ### the in-place setters of `Fraction` and its sequence protocol -/

/-- a Python value given to a setter (ints and floats take different branches there) -/
inductive PyNum
  | int (n : Int)
  | float (q : Rat)      -- a finite float
  | inf (neg : Bool)
  | none                 -- `None`
  | bad                  -- a str
deriving DecidableEq, Repr

/-- `fractions.Fraction(n, d)` of two ints (`ZeroDivisionError` for `d = 0`) -/
def stdFraction (n d : Int) : Except ErrKind Frac :=
  if d = 0 then .error .other else .ok ⟨(n : Rat) / (d : Rat)⟩

/-- `fraction.numerator = v` (`set_numerator`) -/
def Frac.setNum (f : Frac) : PyNum → Except ErrKind Frac
  | .inf _ => .error .value
  | .float q => f.setNumerator q
  | .int n => stdFraction n f.denominator
  | .none => .error .type          -- `fractions.Fraction(None, d)`
  | .bad => .error .type

/-- `fraction.denominator = v` (`set_denominator`); `fractions.Fraction(n, None)` is `n` -/
def Frac.setDen (f : Frac) : PyNum → Except ErrKind Frac
  | .inf _ => .error .value
  | .float q =>
    match Frac.init (.fin f.numerator) none with
    | .error e => .error e
    | .ok a =>
      match Frac.init (.fin q) none with
      | .error e => .error e
      | .ok b => if b.x = 0 then .error .other else .ok ⟨a.x / b.x⟩
  | .int n => stdFraction f.numerator n
  | .none => .ok ⟨(f.numerator : Rat)⟩
  | .bad => .error .type

def PyNum.isNumber : PyNum → Bool
  | .int _ => true | .float _ => true | .inf _ => true | _ => false

/-- Python truth value of a number -/
def PyNum.truthy : PyNum → Bool
  | .int n => n != 0 | .float q => q != 0 | _ => true

/-- `fraction[key] = v` (`__setitem__`); `key = none` is a key that is no number (`'a'`, `None`).
The assertion, then the list assignment (`IndexError`/`TypeError`), then `fractions.Fraction(*x)`,
which takes ints only. -/
def Frac.setItem (f : Frac) (key : Option Int) (v : PyNum) : Except ErrKind Frac :=
  if !(v.isNumber && (v.truthy || key != some 1)) then .error .assertion else
  match key with
  | none => .error .type
  | some k =>
    if k < -2 ∨ 1 < k then .error .index else
    match v with
    | .int n => if k = 0 ∨ k = -2 then stdFraction n f.denominator else stdFraction f.numerator n
    | _ => .error .type

/-- `len(fraction)` -/
def Frac.len (_ : Frac) : Nat := 2

/-- `fraction[key]` -/
def Frac.getItem (f : Frac) (key : Option Int) : Except ErrKind Int :=
  match key with
  | none => .error .type
  | some k =>
    if k = 0 ∨ k = -2 then .ok f.numerator
    else if k = 1 ∨ k = -1 then .ok f.denominator
    else .error .index

/-- `list(fraction)` / `tuple(fraction)` / unpacking -/
def Frac.iter (f : Frac) : List Int := [f.numerator, f.denominator]

/-! ### more of `FractionValue` -/

/-- `GetLocalizedString()`: `FormatFloat` is `'%g' % x` in the C locale -/
def FV.localizedString (v : FV) : List Char := v.str

/-- `GetLocalizedFraction()`: the fraction part alone, empty when it is zero -/
def FV.localizedFraction (v : FV) : List Char := if v.frac.toFloat = 0 then [] else v.frac.str

/-- `CreateFromString(text, consider_locale)`: the number texts go through `FloatFromString`
(`locale.atof`, C locale) or through `float`; on a text the regular expression matched both read the
same decimal and both refuse a comma, so the flag does not enter the result -/
def parseWith (_considerLocale : Bool) (text : List Char) : Except ErrKind FV := parse text

/-- the argument of `CreateFromFloat` -/
inductive CffArg
  | none                 -- `None`: the method returns `None`
  | bad                  -- neither int nor float: `TypeError`
  | num (d : Rat)
deriving DecidableEq, Repr

/-- `FractionValue.CreateFromFloat(value)` for any argument -/
def createFromFloatPy : CffArg → Except ErrKind (Option FV)
  | .none => .ok none
  | .bad => .error .type
  | .num d =>
    match createFromFloat d with
    | .error e => .error e
    | .ok v => .ok (some v)

/-- `SetNumber(number)`; `none` stands for a non-number -/
def FV.setNumber (v : FV) : Option Rat → Except ErrKind FV
  | none => .error .type
  | some n => .ok { v with number := n }

/-! ### a pool of objects and sequences of operations on it

The objects of a program: every `Fraction`, `FractionValue` and `FractionScalar` it has built, in
the order of construction.  An operation either builds a new object (possibly reading others) or
changes ONE object in place.  The model keeps the objects as independent values: nothing an
operation does to object `i` can reach object `j ≠ i` (`Props/C18.lean`, section 8).  In the code
that is so as long as no two objects share a `Fraction` instance; a `Fraction` argument handed to
`FractionValue(...)`/`SetFraction` is kept by reference, so the correspondence always passes a
fresh one. -/

inductive Obj
  | frac (f : Frac)
  | fv (v : FV)
  | fs (s : FS)
deriving DecidableEq, Repr

abbrev Pool := List Obj

/-- the amount an object denotes (`float(obj)`, for a FractionScalar in its own unit) -/
def Obj.value : Obj → Rat
  | .frac f => f.toFloat
  | .fv v => v.value
  | .fs s => s.value.value

/-- in-place operations; on a FractionValue the Fraction setters go through `fv.fraction`, on a
FractionScalar everything goes through `fs.GetValue()` -/
inductive Mut
  | setNum (v : PyNum)                       -- `.numerator = v`
  | setDen (v : PyNum)                       -- `.denominator = v`
  | setItem (key : Option Int) (v : PyNum)   -- `[key] = v`
  | reduce                                   -- `.reduce()`
  | setNumber (n : Option Rat)               -- `SetNumber(n)` / `.number = n`
  | setFraction (a : FracArg)                -- `SetFraction(a)` / `.fraction = a`
deriving DecidableEq, Repr

def Frac.mutate (f : Frac) : Mut → Except ErrKind Frac
  | .setNum v => f.setNum v
  | .setDen v => f.setDen v
  | .setItem k v => f.setItem k v
  | .reduce => .ok f.reduce
  | .setNumber _ => .error .other            -- a Fraction has no such method
  | .setFraction _ => .error .other

def FV.mutate (v : FV) (m : Mut) : Except ErrKind FV :=
  match m with
  | .setNumber n => v.setNumber n
  | .setFraction a =>
    match setFraction a with
    | .error e => .error e
    | .ok f => .ok { v with frac := f }
  | m =>
    match v.frac.mutate m with
    | .error e => .error e
    | .ok f => .ok { v with frac := f }

def Obj.mutate (o : Obj) (m : Mut) : Except ErrKind Obj :=
  match o with
  | .frac f =>
    match f.mutate m with
    | .error e => .error e
    | .ok f' => .ok (.frac f')
  | .fv v =>
    match v.mutate m with
    | .error e => .error e
    | .ok v' => .ok (.fv v')
  | .fs s =>
    match s.value.mutate m with
    | .error e => .error e
    | .ok v' => .ok (.fs { s with value := v' })

inductive UnOp | neg | abs | inv | copy
deriving DecidableEq, Repr

inductive BinOp | add | radd | sub | rsub | mul | rmul | div | rdiv | mod
deriving DecidableEq, Repr

def Frac.un (s : Frac) : UnOp → Except ErrKind Frac
  | .neg => s.neg | .abs => s.abs | .inv => s.inv | .copy => s.copy

def Frac.bin (s : Frac) (f : BinOp) (o : Operand) : Except ErrKind Frac :=
  match f with
  | .add => s.add o | .radd => s.radd o | .sub => s.sub o | .rsub => s.rsub o | .mul => s.mul o
  | .rmul => s.rmul o | .div => s.div o | .rdiv => s.rdiv o | .mod => s.mod o

/-- the other operand of an operator: a pool member (a Fraction) or a literal -/
inductive Arg
  | ref (k : Nat)
  | lit (o : Operand)
deriving DecidableEq, Repr

/-- the `value` argument of `FractionScalar(...)`: a plain number or a (fresh) FractionValue -/
inductive FsVal
  | num (q : Rat)
  | fv (v : FV)
deriving DecidableEq, Repr

/-- operations that build a new object -/
inductive Ctor
  | fracNew (a : Num) (b : Option Num)                     -- `Fraction(a)`, `Fraction(a, b)`
  | fracUn (f : UnOp) (k : Nat)                            -- `-p[k]`, `abs(p[k])`, `p[k].inv()`, `p[k].copy()`
  | fracBin (f : BinOp) (k : Nat) (o : Arg)                -- `p[k] + o`, `o + p[k]`, …
  | fracPow (k : Nat) (e : PowExp)                         -- `p[k] ** e`
  | fvNew (number : Option Rat) (fr : FracArg)             -- `FractionValue(...)`, omitted arguments are the defaults
  | fvFromFloat (d : CffArg)                               -- `FractionValue.CreateFromFloat(d)`
  | fvFromString (text : List Char) (considerLocale : Bool)
  | fvCopy (k : Nat)                                       -- `copy.copy(p[k])`
  | fsNew (cat unit : Sym) (v : FsVal)                     -- `FractionScalar(cat, value=v, unit=unit)`
  | fsGetValue (k : Nat) (unit : Sym)                      -- `p[k].GetValue(unit)`: a new FractionValue
  | fvConvert (k : Nat) (qa : QArg) (fromU toU : Sym)      -- `FractionScalar.ConvertFractionValue(p[k], qa, fromU, toU)`
deriving DecidableEq, Repr

def Pool.frac? (p : Pool) (k : Nat) : Option Frac :=
  match p[k]? with
  | some (.frac f) => some f
  | _ => none

def Pool.fv? (p : Pool) (k : Nat) : Option FV :=
  match p[k]? with
  | some (.fv v) => some v
  | _ => none

def Pool.fs? (p : Pool) (k : Nat) : Option FS :=
  match p[k]? with
  | some (.fs s) => some s
  | _ => none

def Arg.operand (p : Pool) : Arg → Option Operand
  | .lit o => some o
  | .ref k => (p.frac? k).map .frac

def okFrac : Except ErrKind Frac → Except ErrKind (Option Obj)
  | .ok f => .ok (some (.frac f))
  | .error e => .error e

def okFV : Except ErrKind FV → Except ErrKind (Option Obj)
  | .ok v => .ok (some (.fv v))
  | .error e => .error e

/-- what a constructing operation builds (`none`: `CreateFromFloat(None)` builds nothing).  A reference to
a pool member of the wrong kind is not a call the correspondence makes (`runtime`). -/
def Ctor.eval (db : Db) (p : Pool) : Ctor → Except ErrKind (Option Obj)
  | .fracNew a b => okFrac (Frac.init a b)
  | .fracUn f k =>
    match p.frac? k with
    | none => .error .runtime
    | some s => okFrac (s.un f)
  | .fracBin f k o =>
    match p.frac? k, o.operand p with
    | some s, some o => okFrac (s.bin f o)
    | _, _ => .error .runtime
  | .fracPow k e =>
    match p.frac? k with
    | none => .error .runtime
    | some s => okFrac (s.pow e)
  | .fvNew n fr => okFV (FV.init n fr)
  | .fvFromFloat d =>
    match createFromFloatPy d with
    | .error e => .error e
    | .ok none => .ok none
    | .ok (some v) => .ok (some (.fv v))
  | .fvFromString t cl => okFV (parseWith cl t)
  | .fvCopy k =>
    match p.fv? k with
    | none => .error .runtime
    | some v => okFV v.copy
  | .fsNew cat unit v =>
    match (match v with
           | .num q => FV.init (some q) FracArg.default
           | .fv w => .ok w) with
    | .error e => .error e
    | .ok w =>
      match FS.init db cat unit w with
      | .error e => .error e
      | .ok s => .ok (some (.fs s))
  | .fsGetValue k unit =>
    match p.fs? k with
    | none => .error .runtime
    | some s => okFV (s.getValue db (some unit))
  | .fvConvert k qa fromU toU =>
    match p.fv? k with
    | none => .error .runtime
    | some v => okFV (convertFractionValue db qa fromU toU v)

/-- one operation of a program -/
inductive PoolOp
  | new (c : Ctor)
  | upd (i : Nat) (m : Mut)
deriving DecidableEq, Repr

/-- the object an operation changes -/
def PoolOp.target : PoolOp → Option Nat
  | .new _ => none
  | .upd i _ => some i

/-- one step: the new pool and what the statement did (an exception leaves everything as it was) -/
def poolStep (db : Db) (p : Pool) : PoolOp → Pool × Except ErrKind Unit
  | .new c =>
    match c.eval db p with
    | .ok (some o) => (p ++ [o], .ok ())
    | .ok none => (p, .ok ())
    | .error e => (p, .error e)
  | .upd i m =>
    match p[i]? with
    | none => (p, .error .runtime)
    | some o =>
      match o.mutate m with
      | .ok o' => (p.set i o', .ok ())
      | .error e => (p, .error e)

/-- a whole program -/
def poolRun (db : Db) : Pool → List PoolOp → Pool
  | p, [] => p
  | p, op :: ops => poolRun db (poolStep db p op).1 ops

/-- the pools after every step, with the outcome of the step -/
def poolTrace (db : Db) : Pool → List PoolOp → List (Except ErrKind Unit × Pool)
  | _, [] => []
  | p, op :: ops => ((poolStep db p op).2, (poolStep db p op).1) :: poolTrace db (poolStep db p op).1 ops

/-- the in-place operations applied to one object alone (a failing one changes nothing) -/
def Obj.mutateAll (o : Obj) : List Mut → Obj
  | [] => o
  | m :: ms =>
    match o.mutate m with
    | .ok o' => o'.mutateAll ms
    | .error _ => o.mutateAll ms

/-- the in-place operations of a program that are aimed at object `j` -/
def mutsOf (j : Nat) : List PoolOp → List Mut
  | [] => []
  | .upd i m :: ops => if i = j then m :: mutsOf j ops else mutsOf j ops
  | .new _ :: ops => mutsOf j ops

end Barril.Frac
