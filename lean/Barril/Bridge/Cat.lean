/-
Bridge theorems for `UnitDatabase.AddCategory` (generated: `Barril/Gen/CodeCat.lean`, regenerated from the source text of
/repo on every run by `harness/pycode.py`).  The function is translated in STRETCHES (the generated doc comments name the
first and last statement of each); covered here:

* `addCategoryPrefix` = from the first statement to `assert quantity_type is not None`: `CheckType(category, str)`, the
  guards (both `from_category` and `quantity_type`: ValueError; already registered without `override`: UnitsError;
  `max_value < min_value`: ValueError), the `if from_category:` block (quantity type from the source category, every
  argument left at None copied from it) and the assertion.  `addCategoryPrefix_eq_model`: it equals `prefixModel`, and
  `addCategory_eq_prefix`: the model's `Reg.addCategory` is `prefixModel` followed by `buildInfo` and the store - so the
  order of the guards, their error classes and what is inherited are tied to the code's text.
* `addCategoryDefaultValue` = the statement `if default_value is None: … else: …`: `addCategoryDefaultValue_eq_model`: it
  equals `Reg.resolveDefaultValue` (derived from min, else max, else 0; RuntimeError with an exclusive limit; a given value
  asserted inside the limits, `>`/`>=` and `<`/`<=` by the exclusivity flags).
* `addCategoryDefaultUnit` = the statement `if default_unit is None: … else: …`: `addCategoryDefaultUnit_eq_model`: it equals
  `Reg.resolveDefaultUnit` (the base unit, or the first valid unit when the base is not among a non-empty list; a given unit
  legacy-fixed and required to belong to the quantity type).
NOT covered by a generated definition: the `valid_units` loop (`resolveValid`), the
caption (`titleCaption`), the `CategoryInfo` construction and the store; the flags / caption given as explicit `None`
(`inheritFlags`).  Core Lean only.
-/
import Barril.Gen.CodeCat
import Barril.Model.Reg

namespace Barril.Bridge.Cat
open Barril Barril.Reg Barril.Gen.Code

/-- the part of `Reg.addCategory` before `buildInfo` -/
def prefixModel (r : Registry) (a : CatArgs) : Except ErrKind (Sym × CatArgs) :=
  match a.category with
  | .none => .error .type
  | .bad => .error .type
  | .str c =>
    if truthy a.fromCat && truthy a.qtype then .error .value
    else if !a.override && (catGet r.cats c).isSome then .error .units
    else if limitsInverted a.minV a.maxV then .error .value
    else
      match inheritFrom r a with
      | .error e => .error e
      | .ok a1 =>
        match a1.qtype with
        | none => .error .assertion
        | some qt => .ok (qt, a1)

theorem addCategory_eq_prefix (lg : List (Sym × Sym)) (r : Registry) (a : CatArgs) :
    addCategory lg r a = (match prefixModel r a with
      | .error e => (r, .error e)
      | .ok (qt, a1) =>
        match buildInfo lg r (catArgStr a.category) qt a1 with
        | .error e => (r, .error e)
        | .ok info => (⟨r.types, r.index, catSet r.cats info⟩, .ok info)) := by
  unfold addCategory prefixModel
  cases hc : a.category with
  | none => rfl
  | bad => rfl
  | str c =>
    simp only [catArgStr]
    (repeat' (first | rfl | split)) <;> simp_all

/-- what the generated prefix returns for the arguments after inheritance -/
def resultOf (p : Sym × CatArgs) : Sym × Option (List Sym) × Option Sym × Option Rat × Option Rat × Option Rat :=
  (p.1, p.2.validUnits, p.2.defaultUnit, p.2.defaultValue, p.2.minV, p.2.maxV)

theorem addCategoryPrefix_eq_model (r : Registry) (a : CatArgs) :
    addCategoryPrefix r a.category a.qtype a.validUnits a.override a.defaultUnit a.defaultValue a.minV a.maxV a.minExcl
        a.maxExcl a.caption a.fromCat
      = (match prefixModel r a with
         | .error e => .error e
         | .ok p => .ok (resultOf p)) := by
  obtain ⟨category, qtype, validUnits, override, defaultUnit, defaultValue, minV, maxV, minExcl, maxExcl, caption, fromCat⟩ := a
  unfold addCategoryPrefix prefixModel inheritFrom resultOf
  cases category with
  | none => rfl
  | bad => rfl
  | str c =>
    simp only [checkStr, catArgStr]
    by_cases h1 : truthy fromCat = true ∧ truthy qtype = true
    · simp [h1]
    · have h1' : (truthy fromCat && truthy qtype) = false := by
        cases hA : truthy fromCat <;> cases hB : truthy qtype <;> simp_all
      simp only [h1, h1', if_false, Bool.false_eq_true]
      by_cases h2 : (¬ override = true) ∧ (catGet r.cats c).isSome = true
      · have h2' : (!override && (catGet r.cats c).isSome) = true := by cases override <;> simp_all
        simp [h2]
      · have h2' : (!override && (catGet r.cats c).isSome) = false := by
          cases override <;> cases hh : (catGet r.cats c).isSome <;> simp_all
        simp only [h2, h2', if_false, Bool.false_eq_true]
        cases minV <;> cases maxV <;> simp only [limitsInverted, Bool.false_eq_true, if_false, decide_eq_true_eq] <;>
          (try (rename_i lo hi; by_cases h3 : hi < lo <;> simp only [h3, if_true, if_false])) <;>
          (first
            | rfl
            | (by_cases hf : truthy fromCat = true
               · simp only [hf, if_true]
                 cases getCategoryInfo r (fromCat.getD 0) <;> simp only [] <;>
                   first
                   | rfl
                   | (cases validUnits <;> cases defaultUnit <;> cases defaultValue <;> simp [orElseO])
               · simp only [hf, if_false, Bool.false_eq_true]
                 cases qtype <;> simp))

theorem addCategoryDefaultValue_eq_model (c : SArg) (qt : Option Sym) (vu : Option (List Sym)) (ov : Bool) (du : Option Sym)
    (dv lo hi : Option Rat) (loX hiX : Bool) (cap : Sym) (fc : Option Sym) :
    addCategoryDefaultValue c qt vu ov du dv lo hi loX hiX cap fc = resolveDefaultValue lo hi loX hiX dv := by
  unfold addCategoryDefaultValue resolveDefaultValue minOk maxOk
  cases dv <;> cases lo <;> cases hi <;> cases loX <;> cases hiX <;> simp <;>
    (repeat' (first | rfl | split)) <;> simp_all

theorem fixLegacy_of_not_legacy (lg : List (Sym × Sym)) (d : Sym) (h : isLegacy lg d = false) : fixLegacy lg d = d := by
  unfold isLegacy at h
  simpa using h

theorem addCategoryDefaultUnit_eq_model (lg : List (Sym × Sym)) (r : Registry) (c : SArg) (qt : Sym) (vu : Option (List Sym))
    (ov : Bool) (du : Option Sym) (dv lo hi : Option Rat) (loX hiX : Bool) (cap : Sym) (fc : Option Sym) :
    addCategoryDefaultUnit lg r c qt vu ov du dv lo hi loX hiX cap fc = resolveDefaultUnit lg r qt vu du := by
  unfold addCategoryDefaultUnit resolveDefaultUnit
  cases du with
  | some d =>
    simp only []
    cases getUnits r qt with
    | error e => rfl
    | ok qunits =>
      simp only []
      cases hl : isLegacy lg d
      · have hfx := fixLegacy_of_not_legacy lg d hl
        by_cases hm : d ∈ qunits <;> simp [hfx, hm]
      · by_cases hm : fixLegacy lg d ∈ qunits <;> simp [hm]
  | none =>
    simp only []
    cases getBaseUnit r qt with
    | error e => rfl
    | ok b =>
      simp only []
      cases vu with
      | none => simp
      | some l =>
        cases l with
        | nil => simp
        | cons v vs =>
          by_cases hm : b ∈ v :: vs <;> simp [hm, PyRt.pyIndex, PyRt.normIndex]

end Barril.Bridge.Cat
