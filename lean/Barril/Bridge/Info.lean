/-
Bridge theorems for `UnitDatabase.GetInfo` and the module function `FixUnitIfIsLegacy` (generated:
`Barril/Gen/CodeInfo.lean`, regenerated from the source text of /repo on every run by `harness/pycode.py`).  The local function `TryToGetUnitInfoFromUnit` is inlined at its two calls
(a closure reads `quantity_type` at the time of the call, i.e. AFTER the category was resolved), the continuations needed
on several paths are the helper definitions `getInfo_k1 … k4`, the two search loops (`for … : if …: return info`) are
`getInfo_loop1/2` answering `.inl info` for the `return`.

* `getInfo_eq_model`: with the three tables instantiated by the model's lookups (`KeyError` when absent) and
  `FixUnitIfIsLegacy` by (`isLegacy`, `fixLegacy`), the generated definition equals `Db.getInfo` for ALL databases,
  names, units and both flags: direct hit only when the quantity type matches, category → quantity type,
  InvalidQuantityTypeError, first matching row, the `<unknown>` row only for `fix_unknown` and the Unknown type, the
  legacy rewrite only for `fix_legacy` and only through the direct lookup with the RESOLVED quantity type.
  (`Db.getInfo` is what C01's conversions, C05's validity checks and C16's legacy theorems are stated over.)
* `fixUnitIfIsLegacy_eq_model`: on the text of a symbol and `_LEGACY_TO_CURRENT` as text, the generated function returns
  the model's chain of replacements (`fixLegacyBytes`, `str.replace` = `replaceAll`) and whether the text changed;
  `fixUnitIfIsLegacy_fixed`: its second component is `fixLegacy`; `fixUnitIfIsLegacy_flag`: its first component is
  `isLegacy` (for a result text without a trailing NUL byte, where text and code determine each other).
Core Lean + `Proofs/LegacyLemmas` (`Sym.ofBytes_bytes`).
-/
import Barril.Gen.CodeInfo
import Barril.Model.Conv
import Barril.Proofs.LegacyLemmas

namespace Barril.Bridge.Info
open Barril Barril.Gen.Code

/-- `self.unit_to_unit_info[unit]` -/
def unitLookupOf (db : Db) (u : Sym) : Except ErrKind UnitRow :=
  match db.unitBySym u with
  | some r => .ok r
  | none => .error .key

/-- `self.categories_to_quantity_types[name]` -/
def catLookupOf (db : Db) (c : Sym) : Except ErrKind CatRow :=
  match db.catByName c with
  | some r => .ok r
  | none => .error .key

/-- `self.quantity_types[quantity_type]` -/
def typeLookupOf (db : Db) (qt : Sym) : Except ErrKind (List UnitRow) :=
  if db.hasType qt then .ok (db.unitsOfType qt) else .error .key

/-- `FixUnitIfIsLegacy(unit)` on symbols -/
def fixOf (db : Db) (u : Sym) : Bool × Sym := (isLegacy db.legacy u, fixLegacy db.legacy u)

theorem loop1_eq_find (a : Sym → Except ErrKind UnitRow) (b : Sym → Except ErrKind CatRow)
    (c : Sym → Except ErrKind (List UnitRow)) (d : Sym → Bool × Sym) (u : Sym) (rows : List UnitRow) :
    getInfo_loop1 a b c d u rows = (match rows.find? (·.sym == u) with
      | some r => .ok (.inl r)
      | none => .ok (.inr ((), []))) := by
  induction rows with
  | nil => rfl
  | cons r rows ih =>
    unfold getInfo_loop1
    by_cases h : r.sym = u
    · simp [h, List.find?]
    · have h' : (r.sym == u) = false := by simpa using h
      simp only [h, if_false, List.find?, h']
      exact ih

theorem loop2_eq_find (a : Sym → Except ErrKind UnitRow) (b : Sym → Except ErrKind CatRow)
    (c : Sym → Except ErrKind (List UnitRow)) (d : Sym → Bool × Sym) (u : Sym) (rows : List UnitRow) :
    getInfo_loop2 a b c d u rows = (match rows.find? (·.sym == u) with
      | some r => .ok (.inl r)
      | none => .ok (.inr ((), []))) := by
  induction rows with
  | nil => rfl
  | cons r rows ih =>
    unfold getInfo_loop2
    by_cases h : r.sym = u
    · simp [h, List.find?]
    · have h' : (r.sym == u) = false := by simpa using h
      simp only [h, if_false, List.find?, h']
      exact ih

/-- the second `TryToGetUnitInfoFromUnit` and the final error: the `fix_legacy` fallback -/
theorem k3_eq (db : Db) (fixLeg : Bool) (qt' : Sym) (rows : List UnitRow) (u : Sym) (o : Option UnitRow) :
    getInfo_k3 (unitLookupOf db) (catLookupOf db) (typeLookupOf db) (fixOf db) fixLeg qt' rows u o
      = (match db.infoLegacy qt' u fixLeg with
         | some r => .ok r
         | none => .error .units) := by
  unfold getInfo_k3 getInfo_k4 Db.infoLegacy Db.tryInfo unitLookupOf fixOf
  cases fixLeg <;> simp only [Bool.false_eq_true, if_false, Bool.false_and, Bool.true_and, if_true]
  cases isLegacy db.legacy u <;> simp only [Bool.false_eq_true, if_false, if_true]
  cases db.unitBySym (fixLegacy db.legacy u) with
  | none => rfl
  | some r =>
    by_cases h : r.qtype = qt'
    · simp [h]
    · have h2 : ¬ qt' = r.qtype := fun e => h e.symm
      simp [h, h2]

/-- from the lookup of the quantity type on -/
theorem k2_eq (db : Db) (fixLeg fixUnknown : Bool) (qt' u : Sym) (o : Option UnitRow) :
    getInfo_k2 (unitLookupOf db) (catLookupOf db) (typeLookupOf db) (fixOf db) fixLeg fixUnknown qt' u o
      = (if !db.hasType qt' then .error .units else
         match (db.unitsOfType qt').find? (·.sym == u) with
         | some r => .ok r
         | none =>
           match db.infoUnknown qt' fixUnknown with
           | some r => .ok r
           | none =>
             match db.infoLegacy qt' u fixLeg with
             | some r => .ok r
             | none => .error .units) := by
  unfold getInfo_k2 Db.infoUnknown
  simp only [loop1_eq_find, loop2_eq_find, k3_eq, typeLookupOf]
  cases hT : db.hasType qt' <;> simp only [Bool.false_eq_true, if_false, if_true, Bool.not_false, Bool.not_true]
  cases db.unitsOfType qt' |>.find? (·.sym == u) with
  | some r => rfl
  | none =>
    simp only []
    cases fixUnknown <;> simp only [Bool.false_eq_true, if_false, if_true, Bool.false_and, Bool.true_and]
    by_cases hq : qt' = unknownQType
    · simp only [hq, if_true, beq_self_eq_true]
      cases db.unitsOfType unknownQType |>.find? (·.sym == unknownUnit) <;> rfl
    · have hq' : (qt' == unknownQType) = false := by simpa using hq
      simp only [hq, hq', if_false, Bool.false_eq_true]

theorem getInfo_eq_model (db : Db) (qt u : Sym) (fixUnknown fixLeg : Bool) :
    getInfo (unitLookupOf db) (catLookupOf db) (typeLookupOf db) (fixOf db) qt u fixUnknown fixLeg
      = db.getInfo qt u fixUnknown fixLeg := by
  unfold getInfo getInfo_k1 Db.getInfo Db.tryInfo Db.resolveQt
  simp only [k2_eq, unitLookupOf, catLookupOf]
  cases db.unitBySym u with
  | none => cases db.catByName qt <;> rfl
  | some r =>
    by_cases h : r.qtype = qt
    · simp [h]
    · have h2 : ¬ qt = r.qtype := fun e => h e.symm
      have h3 : (r.qtype == qt) = false := by simpa using h
      simp only [h2, h3, if_false, Bool.false_eq_true]
      cases db.catByName qt <;> rfl

/-! ### `FixUnitIfIsLegacy` -/

/-- `_LEGACY_TO_CURRENT` as text -/
def legacyBytes (L : List (Sym × Sym)) : List (List Nat × List Nat) := L.map (fun lc => (Sym.bytes lc.1, Sym.bytes lc.2))

theorem fixLoop_eq (L0 items : List (List Nat × List Nat)) :
    ∀ s, fixUnitIfIsLegacy_loop1 L0 s items = .ok (items.foldl (fun acc lc => replaceAll acc lc.1 lc.2) s, []) := by
  induction items with
  | nil => intro s; rfl
  | cons p rest ih =>
    intro s
    unfold fixUnitIfIsLegacy_loop1
    simp only [List.foldl_cons]
    exact ih _

theorem foldl_legacyBytes (L : List (Sym × Sym)) (s : List Nat) :
    (legacyBytes L).foldl (fun acc lc => replaceAll acc lc.1 lc.2) s = fixLegacyBytes L s := by
  unfold legacyBytes fixLegacyBytes
  rw [List.foldl_map]

/-- the generated function on the text of `u`: the chain of replacements and whether it changed the text -/
theorem fixUnitIfIsLegacy_eq_model (L : List (Sym × Sym)) (u : Sym) :
    fixUnitIfIsLegacy (legacyBytes L) (Sym.bytes u)
      = .ok (decide (Sym.bytes u ≠ fixLegacyBytes L (Sym.bytes u)), fixLegacyBytes L (Sym.bytes u)) := by
  unfold fixUnitIfIsLegacy
  simp only [fixLoop_eq, foldl_legacyBytes]

/-- second component = the model's `fixLegacy` -/
theorem fixUnitIfIsLegacy_fixed (L : List (Sym × Sym)) (u : Sym) :
    (fixUnitIfIsLegacy (legacyBytes L) (Sym.bytes u)).map (fun r => Sym.ofBytes r.2) = .ok (fixLegacy L u) := by
  rw [fixUnitIfIsLegacy_eq_model]; rfl

/-- first component = the model's `isLegacy`, for a result text that is the text of its own code (no trailing NUL) -/
theorem fixUnitIfIsLegacy_flag (L : List (Sym × Sym)) (u : Sym)
    (hw : Sym.bytes (fixLegacy L u) = fixLegacyBytes L (Sym.bytes u)) :
    (fixUnitIfIsLegacy (legacyBytes L) (Sym.bytes u)).map (fun r => r.1) = .ok (isLegacy L u) := by
  rw [fixUnitIfIsLegacy_eq_model]
  show Except.ok _ = Except.ok _
  congr 1
  unfold isLegacy
  by_cases h : Sym.bytes u = fixLegacyBytes L (Sym.bytes u)
  · have : fixLegacy L u = u := by unfold fixLegacy; rw [← h]; exact Sym.ofBytes_bytes u
    have e1 : decide (Sym.bytes u ≠ fixLegacyBytes L (Sym.bytes u)) = false := decide_eq_false (fun hn => hn h)
    rw [e1, this]; simp
  · have : fixLegacy L u ≠ u := by
      intro e
      apply h
      rw [← hw, e]
    have e1 : decide (Sym.bytes u ≠ fixLegacyBytes L (Sym.bytes u)) = true := decide_eq_true h
    rw [e1]; simp [this]

end Barril.Bridge.Info
