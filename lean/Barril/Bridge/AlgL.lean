/-
Bridge theorems for `UnitDatabase._ConvertMatchingExp` on a list/tuple value (generated: `Barril/Gen/CodeAlgL.lean`,
the SECOND definition generated from that function: `Gen.Code.convertMatchingExpList`, `isinstance(value, (list, tuple))`
True; the first one, `Gen.Code.convertMatchingExp` in `CodeAlg.lean`, is the plain-number branch).  Together the two
specialisations cover the function, so an edit of either `return` changes a generated definition.

* `convertMatchingExpList_eq_scalar` (for ANY `Convert` / `GetInfo`): the list version takes the same decisions as the
  scalar one (same-unit or exponent-1 shortcut and the no-offset exponent-1 case go through `self.Convert` on the whole
  container, parameter `convertList`); in every other case the result is the element-wise product with the factor the
  SCALAR definition applies to the value 1, i.e. `ratio ** exp`, with the scalar definition's error otherwise;
* `convertMatchingExpList_eq_model`: the same with the model's `Alg.convertMatchingExp` (through `Bridge/Alg`);
* `scalar_is_scaling`: in that case the model's scalar conversion of any `v` is `v` times that same factor, so the list
  result is exactly the scalar result on every element.
Scaling the elements by the plain ratio instead of `ratio ** exp` (seeded change C04-11), dropping the shortcut for
containers or mapping with another factor changes `convertMatchingExpList` and the proofs stop checking.  Core Lean only.
-/
import Barril.Gen.CodeAlgL
import Barril.Bridge.Alg

namespace Barril.Bridge.AlgL
open Barril Barril.Gen.Code

theorem convertMatchingExpList_eq_scalar (convert : Sym → Sym → Sym → Rat → Except ErrKind Rat)
    (convertList : Sym → Sym → Sym → List Rat → Except ErrKind (List Rat)) (getInfo : Sym → Sym → Except ErrKind UnitRow)
    (qt u w : Sym) (exp : Int) (vs : List Rat) (inD : Bool) :
    convertMatchingExpList convert convertList getInfo qt u w exp vs inD
      = (if u = w ∨ (exp = 1 ∧ ¬ inD = true) then convertList qt u w vs else
         match convert qt u w 0 with
         | .error e => .error e
         | .ok z =>
           if exp = 1 ∧ z = 0 then convertList qt u w vs else
           match convertMatchingExp convert getInfo qt u w exp 1 inD with
           | .error e => .error e
           | .ok f => .ok (vs.map (· * f))) := by
  unfold convertMatchingExpList convertMatchingExp
  by_cases h1 : u = w ∨ (exp = 1 ∧ ¬ inD = true)
  · simp only [h1, if_true]
    cases convertList qt u w vs <;> rfl
  · simp only [h1, if_false]
    cases hc0 : convert qt u w 0 with
    | error e => rfl
    | ok z =>
      simp only []
      by_cases h2 : exp = 1 ∧ z = 0
      · simp only [h2, and_self, if_true]
        cases convertList qt u w vs <;> rfl
      · simp only [h2, if_false]
        (repeat' (first | rfl | split)) <;> simp_all [Rat.one_mul]

theorem convertMatchingExpList_eq_model (db : Db) (convertList : Sym → Sym → Sym → List Rat → Except ErrKind (List Rat))
    (qt u w : Sym) (exp : Int) (vs : List Rat) (inD : Bool) :
    convertMatchingExpList db.convert convertList (fun q x => db.getInfo q x) qt u w exp vs inD
      = (if u = w ∨ (exp = 1 ∧ ¬ inD = true) then convertList qt u w vs else
         match db.convert qt u w 0 with
         | .error e => .error e
         | .ok z =>
           if exp = 1 ∧ z = 0 then convertList qt u w vs else
           match Alg.convertMatchingExp db qt u w exp 1 inD with
           | .error e => .error e
           | .ok f => .ok (vs.map (· * f))) := by
  rw [convertMatchingExpList_eq_scalar, Bridge.Alg.convertMatchingExp_eq_model]

theorem scaleByPow_one (r : Rat) (exp : Int) (v : Rat) :
    Alg.scaleByPow r exp v = (match Alg.scaleByPow r exp 1 with
      | .error e => .error e
      | .ok f => .ok (v * f)) := by
  unfold Alg.scaleByPow
  by_cases h : r = 0 ∧ exp < 0 <;> simp [h, Rat.one_mul]

/-- outside the two plain-conversion cases the model's scalar conversion multiplies by the factor it gives for 1 -/
theorem scalar_is_scaling (db : Db) (qt u w : Sym) (exp : Int) (v : Rat) (inD : Bool) (z : Rat)
    (h1 : ¬ (u = w ∨ (exp = 1 ∧ ¬ inD = true))) (hz : db.convert qt u w 0 = .ok z) (h2 : ¬ (exp = 1 ∧ z = 0)) :
    Alg.convertMatchingExp db qt u w exp v inD
      = (match Alg.convertMatchingExp db qt u w exp 1 inD with
         | .error e => .error e
         | .ok f => .ok (v * f)) := by
  have h1' : (u == w || (exp == 1 && !inD)) = false := by
    simp only [not_or, not_and, Decidable.not_not] at h1
    cases hI : inD <;> simp_all
  have h2' : (exp == 1 && z == 0) = false := by
    simp only [not_and] at h2
    by_cases he : exp = 1
    · simp [he, h2 he]
    · simp [he]
  unfold Alg.convertMatchingExp
  simp only [h1', hz, h2', Bool.false_eq_true, if_false]
  by_cases h3 : z = 0
  · simp only [h3, beq_self_eq_true, if_true]
    cases db.convert qt u w 1 with
    | error e => rfl
    | ok c1 => exact scaleByPow_one c1 exp v
  · have h3' : (z == 0) = false := by simpa using h3
    simp only [h3', Bool.false_eq_true, if_false]
    cases Alg.ratioByIncrements db qt u w with
    | error e => rfl
    | ok r => exact scaleByPow_one r exp v

end Barril.Bridge.AlgL
