/-
Bridge theorem for `UnitDatabase._ConvertMatchingExp` (generated: `Barril/Gen/CodeAlg.lean`, regenerated from the
source text of /repo on every run by `harness/pycode.py`).

`convertMatchingExp_eq_model`: the generated definition, with `self.Convert` instantiated by the model's `Db.convert`
and `self.GetInfo` by `Db.getInfo`, equals `Alg.convertMatchingExp` for ALL databases, units, exponents, values and
both settings of `in_derived`.  Every theorem of C03/C04 (and of C06's `named_eq_composed`) that goes through the unit
matching is stated over `Alg.convertMatchingExp`; this theorem makes it a statement about the code's current text.  An
edit of the Python function (the exponent-1 shortcut, the zero test, which ratio is taken, the power) changes the
generated definition and this proof no longer checks.

Scope: a plain number `value` (the generated doc comment records the `isinstance(value, (list, tuple))` branch as
specialised away; list/tuple values are scaled by the same factor element by element, compared by the correspondence).
Core Lean only.
-/
import Barril.Gen.CodeAlg
import Barril.Model.Alg

namespace Barril.Bridge.Alg
open Barril Barril.Gen.Code

theorem zpow_eq (q : Rat) (n : Int) : PyRt.zpow q n = Alg.zpowR q n := by
  cases n <;> rfl

theorem pow_scale (ratio : Rat) (exp : Int) (v : Rat) :
    (match PyRt.pow ratio exp with
     | .error e => (.error e : Except ErrKind Rat)
     | .ok p => .ok (v * p)) = Alg.scaleByPow ratio exp v := by
  unfold PyRt.pow Alg.scaleByPow
  by_cases h : ratio = 0 ∧ exp < 0
  · simp [h]
  · simp [h, zpow_eq]

theorem convertMatchingExp_eq_model (db : Db) (qt u w : Sym) (exp : Int) (v : Rat) (inDerived : Bool) :
    convertMatchingExp db.convert (fun q x => db.getInfo q x) qt u w exp v inDerived
      = Alg.convertMatchingExp db qt u w exp v inDerived := by
  unfold convertMatchingExp Alg.convertMatchingExp
  by_cases h1 : u = w ∨ (exp = 1 ∧ ¬ inDerived = true)
  · have h1' : (u == w || (exp == 1 && !inDerived)) = true := by
      rcases h1 with h | ⟨h, h'⟩
      · simp [h]
      · simp [h, h']
    simp only [h1, h1', if_true]
    cases db.convert qt u w v <;> rfl
  · have h1' : (u == w || (exp == 1 && !inDerived)) = false := by
      simp only [not_or, not_and, Decidable.not_not] at h1
      cases hI : inDerived <;> simp_all
    simp only [h1, h1', if_false]
    cases hc0 : db.convert qt u w 0 with
    | error e => first | rfl | simp
    | ok c0 =>
      simp only []
      by_cases h2 : exp = 1 ∧ c0 = 0
      · have h2' : (exp == 1 && c0 == 0) = true := by simp [h2.1, h2.2]
        simp only [h2, and_self, if_true]
        cases db.convert qt u w v <;> rfl
      · have h2' : (exp == 1 && c0 == 0) = false := by
          simp only [not_and] at h2
          by_cases he : exp = 1
          · simp [he, h2 he]
          · simp [he]
        simp only [h2, h2', if_false]
        by_cases h3 : c0 = 0
        · simp only [h3, beq_self_eq_true, if_true]
          cases hc1 : db.convert qt u w 1 with
          | error e => first | rfl | simp
          | ok c1 => simp only []; exact pow_scale c1 exp v
        · have h3' : (c0 == 0) = false := by simp [h3]
          simp only [h3, h3', if_false]
          unfold Alg.ratioByIncrements
          cases hi1 : db.getInfo qt u with
          | error e => first | rfl | simp
          | ok ru =>
            simp only []
            cases hi2 : db.getInfo qt w with
            | error e => first | rfl | simp
            | ok rw_ =>
              simp only []
              unfold Alg.baseIncrement PyRt.tobaseOf
              by_cases hk1 : ru.ok = true
              · by_cases hk2 : rw_.ok = true
                · simp only [hk1, hk2, Bool.not_true]
                  cases ru.toBase.apply 1 with
                  | error e => first | rfl | simp
                  | ok a1 =>
                    cases ru.toBase.apply 0 with
                    | error e => first | rfl | simp
                    | ok a0 =>
                      cases rw_.toBase.apply 1 with
                      | error e => first | rfl | simp
                      | ok b1 =>
                        cases rw_.toBase.apply 0 with
                        | error e => first | rfl | simp
                        | ok b0 =>
                          simp only [PyRt.div]
                          by_cases hz : b1 - b0 = 0
                          · first | rfl | simp [hz]
                          · simp [hz]; exact pow_scale _ exp v
                · simp only [hk1, hk2, Bool.not_true]
                  cases ru.toBase.apply 1 with
                  | error e => first | rfl | simp
                  | ok a1 =>
                    cases ru.toBase.apply 0 with
                    | error e => first | rfl | simp
                    | ok a0 => first | rfl | simp
              · simp [hk1]

end Barril.Bridge.Alg
