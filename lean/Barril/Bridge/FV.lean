/-
Bridge theorems for `FractionValue.__float__`, `__lt__`, `__le__`, `__gt__`, `__ge__`, `__eq__` and
`FractionScalar.ConvertFractionValue` (generated: `Barril/Gen/CodeFV.lean`, regenerated from the source text of /repo on
every run by `harness/pycode.py`).

* `fvFloat_eq_model`: `__float__` = `FV.value`;
* `fvOrder_eq_model`: each of the four order operators, over the generated `__float__`, = `FV.cmp op` (and `FV.cmpValue`
  on the two floats); `fvEq_eq_model`: `__eq__` with `Fraction.__eq__` instantiated by the model's `Frac.pyEq` = `FV.eq`;
* `convertFractionValue_eq_model`: the generated `ConvertFractionValue` (Quantity-object form) with `ObtainQuantity`,
  `ConvertScalarValue`, `FractionValue(number=…)` and `SetFraction` instantiated by the model's `obtain`,
  `Qty.convertScalarValue`, `FV.init … default`, `setFraction (.frac f)` equals `convertFV` (over which C18's
  `convertFV_close`, `convertFV_exact`, `convertFV_same_unit`, `order_…` theorems are stated): the number is converted
  first, then the numerator as an increment (`convert(numerator) - convert(0.0)`), stored through the numerator setter.
Core Lean + `Proofs/FracCF` (`fv_init_default`).
-/
import Barril.Gen.CodeFV
import Barril.Model.Frac
import Barril.Proofs.FracCF

namespace Barril.Bridge.FV
open Barril Barril.Frac Barril.Gen.Code

theorem fvFloat_eq_model (v : FV) : fvFloat v.number v.frac = v.value := rfl

/-- the generated `float(x)` of a FractionValue -/
def genFloat (v : FV) : Rat := fvFloat v.number v.frac

/-- which generated operator a `CmpOp` is -/
def genOrder : CmpOp → (FV → Rat) → FV → FV → Bool
  | .lt => fvLt | .le => fvLe | .gt => fvGt | .ge => fvGe
  | .eq => fun _ _ _ => false | .ne => fun _ _ _ => false

theorem fvOrder_eq_cmpValue (op : CmpOp) (h : op.isOrder = true) (a b : FV) :
    genOrder op genFloat a b = FV.cmpValue op a.value b.value := by
  cases op <;> first | rfl | simp [CmpOp.isOrder] at h

theorem fvOrder_eq_model (op : CmpOp) (h : op.isOrder = true) (a b : FV) :
    .ok (genOrder op genFloat a b) = a.cmp op b := by
  cases op <;> first | rfl | simp [CmpOp.isOrder] at h

theorem fvEq_eq_model (a b : FV) :
    fvEq (fun x y => x.pyEq (.frac y)) a.number b.number a.frac b.frac = a.eq b := by
  unfold fvEq FV.eq
  by_cases h : a.number = b.number
  · simp only [h, if_true]
    cases a.frac.pyEq (.frac b.frac) with
    | error e => rfl
    | ok r => cases r <;> rfl
  · simp [h]

/-- `result.SetFraction(fraction)` on a constructed FractionValue -/
def setFr (v : FV) (f : Frac) : Except ErrKind FV :=
  match setFraction (.frac f) with
  | .error e => .error e
  | .ok f' => .ok { v with frac := f' }

theorem convertFractionValue_eq_model (db : Db) (cat fromU toU : Sym) (fv : FV) :
    Gen.Code.convertFractionValue (fun c : Sym => c) (fun u c => obtain db c u) (fun (q : Qty) x t => q.convertScalarValue db t x)
        (fun n => FV.init (some n) FracArg.default) setFr fv cat fromU toU
      = convertFV db cat fromU toU fv := by
  unfold Gen.Code.convertFractionValue convertFV setFr
  simp only [fv_init_default, setFraction]
  cases obtain db cat fromU with
  | error e => rfl
  | ok q =>
    simp only []
    cases q.convertScalarValue db toU fv.number with
    | error e => rfl
    | ok n =>
      simp only []
      cases q.convertScalarValue db toU ((fv.frac.numerator : Int) : Rat) with
      | error e => rfl
      | ok a =>
        simp only []
        cases q.convertScalarValue db toU 0 with
        | error e => rfl
        | ok z =>
          simp only []
          cases fv.frac.setNumerator (a - z) <;> rfl

end Barril.Bridge.FV
