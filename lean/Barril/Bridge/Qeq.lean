/-
Bridge theorems for `Quantity.__eq__` and `Quantity.__hash__` (generated: `Barril/Gen/CodeQeq.lean`, regenerated from the
source text of /repo on every run by `harness/pycode.py`).

* `quantityEq_eq_intern`: on two live objects of the interning model the generated `__eq__` (items of the two composing
  dicts as Python compares them, then the captions) is `Intern.qeq` (C07: `qeq_ext`, `eq_hash`, `interned_iff_equal` …);
* `quantityEq_eq_cmp`: on the comparison model it is `Cmp.Qty.eq`, and `Cmp.quantityEq` on a Quantity operand (C08);
* `quantityHash_eq_model`: with `_hash` as state, an absent memo hashes `Intern.hashKey` (the `(category, tuple(unit, exp))`
  list with the caption appended) and stores it; `quantityHash_memo`: a present memo is returned untouched - so two
  equal quantities hash alike whatever `hash` is (`Intern.eq_hash`).
* `quantityReduce_eq_model`: the generated `__reduce__` on the cells of a live object is `Intern.reduce` (the items and the
  caption, `None` for the empty caption); `obtainReduced_eq_model`: the generated `_ObtainReduced` with `ObtainQuantity` =
  `Intern.obtain … (.dict items true) .none caption` is `Intern.obtainReduced` (C07: `pickle_roundtrip_eq`).
Core Lean only.
-/
import Barril.Gen.CodeQeq
import Barril.Model.Intern
import Barril.Model.Cmp

namespace Barril.Bridge.Qeq
open Barril Barril.Gen.Code

theorem quantityEq_eq_intern (h : Intern.Heap) (a b : Intern.Quantity) (x y : List (Sym × Intern.Cell))
    (hx : Intern.readMap h a.map = some x) (hy : Intern.readMap h b.map = some y) :
    Gen.Code.quantityEq x y a.caption b.caption = Intern.qeq h a b := by
  unfold Gen.Code.quantityEq Intern.qeq
  simp only [hx, hy]
  by_cases h1 : x = y <;> by_cases h2 : a.caption = b.caption <;> simp [h1, h2]

theorem quantityEq_eq_cmp (a b : Barril.Qty) : Gen.Code.quantityEq a.entries b.entries a.caption b.caption = a.eq b := by
  unfold Gen.Code.quantityEq Barril.Qty.eq
  by_cases h1 : a.entries = b.entries <;> by_cases h2 : a.caption = b.caption <;> simp [h1, h2]

theorem quantityEq_eq_cmp_obj (a b : Barril.Qty) :
    Barril.quantityEq a (.quantity b) = .ok (.val (Gen.Code.quantityEq a.entries b.entries a.caption b.caption)) := by
  rw [quantityEq_eq_cmp]
  simp [Barril.quantityEq, Barril.Obj.isInstance, Barril.Obj.cls, Barril.Cls.isSubclass]

theorem quantityHash_eq_model {H : Type} (hashOf : List (Sym × Sym × Int) × Sym → H) (h : Intern.Heap) (q : Intern.Quantity)
    (cs : List (Sym × Intern.Cell)) (hc : Intern.readMap h q.map = some cs) :
    ∃ k, Intern.hashKey h q = some k ∧
      quantityHash hashOf (Intern.content cs) q.caption none = .ok (some (hashOf k), hashOf k) := by
  refine ⟨(Intern.content cs, q.caption), ?_, ?_⟩
  · simp [Intern.hashKey, hc, Intern.content]
  · simp [quantityHash, PyRt.slotGet]

theorem quantityHash_memo {κ H : Type} (hashOf : κ × Sym → H) (c : κ) (cap : Sym) (m : H) :
    quantityHash hashOf c cap (some m) = .ok (some m, m) := by
  simp [quantityHash, PyRt.slotGet]

theorem quantityReduce_eq_model (s : Intern.State) (q : Intern.Quantity) :
    (Intern.cellsOf s q).map (fun cs => (quantityReduce cs q.caption).2) = Intern.reduce s q := by
  unfold Intern.reduce quantityReduce
  cases Intern.cellsOf s q with
  | none => rfl
  | some cs => by_cases h : q.caption = 0 <;> simp [h]

theorem obtainReduced_eq_model (db : Db) (s : Intern.State) (st : List (Sym × Intern.Cell) × Option Sym) :
    obtainReduced (fun cs cap => Intern.obtain db s (.dict cs true) .none cap) st = Intern.obtainReduced db s st := rfl

end Barril.Bridge.Qeq
