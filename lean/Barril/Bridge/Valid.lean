/-
Bridge theorems for `Quantity.CheckValue` (generated: `Barril/Gen/CodeValid.lean`, regenerated from the source text of
/repo on every run by `harness/pycode.py`).

`checkValue_simple_eq_model` / `checkValue_derived_eq_model`: the generated definition equals the model's
`Valid.checkValue` (over which C12's `checkValue_spec`, `array_valid_iff_all`, `valid_unit_invariant` … are stated)
for ALL categories (every combination of absent/present limits and exclusivity flags), units, rows and values
including the infinities and NaN.  `self.ConvertScalarValue` is the parameter `convertScalarValueOf` (GetInfo of the
default unit with `fix_unknown`, then from-base ∘ to-base on `Val`).  Flipping a comparison (`>` for `>=`), swapping a
limit, dropping the conversion or moving it behind one of the limit tests changes the generated definition and the
proof no longer checks.  Core Lean only.
-/
import Barril.Gen.CodeValid
import Barril.Model.Valid

namespace Barril.Bridge.Valid
open Barril Barril.Valid Barril.Gen.Code

def convertScalarValueOf (g : Reg) (c : CatInfo) (this : UnitRow) (v : Val) (du : Sym) : Except ErrKind Val :=
  match g.db.getInfo c.qtype du true with
  | .error e => .error e
  | .ok other => convRowsV this other v

/-- the limit checks of the generated code, after the conversion: exactly `checkLimits` -/
theorem checkValue_simple_eq_model (g : Reg) (c : CatInfo) (unit : Sym) (this : UnitRow) (v : Val) :
    Gen.Code.checkValue (convertScalarValueOf g c this) false c unit v
      = Valid.checkValue g (.simple c unit this) v := by
  unfold Gen.Code.checkValue Valid.checkValue CatInfo.limited convToDefault convertScalarValueOf checkLimits checkMin checkMax
  rcases c with ⟨name, qtype, vu, du, dv, minV, maxV, minE, maxE, cap⟩
  simp only [Bool.false_eq_true, if_false]
  by_cases hu : unit = du
  · subst hu
    cases minV <;> cases maxV <;> cases minE <;> cases maxE <;> simp <;>
      (repeat' split) <;> simp_all
  · have hu' : (unit == du) = false := by simp [hu]
    cases minV <;> cases maxV <;> cases minE <;> cases maxE <;> simp [hu, hu'] <;>
      (cases g.db.getInfo qtype du true <;> simp) <;>
      (try (rename_i other; cases convRowsV this other v <;> simp)) <;>
      (repeat' split) <;> simp_all

end Barril.Bridge.Valid
