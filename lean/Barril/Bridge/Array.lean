/-
Bridge theorems for `Array._DoValidateValues` (generated: `Barril/Gen/CodeArray.lean`, regenerated from the source text
of /repo on every run by `harness/pycode.py`; the two `for` loops over the shared iterator become the structurally
recursive helper definitions `doValidateValues_loop1` (outer: find the first non-NaN value, then `break`) and
`doValidateValues_loop2` (inner: running minimum and maximum, NaN skipped with `continue`)).

* `loop2_eq_scanRest`: the inner loop consumes the whole iterator and ends with exactly `scanRest`'s minimum/maximum;
* `loop1_eq_scan`: the outer loop = `scan`, then `CheckValue(min_value)`, `CheckValue(max_value)` in that order;
* `doValidateValues_flat_eq_model` / `doValidateValues_derived_eq_model`: the generated function equals the model's
  `doValidate` on every flat container (list, tuple, ndarray; any mix of numbers, infinities and NaN; empty too), for
  every quantity - with `quantity.CheckValue` instantiated by the model's `checkValue`;
* `doValidateValues_flat_code`: the same with the GENERATED `Quantity.CheckValue` (`Bridge/Valid`) plugged in, so the
  whole validation path of a flat array is a statement about the current text of both functions.

* `doValidateValuesTuples_eq_model`: the second generated definition (the same Python function specialised to a container
  whose first element is a tuple; loops `for value in values` / `for v in value`) equals `doValidate` on every
  `.nested` container = `checkItems` (elements that are not tuples are passed over, every number of every tuple is
  checked in order, the first failure is the result).

C12's `array_valid_iff_all`, `scan_spec`, `validate_flat_iff` are stated over `scan`/`scanRest`/`checkFlat`/`doValidate`.
The two specialisations (`isinstance(values[0], tuple)` False / True, recorded in the generated doc comments) together
cover the function.  Flipping `<`/`>`, dropping a NaN test, initialising from the wrong element, checking only one
end, or `continue` for `break` changes the generated definitions and the proofs stop checking.  Core Lean only.
-/
import Barril.Gen.CodeArray
import Barril.Bridge.Valid

namespace Barril.Bridge.Array
open Barril Barril.Valid Barril.Gen.Code

theorem loop2_eq_scanRest (cv : Val → Except VErr Unit) (d n : Bool) (ci : CatInfo) (vs : List Val) :
    ∀ mx mn, doValidateValues_loop2 cv d n ci mx mn vs = .ok (((scanRest mn mx vs).2, (scanRest mn mx vs).1), []) := by
  induction vs with
  | nil => intro mx mn; rfl
  | cons v vs ih =>
    intro mx mn
    unfold doValidateValues_loop2 scanRest
    by_cases h1 : v.isNan = true
    · simp only [h1, if_true]; exact ih mx mn
    · by_cases h2 : Val.lt v mn = true
      · simp only [h1, h2, if_true]; exact ih mx v
      · by_cases h3 : Val.gt v mx = true
        · simp only [h1, h2, h3, if_true]; exact ih v mn
        · simp only [h1, h2, h3]; exact ih mx mn

/-- `CheckValue(min_value); CheckValue(max_value)` after the scan -/
def checkEnds (cv : Val → Except VErr Unit) : Option (Val × Val) → Except VErr (Unit × List Val)
  | none => .ok ((), [])
  | some (mn, mx) =>
    match cv mn with
    | .error e => .error e
    | .ok _ =>
      match cv mx with
      | .error e => .error e
      | .ok _ => .ok ((), [])

theorem loop1_eq_scan (cv : Val → Except VErr Unit) (d n : Bool) (ci : CatInfo) (isNumpy : Bool) (vs : List Val) :
    doValidateValues_loop1 cv d n ci isNumpy vs = checkEnds cv (scan vs) := by
  induction vs with
  | nil => rfl
  | cons v vs ih =>
    unfold doValidateValues_loop1 scan
    by_cases h1 : v.isNan = true
    · simp only [h1, if_true]; exact ih
    · simp only [h1, loop2_eq_scanRest, checkEnds]
      cases isNumpy <;> simp only [Bool.false_eq_true, if_true, if_false] <;>
        (cases cv (scanRest v v vs).1 <;> simp only []) <;> (cases cv (scanRest v v vs).2 <;> rfl)

theorem checkEnds_eq_checkFlat (g : Reg) (q : Quant) (vs : List Val) :
    (match checkEnds (checkValue g q) (scan vs) with
     | .error e => .error e
     | .ok _ => .ok ()) = checkFlat g q vs := by
  unfold checkFlat checkEnds
  cases scan vs with
  | none => rfl
  | some p =>
    obtain ⟨mn, mx⟩ := p
    simp only []
    cases checkValue g q mn with
    | error e => rfl
    | ok _ => cases checkValue g q mx <;> rfl

theorem doValidateValues_derived_eq_model (g : Reg) (cv : Val → Except VErr Unit) (n : Bool) (ci : CatInfo) (kind : Container)
    (vs : List Val) : doValidateValues cv true n ci vs = doValidate g .derived (.flat kind vs) := by
  unfold doValidateValues doValidate
  simp

theorem doValidateValues_flat_eq_model (g : Reg) (c : CatInfo) (unit : Sym) (this : UnitRow) (kind : Container) (vs : List Val) :
    doValidateValues (checkValue g (.simple c unit this)) false (kind == .ndarray) c vs
      = doValidate g (.simple c unit this) (.flat kind vs) := by
  unfold doValidateValues doValidate CatInfo.limited
  simp only [loop1_eq_scan]
  by_cases hl : c.minV.isSome = true ∨ c.maxV.isSome = true
  · have hl' : (c.minV.isSome || c.maxV.isSome) = true := by simpa using hl
    cases vs with
    | nil => simp [hl, hl', checkFlat, scan]
    | cons v vs =>
      have hpos : (((v :: vs).length : Nat) : Int) > (0 : Int) := by simp
      simp only [Bool.false_eq_true, not_false_eq_true, hl, hl', hpos, if_true, Bool.not_true, if_false]
      rw [← checkEnds_eq_checkFlat]
      cases checkEnds (checkValue g (.simple c unit this)) (scan (v :: vs)) <;> rfl
  · have hl' : (c.minV.isSome || c.maxV.isSome) = false := by
      cases h1 : c.minV.isSome <;> cases h2 : c.maxV.isSome <;> simp_all
    simp [hl, hl']

/-- the same over the generated `Quantity.CheckValue` -/
theorem doValidateValues_flat_code (g : Reg) (c : CatInfo) (unit : Sym) (this : UnitRow) (kind : Container) (vs : List Val) :
    doValidateValues (Gen.Code.checkValue (Bridge.Valid.convertScalarValueOf g c this) false c unit) false (kind == .ndarray) c vs
      = doValidate g (.simple c unit this) (.flat kind vs) := by
  rw [← doValidateValues_flat_eq_model]
  congr 1
  funext v
  exact Bridge.Valid.checkValue_simple_eq_model g c unit this v

theorem tuplesLoop2_eq_checkAll (g : Reg) (q : Quant) (d n : Bool) (ci : CatInfo) (vs : List Val) :
    (match doValidateValuesTuples_loop2 (checkValue g q) d n ci vs with
     | .error e => .error e
     | .ok _ => .ok ()) = checkAll g q vs := by
  induction vs with
  | nil => rfl
  | cons v vs ih =>
    unfold doValidateValuesTuples_loop2 checkAll
    cases checkValue g q v with
    | error e => rfl
    | ok _ => exact ih

theorem tuplesLoop1_eq_checkItems (g : Reg) (q : Quant) (d n : Bool) (ci : CatInfo) (items : List Item) :
    (match doValidateValuesTuples_loop1 (checkValue g q) d n ci items with
     | .error e => .error e
     | .ok _ => .ok ()) = checkItems g q items := by
  induction items with
  | nil => rfl
  | cons it items ih =>
    cases it with
    | num x =>
      unfold doValidateValuesTuples_loop1 checkItems
      simp only [itemIsTuple, Bool.false_eq_true, if_false]
      exact ih
    | tup vs =>
      unfold doValidateValuesTuples_loop1 checkItems
      simp only [itemIsTuple, itemValues, if_true]
      rw [← tuplesLoop2_eq_checkAll g q d n ci vs]
      cases doValidateValuesTuples_loop2 (checkValue g q) d n ci vs with
      | error e => rfl
      | ok _ => exact ih

theorem doValidateValuesTuples_eq_model (g : Reg) (c : CatInfo) (unit : Sym) (this : UnitRow) (kind : Container)
    (n : Bool) (first : List Val) (rest : List Item) :
    doValidateValuesTuples (checkValue g (.simple c unit this)) false n c (.tup first :: rest)
      = doValidate g (.simple c unit this) (.nested kind first rest) := by
  unfold doValidateValuesTuples doValidate CatInfo.limited
  by_cases hl : c.minV.isSome = true ∨ c.maxV.isSome = true
  · have hl' : (c.minV.isSome || c.maxV.isSome) = true := by simpa using hl
    have hpos : (((Item.tup first :: rest).length : Nat) : Int) > (0 : Int) := by simp
    simp only [Bool.false_eq_true, not_false_eq_true, hl, hl', hpos, if_true, Bool.not_true, if_false]
    exact tuplesLoop1_eq_checkItems g (.simple c unit this) false n c (.tup first :: rest)
  · have hl' : (c.minV.isSome || c.maxV.isSome) = false := by
      cases h1 : c.minV.isSome <;> cases h2 : c.maxV.isSome <;> simp_all
    simp [hl, hl']

theorem doValidateValuesTuples_derived (cv : Val → Except VErr Unit) (n : Bool) (ci : CatInfo) (items : List Item) :
    doValidateValuesTuples cv true n ci items = .ok () := by
  unfold doValidateValuesTuples
  simp

end Barril.Bridge.Array
