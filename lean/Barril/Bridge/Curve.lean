/-
Bridge theorems for `Curve._CheckImageAndDomainLength`, `Curve.__init__`, `Curve.SetImage`, `Curve.SetDomain` (generated:
`Barril/Gen/CodeCurve.lean`, regenerated from the source text of /repo on every run by `harness/pycode.py`).

* `curveCheckLength_eq_model`: = `Fixed.checkLen` (the lengths of the OUTER sequences are compared, ValueError otherwise);
* `curveInit_eq_model`, `curveSetImage_eq_model`, `curveSetDomain_eq_model`: with the attributes `_image`, `_domain` as
  explicit state and the generated length check plugged in, the three methods equal `Curve.new`, `Curve.setImage`,
  `Curve.setDomain` (the check comes BEFORE the assignment and uses the NEW array together with the other stored one),
  over which C11's `curve_lengths_agree`, `curve_setter_…`, `runSetters_…` theorems are stated.
Swapping the arguments of the check, checking against the array being replaced, assigning before checking or to the
other attribute changes the generated definitions and the proofs stop checking.  Core Lean only.
-/
import Barril.Gen.CodeCurve
import Barril.Model.Fixed

namespace Barril.Bridge.Curve
open Barril Barril.Fixed Barril.Gen.Code

theorem curveCheckLength_eq_model (image domain : ArrRef) : curveCheckLength image domain = checkLen image domain := by
  unfold curveCheckLength checkLen
  by_cases h : image.len = domain.len
  · simp [h]
  · have h' : ¬ ((image.len : Nat) : Int) = ((domain.len : Nat) : Int) := by omega
    simp [h, h']

/-- the state of a curve as the generated methods return it -/
def stateOf (c : Fixed.Curve) : ArrRef × ArrRef := (c.image, c.domain)

theorem curveInit_eq_model (i0 d0 image domain : ArrRef) :
    curveInit curveCheckLength i0 d0 image domain
      = (match Fixed.Curve.new image domain with
         | .error e => .error e
         | .ok c => .ok (stateOf c)) := by
  unfold curveInit Fixed.Curve.new
  rw [curveCheckLength_eq_model]
  cases checkLen image domain <;> rfl

theorem curveSetImage_eq_model (c : Fixed.Curve) (image : ArrRef) :
    curveSetImage curveCheckLength c.image c.domain image
      = (match c.setImage image with
         | .error e => .error e
         | .ok c' => .ok (stateOf c')) := by
  unfold curveSetImage Fixed.Curve.setImage
  rw [curveCheckLength_eq_model]
  cases checkLen image c.domain <;> rfl

theorem curveSetDomain_eq_model (c : Fixed.Curve) (domain : ArrRef) :
    curveSetDomain curveCheckLength c.image c.domain domain
      = (match c.setDomain domain with
         | .error e => .error e
         | .ok c' => .ok (stateOf c')) := by
  unfold curveSetDomain Fixed.Curve.setDomain
  rw [curveCheckLength_eq_model]
  cases checkLen c.image domain <;> rfl

end Barril.Bridge.Curve
