/-
Bridge theorems for `UnitDatabase.CheckCategoryUnit` (generated: `Barril/Gen/CodeCcu.lean`, regenerated from the source
text of /repo on every run by `harness/pycode.py`).  The memo table `_category_unit_valid` is explicit state; the answer
of the generated definition is (memo afterwards, accepted?) - `InvalidUnitError` is the answer `false`, so that the memo
written before a NEGATIVE verdict is kept, as in the code.

* `checkCategoryUnit_eq_fail`: on the session model of `Model/Fail.lean` (C05): a hit answers from the memo and leaves
  the state alone; a miss computes `Db.categoryUnitValid` (`GetCategoryInfo`, then `CheckQuantityTypeUnit` of the
  category's quantity type; any UnitsError = not valid), memoises it - positive or negative - and answers it;
* `checkCategoryUnit_eq_regcache`: the same on the session model of `Model/RegCache.lean` (C15), whose registry can
  change between calls.
Core Lean only.
-/
import Barril.Gen.CodeCcu
import Barril.Model.Fail
import Barril.Model.RegCache

namespace Barril.Bridge.Ccu
open Barril Barril.Gen.Code

abbrev Memo := List ((Sym × Sym) × Bool)

/-! ### `Model/Fail` -/

def failGet (m : Memo) (k : Sym × Sym) : Except ErrKind Bool :=
  match Fail.lookupMemo m k with
  | some v => .ok v
  | none => .error .key

def memoSet (m : Memo) (k : Sym × Sym) (v : Bool) : Memo := (k, v) :: m

def getCategoryInfoOf (db : Db) (c : Sym) : Except ErrKind CatRow :=
  match db.catByName c with
  | some ci => .ok ci
  | none => .error .units

theorem checkCategoryUnit_eq_fail (db : Db) (s : Fail.FState) (c u : Sym) :
    checkCategoryUnit failGet memoSet (getCategoryInfoOf db) db.checkQuantityTypeUnit s.memo c u
      = .ok ((Fail.checkCategoryUnit db s c u).1.memo, (Fail.checkCategoryUnit db s c u).2) := by
  unfold checkCategoryUnit Fail.checkCategoryUnit failGet memoSet getCategoryInfoOf Db.categoryUnitValid
  simp only [if_true, if_false]
  cases Fail.lookupMemo s.memo (c, u) with
  | some v => cases v <;> simp
  | none =>
    simp only []
    cases db.catByName c with
    | none => simp
    | some ci =>
      simp only []
      cases db.checkQuantityTypeUnit ci.qtype u <;> simp

/-! ### `Model/RegCache` -/

def regGet (m : Memo) (k : Sym × Sym) : Except ErrKind Bool :=
  match Reg.memoGet m k with
  | some v => .ok v
  | none => .error .key

def regCategoryInfo (r : Reg.Registry) (c : Sym) : Except ErrKind CatRow :=
  match Reg.catGet r.cats c with
  | some ci => .ok ci
  | none => .error .units

/-- `CheckQuantityTypeUnit(qt, unit)` = `GetInfo(qt, unit, fix_legacy=False)` for its exception only -/
def regCheckQTU (lg : List (Sym × Sym)) (r : Reg.Registry) (qt u : Sym) : Except ErrKind Unit :=
  match Reg.getInfo lg r qt u false false with
  | .ok _ => .ok ()
  | .error e => .error e

theorem checkCategoryUnit_eq_regcache (lg : List (Sym × Sym)) (s : Reg.CState) (c u : Sym) :
    checkCategoryUnit regGet memoSet (regCategoryInfo s.reg) (regCheckQTU lg s.reg) s.memo c u
      = .ok ((Reg.checkCategoryUnit lg s c u).1.memo, (Reg.checkCategoryUnit lg s c u).2) := by
  unfold checkCategoryUnit Reg.checkCategoryUnit regGet memoSet regCategoryInfo regCheckQTU Reg.categoryUnitValid
    Reg.quantityTypeUnitOk
  simp only [if_true, if_false]
  cases Reg.memoGet s.memo (c, u) with
  | some v => cases v <;> simp
  | none =>
    simp only []
    cases Reg.catGet s.reg.cats c with
    | none => simp
    | some ci =>
      simp only []
      cases Reg.getInfo lg s.reg ci.qtype u false false <;> simp

end Barril.Bridge.Ccu
