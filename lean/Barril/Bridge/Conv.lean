/-
Bridge theorem for `UnitDatabase.Convert` (generated: `Barril/Gen/CodeConv.lean`, regenerated from the source text of
/repo on every run by `harness/pycode.py`).

`convert_eq_model`: the generated definition - specialised to two unit strings and a plain number (the generated doc
comment records the three branch conditions specialised away) - with the table `categories_to_quantity_types`
instantiated by the model's category lookup (`KeyError` when absent), `CheckQuantityType` by the model's
`Db.hasType` and `GetInfo` by `Db.getInfo`, equals `Db.convert` (over which C01's round-trip/monotonicity theorems
and C02's are stated) for ALL databases, names, units and numbers: same-unit shortcut first (before any lookup, so an
unknown category is not an error then), category wins over quantity type, `fix_unknown=True` on both lookups,
`other.frombase(this.tobase(value))` in that order.  Swapping `this`/`other`, `tobase`/`frombase`, dropping the
shortcut or the `fix_unknown` changes the generated definition and the proof stops checking.  Core Lean only.
-/
import Barril.Gen.CodeConv
import Barril.Model.Conv

namespace Barril.Bridge.Conv
open Barril Barril.Gen.Code

/-- `self.categories_to_quantity_types[name]` -/
def catLookupOf (db : Db) (c : Sym) : Except ErrKind CatRow :=
  match db.catByName c with
  | some r => .ok r
  | none => .error .key

/-- `self.CheckQuantityType(name)`: InvalidQuantityTypeError (a UnitsError) for an unknown quantity type -/
def checkQuantityTypeOf (db : Db) (qt : Sym) : Except ErrKind Unit :=
  if db.hasType qt then .ok () else .error .units

theorem rows (this other : UnitRow) (x : Rat) :
    (match PyRt.tobaseOf this x with
     | .error e => (.error e : Except ErrKind Rat)
     | .ok b => match PyRt.frombaseOf other b with
       | .error e => .error e
       | .ok r => .ok r) = convRows this other x := by
  unfold PyRt.tobaseOf PyRt.frombaseOf convRows Mob.apply
  cases this.ok <;> cases other.ok <;> simp <;>
    (by_cases h1 : this.toBase.r + this.toBase.s * x = 0 <;> simp [h1]) <;>
    (try (by_cases h2 : other.fromBase.r + other.fromBase.s * this.toBase.eval x = 0 <;> simp [h2]))

theorem tail (db : Db) (qt u w : Sym) (x : Rat) :
    (match db.getInfo qt u true with
     | .error e => (.error e : Except ErrKind Rat)
     | .ok this => match db.getInfo qt w true with
       | .error e => .error e
       | .ok other => match PyRt.tobaseOf this x with
         | .error e => .error e
         | .ok b => match PyRt.frombaseOf other b with
           | .error e => .error e
           | .ok r => .ok r)
      = (match db.getInfo qt u true with
         | .error e => .error e
         | .ok this => match db.getInfo qt w true with
           | .error e => .error e
           | .ok other => convRows this other x) := by
  cases db.getInfo qt u true with
  | error e => rfl
  | ok this =>
    cases db.getInfo qt w true with
    | error e => rfl
    | ok other => exact rows this other x

theorem convert_eq_model (db : Db) (cq u w : Sym) (x : Rat) :
    convert (catLookupOf db) (checkQuantityTypeOf db) (fun q s f => db.getInfo q s f) cq u w x
      = db.convert cq u w x := by
  unfold convert Db.convert Db.typeOf catLookupOf checkQuantityTypeOf
  by_cases h : u = w
  · simp [h]
  · have h' : (u == w) = false := by simp [h]
    simp only [h, h', if_false]
    cases db.catByName cq with
    | some c => exact tail db c.qtype u w x
    | none =>
      by_cases ht : db.hasType cq = true
      · simp only [ht, if_true]; exact tail db cq u w x
      · simp [ht]

end Barril.Bridge.Conv
