/-
Bridge theorems for `FixedArray.CheckValues` and `FixedArray._InternalCreateWithQuantity` (generated:
`Barril/Gen/CodeFixed.lean`, regenerated from the source text of /repo on every run by `harness/pycode.py`).

`fixedCheckValues_eq_model`: the generated `CheckValues` equals the model's `Fixed.checkValuesPublic` for all objects,
containers (including objects without `__len__`) and both forms of the `dimension` keyword.

`fixedInternalCreate_eq_model`: the generated internal constructor - with `self._dimension` as explicit state
(`PyRt.Attr`: absent / None / value, initialised by the model's attribute lookup `lookupDim cls inst`), the generated
`CheckValues` plugged in for `self.CheckValues` (for ANY value of the property `self.dimension`: the constructor always
passes the dimension explicitly) and `Array._InternalCreateWithQuantity(self, quantity, values)` recorded as the pair
it stores - equals the automaton `Fixed.internalCreate` over which C11's `internalCreate_spec`, `internalCreate_ok`,
`len_eq_dim_of_runRoute` ... are stated: same error class on every failing path (duplicate `value`/`values`, the
failed assert, AttributeError of a class without `_dimension`, TypeError of `len`, the re-definition mismatch,
dimension < 2, the length check) and on success the same `_dimension`, container and quantity.  Dropping a check,
flipping `<`, swapping `value`/`values`, or reordering the checks changes the generated definition and the proof
stops checking.  Core Lean + `split_ifs`.
-/
import Barril.Gen.CodeFixed
import Barril.Model.Fixed
import Mathlib.Tactic.SplitIfs

namespace Barril.Bridge.Fixed
open Barril Barril.Fixed Barril.Gen.Code

/-- the model's three-valued attribute lookup as the translator's state type -/
def attrOf : Fixed.Attr → PyRt.Attr Int
  | .absent => .absent
  | .none => .none
  | .val n => .val n

theorem fixedCheckValues_eq_model (o : Obj) (values : ValArg) (dimension : Option Int) :
    fixedCheckValues o.st.dim values dimension = checkValuesPublic o values dimension := by
  unfold fixedCheckValues checkValuesPublic checkValues pyLen
  cases dimension <;> cases values <;> simp <;> split <;> simp_all

/-- what the final state of the generated constructor is for a model state -/
def stateOf (st : FixedArr) : PyRt.Attr Int × (Qty × ValArg) := (.val st.dim, (st.q, .sized st.vals))

theorem fixedInternalCreate_eq_model (selfDim : Int) (cls : ClsAttr) (inst : Option Int) (q : Qty)
    (values : Option ValArg) (dimension : Option Int) (value : Option ValArg) (arr0 : Qty × ValArg) :
    fixedInternalCreate (fixedCheckValues selfDim) (fun q vs => (q, vs)) (attrOf (lookupDim cls inst)) arr0 q
        values dimension value
      = (match internalCreate cls inst q values dimension value with
         | .error e => .error e
         | .ok st => .ok (stateOf st)) := by
  unfold fixedInternalCreate internalCreate mergeValue resolveDim fixedCheckValues checkValues stateOf
  cases value <;> cases values <;> simp only [] <;> try rfl
  all_goals
    rename_i vs
    cases dimension <;> cases h : lookupDim cls inst <;>
      simp only [attrOf, PyRt.Attr.get, PyRt.Attr.has] <;>
      cases vs <;> simp [pyLen, -Int.not_lt] <;> (try split_ifs) <;> simp_all [-Int.not_lt]

end Barril.Bridge.Fixed
