/-
Bridge theorems for `Scalar._GetValuesToCompare` and `Scalar.__lt__/__le__/__gt__/__ge__` (generated:
`Barril/Gen/CodeCmp.lean`, regenerated from the source text of /repo on every run by `harness/pycode.py`).

`scalarGetValuesToCompare_eq_model`: the generated definition, with the attributes read off the model's `Sc` objects
and `other.GetValue(unit)` instantiated by the model's `SimpleQ.convertScalarValue`, equals `Sc.valuesToCompare` for
ALL databases and scalars (same TypeError for different quantity types, same pair otherwise).
`scalarLt_eq_model` … `scalarGe_eq_model` / `scalar_order_eq_model`: each of the four operators written out in the
class, over the generated `_GetValuesToCompare`, equals `Sc.order db op` (over which C08's `order_iff_base`,
`order_trichotomy`, `order_unit_free` … are stated).  Flipping a comparison, swapping `v1`/`v2`, comparing units
instead of quantity types or returning `other._value` unconverted changes the generated definition and the proof
stops checking.  Core Lean only.
-/
import Barril.Gen.CodeCmp
import Barril.Model.Cmp

namespace Barril.Bridge.Cmp
open Barril Barril.Gen.Code

/-- the generated `_GetValuesToCompare` read on two model scalars -/
def genValues (db : Db) (a b : Sc) : Except ErrKind (Rat × Rat) :=
  scalarGetValuesToCompare (fun u => b.q.convertScalarValue db b.v u) a.q.qtype b.q.qtype a.v a.q.unit

theorem scalarGetValuesToCompare_eq_model (db : Db) (a b : Sc) :
    genValues db a b = a.valuesToCompare db b := by
  unfold genValues scalarGetValuesToCompare Sc.valuesToCompare
  by_cases h : a.q.qtype = b.q.qtype
  · simp [h]
    cases b.q.convertScalarValue db b.v a.q.unit <;> rfl
  · simp [h]

theorem order_of (db : Db) (op : Op) (a b : Sc)
    (f : (Sc → Except ErrKind (Rat × Rat)) → Sc → Except ErrKind Bool)
    (hf : ∀ g x, f g x = match g x with
      | .error e => .error e
      | .ok vs => .ok (op.apply vs.1 vs.2)) :
    f (genValues db a) b = Sc.order db op a b := by
  rw [hf, scalarGetValuesToCompare_eq_model]
  unfold Sc.order
  cases a.valuesToCompare db b with
  | error e => rfl
  | ok vs => cases vs; rfl

theorem scalarLt_eq_model (db : Db) (a b : Sc) : scalarLt (genValues db a) b = Sc.order db .lt a b :=
  order_of db .lt a b scalarLt (fun g x => by unfold scalarLt; cases g x <;> rfl)

theorem scalarLe_eq_model (db : Db) (a b : Sc) : scalarLe (genValues db a) b = Sc.order db .le a b :=
  order_of db .le a b scalarLe (fun g x => by unfold scalarLe; cases g x <;> rfl)

theorem scalarGt_eq_model (db : Db) (a b : Sc) : scalarGt (genValues db a) b = Sc.order db .gt a b :=
  order_of db .gt a b scalarGt (fun g x => by unfold scalarGt; cases g x <;> rfl)

theorem scalarGe_eq_model (db : Db) (a b : Sc) : scalarGe (genValues db a) b = Sc.order db .ge a b :=
  order_of db .ge a b scalarGe (fun g x => by unfold scalarGe; cases g x <;> rfl)

/-- which generated operator an `Op` is -/
def genOrder (op : Op) : (Sc → Except ErrKind (Rat × Rat)) → Sc → Except ErrKind Bool :=
  match op with
  | .lt => scalarLt
  | .le => scalarLe
  | .gt => scalarGt
  | .ge => scalarGe

theorem scalar_order_eq_model (db : Db) (op : Op) (a b : Sc) :
    genOrder op (genValues db a) b = Sc.order db op a b := by
  cases op
  · exact scalarLt_eq_model db a b
  · exact scalarLe_eq_model db a b
  · exact scalarGt_eq_model db a b
  · exact scalarGe_eq_model db a b

end Barril.Bridge.Cmp
