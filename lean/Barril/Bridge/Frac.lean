/-
Bridge theorems for `Fraction.__old_cmp__` (generated: `Barril/Gen/CodeFrac.lean`, regenerated from the source text of
/repo on every run by `harness/pycode.py`), the comparison behind `Fraction.__eq__`, `__lt__` and (through
`functools.total_ordering`) every other ordering operator.

`oldCmp_eq_model`: the generated definition is what the model's `Frac.oldCmp` computes on a Fraction operand.
`oldCmp_sign`: for ANY integers with positive denominators it returns -1 / 0 / 1 exactly when the first rational is
smaller than / equal to / greater than the second one in exact arithmetic (C18: "comparison agrees with exact rational
arithmetic"), proved about the code's current text.
-/
import Barril.Gen.CodeFrac
import Barril.Model.Frac
import Mathlib.Algebra.Order.Field.Rat
import Mathlib.Tactic.Linarith
import Mathlib.Tactic.FieldSimp

namespace Barril.Bridge.Frac
open Barril Barril.Frac Barril.Gen.Code

theorem oldCmp_eq_model (s o : Frac) :
    Frac.oldCmp s (.frac o) = .ok (fractionOldCmp s.numerator s.denominator o.numerator o.denominator) := by
  unfold Frac.oldCmp fractionOldCmp
  simp [coerce]

theorem oldCmp_sign (n1 d1 n2 d2 : Int) (h1 : 0 < d1) (h2 : 0 < d2) :
    (fractionOldCmp n1 d1 n2 d2 = -1 ↔ (n1 : Rat) / d1 < (n2 : Rat) / d2) ∧
    (fractionOldCmp n1 d1 n2 d2 = 0 ↔ (n1 : Rat) / d1 = (n2 : Rat) / d2) ∧
    (fractionOldCmp n1 d1 n2 d2 = 1 ↔ (n1 : Rat) / d1 > (n2 : Rat) / d2) := by
  have hd1 : (0 : Rat) < d1 := by exact_mod_cast h1
  have hd2 : (0 : Rat) < d2 := by exact_mod_cast h2
  have hlt : (n1 : Rat) / d1 < (n2 : Rat) / d2 ↔ n1 * d2 - n2 * d1 < 0 := by
    rw [div_lt_div_iff₀ hd1 hd2]
    constructor
    · intro h; have : (n1 * d2 : Int) < n2 * d1 := by exact_mod_cast h
      omega
    · intro h; have : (n1 * d2 : Int) < n2 * d1 := by omega
      exact_mod_cast this
  have hgt : (n1 : Rat) / d1 > (n2 : Rat) / d2 ↔ n1 * d2 - n2 * d1 > 0 := by
    rw [gt_iff_lt, div_lt_div_iff₀ hd2 hd1]
    constructor
    · intro h; have : (n2 * d1 : Int) < n1 * d2 := by exact_mod_cast h
      omega
    · intro h; have : (n2 * d1 : Int) < n1 * d2 := by omega
      exact_mod_cast this
  have heq : (n1 : Rat) / d1 = (n2 : Rat) / d2 ↔ n1 * d2 - n2 * d1 = 0 := by
    rw [div_eq_div_iff hd1.ne' hd2.ne']
    constructor
    · intro h; have : (n1 * d2 : Int) = n2 * d1 := by exact_mod_cast h
      omega
    · intro h; have : (n1 * d2 : Int) = n2 * d1 := by omega
      exact_mod_cast this
  rw [hlt, hgt, heq]
  unfold fractionOldCmp
  simp only []
  generalize n1 * d2 - n2 * d1 = t
  refine ⟨?_, ?_, ?_⟩ <;> (split <;> [skip; split]) <;> constructor <;> intro h <;> omega

end Barril.Bridge.Frac
