/-
Bridge theorems for `UnitDatabase.AddUnit` (generated: `Barril/Gen/CodeReg.lean`, regenerated from the source text of
/repo on every run by `harness/pycode.py`).  The registry is explicit state and an exception carries the registry as it
is at the `raise` (the translator's `err_state` mode): what a rejected call leaves behind is part of the statement.

* `addUnit_eq_addInfo`: for ANY `UnitInfo` construction `mk`, the generated body equals the model's `Reg.addInfo`:
  `assert quantity_type is not None`, TypeError for a non-str quantity type / unit, the construction (which can fail)
  BEFORE any write, RuntimeError for a symbol already in `unit_to_unit_info` (nothing written), the index write, the
  `setdefault`, the second duplicate check AFTER both (a rejection there leaves them behind), the append to the list
  stored under the quantity type;
* `addUnit_eq_model`: with `UnitInfo(...)` = `Reg.mkInfo fb tb dc name` this is `Reg.addUnit` (the `step` case of C14).
* `addUnitBase_eq_model`: the generated `AddUnitBase`, over the generated `AddUnit` with the identity `UnitInfo`
  (`Reg.baseInfo`), equals `Reg.addUnitBase`: a rejected `AddUnit` is passed on with what it left; otherwise the info just
  appended to the list stored under the quantity type is moved to its front (`infos[-1]`, `del infos[-1]`,
  `infos.insert(0, base)` as edits of the stored list).
Core Lean only.
-/
import Barril.Gen.CodeReg
import Barril.Model.Reg

namespace Barril.Bridge.Reg
open Barril Barril.Reg

/-- the generated result (error with the registry at that point / final registry) as the model's pair -/
def toPair : Except (ErrKind × Registry) Registry → Registry × Except ErrKind Unit
  | .error (e, r) => (r, .error e)
  | .ok r => (r, .ok ())

theorem addUnit_eq_addInfo (mk : Sym → Sym → Except ErrKind UnitRow) (r : Registry) (qt : SArg) (name : Sym) (unit : SArg) :
    toPair (Gen.Code.addUnit mk r qt name unit) = addInfo r qt unit mk := by
  obtain ⟨types, index, cats⟩ := r
  unfold Gen.Code.addUnit addInfo
  cases qt with
  | none => simp [Gen.Code.sargIsNone, toPair]
  | bad => simp [Gen.Code.sargIsNone, Gen.Code.sargIsStr, toPair]
  | str q =>
    cases unit with
    | none => simp [Gen.Code.sargIsNone, Gen.Code.sargIsStr, toPair]
    | bad => simp [Gen.Code.sargIsNone, Gen.Code.sargIsStr, toPair]
    | str u =>
      simp only [Gen.Code.sargIsNone, Gen.Code.sargIsStr, Gen.Code.sargStr, Bool.false_eq_true, if_false,
        Bool.true_eq_false]
      cases mk q u with
      | error e => simp [toPair]
      | ok info =>
        simp only []
        by_cases hs : (ixGet index u).isSome = true
        · obtain ⟨w, hw⟩ := Option.isSome_iff_exists.mp hs
          simp [hw, toPair]
        · have hn : ixGet index u = none := by
            cases h : ixGet index u <;> simp_all
          by_cases hany : ((tlGet (tlSetDefault types q) q).getD []).any (fun x => x.sym == u) = true <;>
            simp [hn, hany, toPair]

theorem addUnit_eq_model (r : Registry) (qt : SArg) (name : Sym) (unit : SArg) (fb tb : Formula) (dc : Sym) :
    toPair (Gen.Code.addUnit (mkInfo fb tb dc name) r qt name unit) = Reg.addUnit r qt name unit fb tb dc := by
  rw [addUnit_eq_addInfo]; rfl

/-! ### `AddUnitBase` -/

theorem tlGet_setDefault (ts : List (Sym × List UnitRow)) (q : Sym) :
    tlGet (tlSetDefault ts q) q = some ((tlGet ts q).getD []) := by
  unfold tlSetDefault
  cases h : tlGet ts q with
  | some l => simp [h]
  | none =>
    simp only [Option.getD_none]
    induction ts with
    | nil => simp [tlGet]
    | cons p ts ih =>
      obtain ⟨k, l⟩ := p
      simp only [tlGet] at h ⊢
      by_cases hk : k = q
      · simp [hk] at h
      · simp only [hk, if_false] at h ⊢
        simpa [tlGet, hk] using ih h

theorem tlGet_modify (f : List UnitRow → List UnitRow) (ts : List (Sym × List UnitRow)) (q : Sym) :
    tlGet (tlModify f ts q) q = (tlGet ts q).map f := by
  induction ts with
  | nil => rfl
  | cons p ts ih =>
    obtain ⟨k, l⟩ := p
    by_cases hk : k = q <;> simp [tlModify, tlGet, hk, ih]

theorem tlModify_modify (f g : List UnitRow → List UnitRow) (ts : List (Sym × List UnitRow)) (q : Sym) :
    tlModify g (tlModify f ts q) q = tlModify (fun l => g (f l)) ts q := by
  induction ts with
  | nil => rfl
  | cons p ts ih =>
    obtain ⟨k, l⟩ := p
    by_cases hk : k = q <;> simp [tlModify, hk, ih]

theorem tlModify_congr (f g : List UnitRow → List UnitRow) (ts : List (Sym × List UnitRow)) (q : Sym)
    (h : ∀ l, tlGet ts q = some l → f l = g l) : tlModify f ts q = tlModify g ts q := by
  induction ts with
  | nil => rfl
  | cons p ts ih =>
    obtain ⟨k, l⟩ := p
    by_cases hk : k = q
    · simp [tlModify, hk, h l (by simp [tlGet, hk])]
    · simp only [tlModify, hk, if_false]
      rw [ih (fun l' hl' => h l' (by simpa [tlGet, hk] using hl'))]

/-- after an accepted `AddUnit` the list stored under the quantity type ends with the new info -/
theorem addInfo_ok (mk : Sym → Sym → Except ErrKind UnitRow) (r r1 : Registry) (q : Sym) (unit : SArg)
    (h : addInfo r (.str q) unit mk = (r1, .ok ())) : ∃ l0 info, tlGet r1.types q = some (l0 ++ [info]) := by
  unfold addInfo at h
  cases unit with
  | none => simp at h
  | bad => simp at h
  | str u =>
    simp only [] at h
    cases hm : mk q u with
    | error e => simp [hm] at h
    | ok info =>
      simp only [hm] at h
      cases hix : ixGet r.index u with
      | some w => simp [hix] at h
      | none =>
        simp only [hix] at h
        by_cases hany : ((tlGet (tlSetDefault r.types q) q).getD []).any (fun x => x.sym == u) = true
        · simp [hany] at h
        · simp only [hany, if_false, Bool.false_eq_true] at h
          have hr : r1.types = tlModify (· ++ [info]) (tlSetDefault r.types q) q := by
            have := congrArg (fun p => p.1.types) h
            simpa using this.symm
          exact ⟨(tlGet r.types q).getD [], info, by rw [hr, tlGet_modify, tlGet_setDefault]; rfl⟩

theorem last_facts (l0 : List UnitRow) (x : UnitRow) :
    PyRt.pyIndex (l0 ++ [x]) (-1) = .ok x ∧ PyRt.pyInsert (PyRt.pyDel (l0 ++ [x]) (-1)) 0 x = moveLastToFront (l0 ++ [x]) := by
  have hn : PyRt.normIndex (l0.length + 1) (-1) = some l0.length := by
    simp [PyRt.normIndex]
  constructor
  · simp [PyRt.pyIndex, hn]
  · have he : ∀ (l : List UnitRow), (l ++ [x]).eraseIdx l.length = l := by
      intro l
      induction l with
      | nil => rfl
      | cons a l ih => simp [ih]
    simp [PyRt.pyDel, hn, PyRt.pyInsert, moveLastToFront, he]

theorem addUnitBase_eq_model (r : Registry) (qt : SArg) (name : Sym) (unit : SArg) :
    toPair (Gen.Code.addUnitBase (fun r a b c => Gen.Code.addUnit (baseInfo b) r a b c) r qt name unit)
      = Reg.addUnitBase r qt name unit := by
  have h := addUnit_eq_addInfo (baseInfo name) r qt name unit
  unfold Gen.Code.addUnitBase Reg.addUnitBase
  cases hg : Gen.Code.addUnit (baseInfo name) r qt name unit with
  | error p =>
    obtain ⟨e, r'⟩ := p
    rw [hg] at h
    simp only [toPair] at h
    simp [hg, ← h, toPair]
  | ok r1 =>
    rw [hg] at h
    simp only [toPair] at h
    rw [← h]
    cases qt with
    | none => simp [addInfo] at h
    | bad => simp [addInfo] at h
    | str q =>
      obtain ⟨l0, info, hl⟩ := addInfo_ok _ _ _ _ _ h.symm
      have hf := last_facts l0 info
      simp only [hg, Gen.Code.sargStr, Gen.Code.tlGetE, hl, hf.1, toPair, tlModify_modify]
      congr 2
      apply tlModify_congr
      intro l hl'
      rw [hl] at hl'
      cases hl'
      exact hf.2

end Barril.Bridge.Reg
