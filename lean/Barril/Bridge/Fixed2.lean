/-
Bridge theorem for `FixedArray.IndexAsScalar` (generated: `Barril/Gen/CodeFixed2.lean`, regenerated from the source text
of /repo on every run by `harness/pycode.py`).

`indexAsScalar_eq_model`: with `self.GetValues(unit=…)` instantiated by the model's `Fixed.getValues` on the object's
state, the generated definition equals `Fixed.indexAsScalar` (over which C11's `indexAsScalar_…` theorems are stated):
the given quantity or else the array's own one, the values converted to THAT quantity's unit, Python indexing
(negative from the end, IndexError outside), the Scalar built on that quantity.

`changingIndex_eq_model`: the generated `ChangingIndex` - `value` is the model's three-way `CIValue`; `Scalar.CreateCopy(*t)`,
`Scalar.GetValue`, `self.GetValues` and the FixedArray constructor instantiated by the model's functions - equals
`Fixed.changingIndex` for every object, index, kind of value and both settings of `use_value_unit`: which Scalar is
used, whose quantity the new array gets, the values read in THAT unit, the element replaced (IndexError outside), the
result rebuilt by `FixedArray(dimension, quantity, tuple(values))`.  Core Lean only.
-/
import Barril.Gen.CodeFixed2
import Barril.Model.Fixed

namespace Barril.Bridge.Fixed2
open Barril Barril.Fixed

theorem indexAsScalar_eq_model (db : Db) (o : Obj) (index : Int) (quantity : Option Qty) :
    Gen.Code.indexAsScalar (fun u => getValues db o.st u) o.st.q index quantity
      = Fixed.indexAsScalar db o index quantity := by
  unfold Gen.Code.indexAsScalar Fixed.indexAsScalar
  cases quantity with
  | none =>
    simp only [Option.getD]
    cases getValues db o.st (some o.st.q.unit) with
    | error e => rfl
    | ok vals => simp only []; cases pyGet vals.xs index <;> rfl
  | some q =>
    simp only [Option.getD]
    cases getValues db o.st (some q.unit) with
    | error e => rfl
    | ok vals => simp only []; cases pyGet vals.xs index <;> rfl

theorem changingIndex_eq_model (db : Db) (o : Obj) (index : Int) (value : CIValue) (useValueUnit : Bool) :
    Gen.Code.changingIndex (fun u => getValues db o.st u) (fun s t => Scalar.createCopy db s t.1 t.2.1 t.2.2)
        (fun s u => s.getValue db u)
        (fun d q ys => init db .none d (.catFirst (.qty q) (some (.sized ⟨.tuple, ys⟩)) none)) o.st.q o.st.dim
        index value useValueUnit
      = Fixed.changingIndex db o index value useValueUnit := by
  unfold Gen.Code.changingIndex Fixed.changingIndex ciScalar
  cases value with
  | num x =>
    cases useValueUnit <;>
      simp only [Gen.Code.ciIsTuple, Gen.Code.ciIsScalar, Gen.Code.ciNum, Bool.false_eq_true, if_false, if_true] <;>
      (repeat' (first | rfl | split)) <;> simp_all
  | scalar s =>
    cases useValueUnit
    · simp only [Gen.Code.ciIsTuple, Gen.Code.ciIsScalar, Gen.Code.ciScalarOf, Bool.false_eq_true, if_false, if_true]
      (repeat' (first | rfl | split)) <;> simp_all
    · simp only [Gen.Code.ciIsTuple, Gen.Code.ciIsScalar, Gen.Code.ciScalarOf, Bool.false_eq_true, if_false, if_true]
      (repeat' (first | rfl | split)) <;> simp_all
  | tup v u c =>
    simp only [Gen.Code.ciIsTuple, Gen.Code.ciTuple, if_true, getValues]
    cases pyGet o.st.vals.xs index with
    | error e => rfl
    | ok x =>
      simp only []
      cases Scalar.createCopy db ⟨o.st.q, x⟩ v u c with
      | error e => rfl
      | ok sc =>
        cases useValueUnit
        · simp only [Bool.false_eq_true, if_false]
          (repeat' (first | rfl | split)) <;> simp_all
        · simp only [if_true]
          (repeat' (first | rfl | split)) <;> simp_all

end Barril.Bridge.Fixed2
