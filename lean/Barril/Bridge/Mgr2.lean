/-
Bridge theorems for `UnitSystemManager.ConvertToCurrent` and `UnitSystemManager.SetCurrent` (generated:
`Barril/Gen/CodeMgr2.lean`, regenerated from the source text of /repo on every run by `harness/pycode.py`).

* `convertToCurrent_eq_model`: with `self.current` instantiated by the address `GetCurrent()` returns (the current or the
  null system), `GetDefaultUnit` by the model's lookup in that object and `unit_database.Convert` by `Db.convert`, the
  generated definition equals `Mgr.convertToCurrent`: no default unit → the input pair unchanged, otherwise the value
  converted to the default unit together with that unit;
* `setCurrent_eq_model`: the generated `SetCurrent`, on the state (manager × callbacks fired so far), equals the model's
  `setCurrent`: the listener leaves the OLD current system before `_current` is assigned, joins the new one, `on_current`
  fires with the new system (address 0 = the null system for `None`), then `UpdateObjects()`.
* `setTemplate_eq_model`: the generated `SetTemplateUnitSystemByUnitsMapping` (loop over the registered unit systems
  collecting the ids of those that do not cover the template's categories; objects are taken by value) equals the
  model's `setTemplate`: `InvalidTemplateError` (a RuntimeError) when any registered system is not covered, otherwise the
  template object `UnitSystem("template", "Unit system template", units_mapping, True)` is stored.
C17's theorems about `step`, `setCurrent`, `convertToCurrent` (and C02's conversion through the manager) are stated
over these model functions.  Core Lean only.
-/
import Barril.Gen.CodeMgr2
import Barril.Model.Mgr

namespace Barril.Bridge.Mgr2
open Barril Barril.Mgr

/-- `current.GetDefaultUnit(category)` for the object at an address -/
def defaultUnitAt (m : Mgr.Mgr) (a : Nat) (c : Sym) : Option Sym :=
  match m.heap[a]? with
  | some o => o.getDefaultUnit c
  | none => none

theorem convertToCurrent_eq_model (db : Db) (m : Mgr.Mgr) (c u : Sym) (x : Rat) :
    Gen.Code.convertToCurrent db.convert m.currentAddr (defaultUnitAt m) c u x = Mgr.convertToCurrent db m c u x := by
  unfold Gen.Code.convertToCurrent Mgr.convertToCurrent
  show (match defaultUnitAt m m.currentAddr c with | some t => _ | none => _) = _
  have h : defaultUnitAt m m.currentAddr c = m.currentDefault c := rfl
  rw [h]
  cases m.currentDefault c with
  | none => rfl
  | some t => simp only []; cases db.convert c u t x <;> rfl

abbrev St := Mgr.Mgr × List Event

def current (s : St) : Option Nat := s.1.cur
def setCur (s : St) (a : Option Nat) : St := ({ s.1 with cur := a }, s.2)
def unregister (s : St) (a : Nat) : St := ({ s.1 with heap := setListening s.1.heap a false }, s.2)
def register (s : St) (a : Nat) : St := ({ s.1 with heap := setListening s.1.heap a true }, s.2)
def onCurrent (s : St) (a : Nat) : St := (s.1, s.2 ++ [.current a])
def updateObjectsSt (s : St) : St := (updateObjects s.1, s.2)

theorem setCurrent_eq_model (m : Mgr.Mgr) (a : Option Nat) :
    Gen.Code.setCurrent current setCur unregister register onCurrent 0 updateObjectsSt (m, []) a
      = .ok ((Mgr.setCurrent m a).1, (Mgr.setCurrent m a).2) := by
  obtain ⟨heap, reg, cur, tmpl, objs, oc, ou⟩ := m
  unfold Gen.Code.setCurrent
  cases cur <;> cases a <;>
    simp [current, setCur, unregister, register, onCurrent, updateObjectsSt, Mgr.setCurrent, unregisterCurrent,
      updateObjects, Mgr.curSys]

/-! ### `SetTemplateUnitSystemByUnitsMapping` -/

/-- `list(self._unit_systems.values())`: the registered objects -/
def systems (s : St) : List USys := s.1.reg.filterMap (fun p => s.1.heap[p.2]?)
def setTmpl (s : St) (t : USys) : St := ({ s.1 with tmpl := some t }, s.2)

/-- the id a system contributes to `invalid_unit_systems` -/
def invalidId (req : List Sym) (o : USys) : Option (Option Sym) := if covers o.mapping req then none else some o.id

theorem setTemplate_loop_eq (s : St) (req : List Sym) (l : List USys) :
    ∀ acc, Gen.Code.setTemplateByUnitsMapping_loop1 systems (fun o => o.mapping) (fun o => o.id) covers
        (fun id cap mp ro => USys.new (some id) cap mp ro) setTmpl s req acc l
      = .ok (acc ++ l.filterMap (invalidId req), []) := by
  induction l with
  | nil => intro acc; simp [Gen.Code.setTemplateByUnitsMapping_loop1]
  | cons o l ih =>
    intro acc
    unfold Gen.Code.setTemplateByUnitsMapping_loop1
    cases h : covers o.mapping req <;> simp [h, ih, invalidId]

theorem invalidSystems_eq (m : Mgr.Mgr) (req : List Sym) :
    invalidSystems m req = (systems (m, [])).filterMap (invalidId req) := by
  unfold invalidSystems systems
  rw [List.filterMap_filterMap]
  congr 1
  funext p
  cases m.heap[p.2]? <;> rfl

theorem setTemplate_eq_model (m : Mgr.Mgr) (mp : Dict) :
    (match Gen.Code.setTemplateByUnitsMapping systems (fun o => o.mapping) (fun o => o.id) covers
        (fun id cap mp ro => USys.new (some id) cap mp ro) setTmpl (m, []) mp with
     | .error e => Res.reject m e
     | .ok s => ⟨s.1, .ok .none, s.2⟩) = Mgr.setTemplate m mp := by
  unfold Gen.Code.setTemplateByUnitsMapping Mgr.setTemplate
  simp only [setTemplate_loop_eq, invalidSystems_eq, List.nil_append]
  cases h : (systems (m, [])).filterMap (invalidId (dkeys mp)) <;> simp [setTmpl, Res.reject]

end Barril.Bridge.Mgr2
