/-
Bridge theorem for `Scalar._DoOperation` (generated: `Barril/Gen/CodeOps.lean`, regenerated from the source text of
/repo on every run by `harness/pycode.py`).

`scalarDoOperation_eq_model`: with `getattr(unit_database, operation)(q1, q2, v1, v2)` instantiated by the model's
`opFunc` followed by `applyOp`, and the callback by `vop op`, the generated dispatch equals `Ops.scalarDoOp` for ALL
operands (numbers, numpy arrays, scalars, arrays, foreign objects) and operations: a number on the left is combined
directly unless the operation is a division; a number on the right is combined directly; number / scalar goes through
the empty quantity; otherwise the two quantities are combined with `self._value` as the first value; a foreign operand
fails with AttributeError at `GetQuantity()` / `.value` in the order the arguments are evaluated.  C09's theorems are
stated over `scalarDoOp` (through `binop`).  Core Lean only.
-/
import Barril.Gen.CodeOps
import Barril.Model.Ops

namespace Barril.Bridge.Ops
open Barril Barril.Ops

/-- `getattr(unit_database, operation)(q1, q2, v1, v2)` -/
def operationFuncOf (env : Env) (op : Op) (q1 q2 : Quantity) (x y : Rat) : Except ErrKind (Quantity × Rat) :=
  match opFunc env op q1 q2 with
  | .error e => .error e
  | .ok (qr, t1, t2) =>
    match applyOp op t1 t2 x y with
    | .error e => .error e
    | .ok r => .ok (qr, r)

theorem scalarDoOperation_eq_model (env : Env) (q : Quantity) (v : Rat) (p1 p2 : Operand) (op : Op) :
    Gen.Code.scalarDoOperation (operationFuncOf env op) (vop op) q v p1 p2 op = scalarDoOp env q v p1 p2 op := by
  unfold Gen.Code.scalarDoOperation scalarDoOp operationFuncOf Gen.Code.operandNumber
  cases h1 : isNumber p1 <;> cases hd : isDivision op <;> cases h2 : isNumber p2 <;>
    simp <;>
    (repeat' (first | rfl | split)) <;> simp_all <;> (try subst_vars) <;> (try simp_all)

end Barril.Bridge.Ops
