/-
Bridge theorem for `Scalar._DoOperation` (generated: `Barril/Gen/CodeOps.lean`, regenerated from the source text of
/repo on every run by `harness/pycode.py`).

`scalarDoOperation_eq_model`: with `getattr(unit_database, operation)(q1, q2, v1, v2)` instantiated by the model's
`opFunc` followed by `applyOp`, and the callback by `vop op`, the generated dispatch equals `Ops.scalarDoOp` for ALL
operands (numbers, numpy arrays, scalars, arrays, foreign objects) and operations: a number on the left is combined
directly unless the operation is a division; a number on the right is combined directly; number / scalar goes through
the empty quantity; otherwise the two quantities are combined with `self._value` as the first value; a foreign operand
fails with AttributeError at `GetQuantity()` / `.value` in the order the arguments are evaluated.  C09's theorems are
stated over `scalarDoOp` (through `binop`).

`arrayDoOperation_eq_model`: the generated `Array._DoOperation` (dispatch on number / ndarray / Array operands, the
length check, the numpy branch as one call on whole containers, the element loop `arrayDoOperation_loop1` carrying
`q` and `result`, the no-values fallback `operation_func(q1, q2, 1.0, 1.0)`, tuple or list result) equals `Ops.arrayDoOp`
(over which C10's theorems are stated through `binop`), with `operation_func` = `opFunc` then `applyOp` per element
and = `opFunc`, numpy broadcasting, `applyOp` per pair on whole containers.  Core Lean only.
-/
import Barril.Gen.CodeOps
import Barril.Model.Ops

namespace Barril.Bridge.Ops
open Barril Barril.Ops

/-- `getattr(unit_database, operation)(q1, q2, v1, v2)` -/
def operationFuncOf (env : Env) (op : Op) (q1 q2 : Quantity) (x y : Rat) : Except ErrKind (Quantity × Rat) :=
  match opFunc env op q1 q2 with
  | .error e => .error e
  | .ok (qr, t1, t2) =>
    match applyOp op t1 t2 x y with
    | .error e => .error e
    | .ok r => .ok (qr, r)

theorem scalarDoOperation_eq_model (env : Env) (q : Quantity) (v : Rat) (p1 p2 : Operand) (op : Op) :
    Gen.Code.scalarDoOperation (operationFuncOf env op) (vop op) q v p1 p2 op = scalarDoOp env q v p1 p2 op := by
  unfold Gen.Code.scalarDoOperation scalarDoOp operationFuncOf Gen.Code.operandNumber
  cases h1 : isNumber p1 <;> cases hd : isDivision op <;> cases h2 : isNumber p2 <;>
    simp <;>
    (repeat' (first | rfl | split)) <;> simp_all <;> (try subst_vars) <;> (try simp_all)

/-! ### `Array._DoOperation` -/

/-- `getattr(unit_database, operation)(q1, q2, array1, array2)`: the vectorised call -/
def operationFuncVecOf (env : Env) (op : Op) (q1 q2 : Quantity) (r1 r2 : Raw) : Except ErrKind (Quantity × List Rat) :=
  match opFunc env op q1 q2 with
  | .error e => .error e
  | .ok (q, t1, t2) =>
    match broadcastPairs r1 r2 with
    | .error e => .error e
    | .ok ps =>
      match mapE (fun p => applyOp op t1 t2 p.1 p.2) ps with
      | .error e => .error e
      | .ok vs => .ok (q, vs)

theorem arrayLoop_eq (env : Env) (op : Op) (vec : Quantity → Quantity → Raw → Raw → Except ErrKind (Quantity × List Rat))
    (q1 q2 : Quantity) (pairs : List (Rat × Rat)) :
    ∀ (qo : Option Quantity) (acc : List Rat),
      Gen.Code.arrayDoOperation_loop1 (operationFuncOf env op) vec () q1 q2 qo acc pairs
        = (match opFunc env op q1 q2 with
           | .error e => (match pairs with | [] => .ok ((qo, acc), []) | _ :: _ => .error e)
           | .ok (q, t1, t2) =>
             match mapE (fun p => applyOp op t1 t2 p.1 p.2) pairs with
             | .error e => .error e
             | .ok vs => .ok ((match pairs with | [] => qo | _ :: _ => some q, acc ++ vs), [])) := by
  induction pairs with
  | nil =>
    intro qo acc
    unfold Gen.Code.arrayDoOperation_loop1
    cases opFunc env op q1 q2 with
    | error e => rfl
    | ok r => obtain ⟨q, t1, t2⟩ := r; simp [mapE]
  | cons p ps ih =>
    intro qo acc
    unfold Gen.Code.arrayDoOperation_loop1
    cases hof : opFunc env op q1 q2 with
    | error e => simp [operationFuncOf, hof]
    | ok r =>
      obtain ⟨q, t1, t2⟩ := r
      have hop : operationFuncOf env op q1 q2 p.1 p.2
          = (match applyOp op t1 t2 p.1 p.2 with
             | .error e => .error e
             | .ok r => .ok (q, r)) := by simp [operationFuncOf, hof]
      simp only [hop, mapE]
      cases applyOp op t1 t2 p.1 p.2 with
      | error e => rfl
      | ok v =>
        simp only [ih, hof]
        cases hm : mapE (fun p => applyOp op t1 t2 p.1 p.2) ps with
        | error e => rfl
        | ok vs => cases ps <;> simp

/-- the part of the generated function after the operands were sorted out = `arrayCompute` -/
theorem arrayTail_eq (env : Env) (op : Op) (q1 q2 : Quantity) (r1 r2 : Raw) (X : Except ErrKind Out)
    (hX : X = (if genIsNumpy r1 r2 = true then
        (match operationFuncVecOf env op q1 q2 r1 r2 with
         | .error e => .error e
         | .ok r => .ok (Out.array r.1 Kind.nd r.2))
      else
        (match Gen.Code.arrayDoOperation_loop1 (operationFuncOf env op) (operationFuncVecOf env op) () q1 q2 none []
            (genPairs r1 r2) with
         | .error e => .error e
         | .ok l =>
           match l.1.1 with
           | some q => if genIsTuple r1 r2 = true then .ok (Out.array q Kind.tuple l.1.2) else .ok (Out.array q Kind.list l.1.2)
           | none =>
             match operationFuncOf env op q1 q2 1 1 with
             | .error e => .error e
             | .ok r => if genIsTuple r1 r2 = true then .ok (Out.array r.1 Kind.tuple l.1.2)
                        else .ok (Out.array r.1 Kind.list l.1.2)))) :
    X = arrayCompute env op q1 q2 r1 r2 := by
  subst hX
  unfold arrayCompute operationFuncVecOf
  simp only [arrayLoop_eq]
  cases hof : opFunc env op q1 q2 with
  | error e => cases genIsNumpy r1 r2 <;> cases genPairs r1 r2 <;> simp [operationFuncOf, hof]
  | ok r =>
    obtain ⟨q, t1, t2⟩ := r
    have hop : operationFuncOf env op q1 q2 1 1
        = (match applyOp op t1 t2 1 1 with
           | .error e => .error e
           | .ok r => .ok (q, r)) := by simp [operationFuncOf, hof]
    simp only [hop]
    cases hn : genIsNumpy r1 r2
    · simp only [Bool.false_eq_true, if_false]
      cases hp : genPairs r1 r2 with
      | nil =>
        simp only [mapE, List.isEmpty_nil, if_true, List.append_nil]
        cases applyOp op t1 t2 1 1 <;> cases genIsTuple r1 r2 <;> simp
      | cons p ps =>
        cases mapE (fun p => applyOp op t1 t2 p.1 p.2) (p :: ps) <;> cases genIsTuple r1 r2 <;> simp
    · simp only [if_true]
      cases broadcastPairs r1 r2 with
      | error e => rfl
      | ok ps => simp only []; cases mapE (fun p => applyOp op t1 t2 p.1 p.2) ps <;> rfl

theorem arrayDoOperation_eq_model (env : Env) (p1 p2 : Operand) (op : Op) :
    Gen.Code.arrayDoOperation (operationFuncOf env op) (operationFuncVecOf env op) p1 p2 op = arrayDoOp env p1 p2 op := by
  unfold Gen.Code.arrayDoOperation arrayDoOp Gen.Code.operandRaw
  cases h1 : rawOf p1 with
  | some r1 =>
    simp only [Option.isSome_some, if_true]
    cases valuesOf p2 with
    | error e => rfl
    | ok r2 =>
      simp only []
      cases quantityOf p2 with
      | error e => rfl
      | ok q2 => exact arrayTail_eq env op emptyQ q2 r1 r2 _ rfl
  | none =>
    simp only [Option.isSome_none, Bool.false_eq_true, if_false]
    cases h2 : rawOf p2 with
    | some r2 =>
      simp only [Option.isSome_some, if_true]
      cases valuesOf p1 with
      | error e => rfl
      | ok r1 =>
        simp only []
        cases quantityOf p1 with
        | error e => rfl
        | ok q1 => exact arrayTail_eq env op q1 emptyQ r1 r2 _ rfl
    | none =>
      simp only [Option.isSome_none, Bool.false_eq_true, if_false]
      cases valuesOf p1 with
      | error e => rfl
      | ok r1 =>
        simp only []
        cases rawLen r1 with
        | error e => rfl
        | ok n1 =>
          simp only []
          cases valuesOf p2 with
          | error e => rfl
          | ok r2 =>
            simp only []
            cases rawLen r2 with
            | error e => rfl
            | ok n2 =>
              simp only []
              by_cases hn : n1 = n2
              · simp only [hn, ne_eq, not_true_eq_false, if_false, bne_self_eq_false, Bool.false_eq_true]
                cases quantityOf p1 with
                | error e => rfl
                | ok q1 =>
                  simp only []
                  cases quantityOf p2 with
                  | error e => rfl
                  | ok q2 => exact arrayTail_eq env op q1 q2 r1 r2 _ rfl
              · have hb : (n1 != n2) = true := by simpa using hn
                simp [hn, hb]

end Barril.Bridge.Ops
