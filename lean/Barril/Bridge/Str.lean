/-
Bridge theorems for `Quantity._MakeStr` and `Quantity._CreateUnitsWithJoinedExponentsString` (generated:
`Barril/Gen/CodeStr.lean`, regenerated from the source text of /repo on every run by `harness/pycode.py`; each of the
two `for` loops of each function becomes a structurally recursive helper definition carrying `ret` / `added_div`).

* `makeStr_eq_model`: the generated `_MakeStr` returns exactly `Str.makeStr items` (the model's `makeStrNum` then
  `makeStrDen`) for ALL lists of (text, exponent): separators " * ", " / ", "1 / ", the `(x) ** n` form for |n| ≠ 1,
  zero exponents skipped, numerator factors before denominator factors;
* `createUnits_eq_model`: the generated `_CreateUnitsWithJoinedExponentsString` returns exactly `Str.renderUnit joined`
  ('.', '/', '1/', the exponent digits glued to the unit).

C20's `unit_string_layout`, `parse_render`, `render_unambiguous`, `derived_category_and_type_strings` … are stated over
`renderUnit` / `makeStr`.  Changing a separator, the test `exp != 1`, `abs`, the order of the two loops or the
`added_div` logic changes the generated definitions and the proofs stop checking.  Core Lean only.
-/
import Barril.Gen.CodeStr
import Barril.Model.StrRender

namespace Barril.Bridge.Str
open Barril Barril.Str Barril.Gen.Code

theorem pyIntText_pos (n : Int) (h : n > 0) : pyIntText n = decimal n.toNat := by
  unfold pyIntText
  have : ¬ n < 0 := by omega
  simp [this]

theorem pyIntText_neg (n : Int) (h : n < 0) : pyIntText (-n) = decimal n.natAbs := by
  unfold pyIntText
  have h2 : ¬ (-n < 0) := by omega
  have h3 : (-n).toNat = n.natAbs := by omega
  rw [if_neg h2, h3]

/-- the value of `added_div` after the second loop -/
def flagAfter : Bool → List (Str × Int) → Bool
  | a, [] => a
  | a, (_, e) :: r => if e < 0 then flagAfter true r else flagAfter a r

theorem makeStr_loop1_eq (items : List (Str × Int)) :
    ∀ ret, makeStr_loop1 ret items = .ok (makeStrNum ret items, []) := by
  induction items with
  | nil => intro ret; rfl
  | cons p rest ih =>
    intro ret
    obtain ⟨rep, exp⟩ := p
    unfold makeStr_loop1 makeStrNum
    by_cases h : exp > 0
    · by_cases hr : ret = [] <;> by_cases h1 : exp = 1 <;>
        simp [h, hr, h1, ih, powText, pyIntText_pos exp h]
    · simp [h, ih]

theorem makeStr_loop2_eq (items : List (Str × Int)) :
    ∀ added ret, makeStr_loop2 added ret items = .ok ((flagAfter added items, makeStrDen ret added items), []) := by
  induction items with
  | nil => intro added ret; rfl
  | cons p rest ih =>
    intro added ret
    obtain ⟨rep, exp⟩ := p
    unfold makeStr_loop2 makeStrDen flagAfter
    by_cases h : exp < 0
    · cases added <;> by_cases hr : ret = [] <;> by_cases h1 : exp = -1 <;>
        simp [h, hr, h1, ih, powText, pyIntText_neg exp h]
    · simp [h, ih]

theorem makeStr_eq_model (items : List (Str × Int)) : Gen.Code.makeStr items = .ok (Str.makeStr items) := by
  unfold Gen.Code.makeStr Str.makeStr
  simp only [makeStr_loop1_eq]
  simp only [makeStr_loop2_eq]

theorem createUnits_loop1_eq (cu items : List (Str × Int)) :
    ∀ ret, createUnitsWithJoinedExponentsString_loop1 cu ret items = .ok (renderUnitNum ret items, []) := by
  induction items with
  | nil => intro ret; rfl
  | cons p rest ih =>
    intro ret
    obtain ⟨unit, exp⟩ := p
    unfold createUnitsWithJoinedExponentsString_loop1 renderUnitNum
    by_cases h : exp > 0
    · by_cases hr : ret = [] <;> by_cases h1 : exp = 1 <;>
        simp [h, hr, h1, ih, pyIntText_pos exp h]
    · simp [h, ih]

theorem createUnits_loop2_eq (cu items : List (Str × Int)) :
    ∀ added ret, createUnitsWithJoinedExponentsString_loop2 cu added ret items
      = .ok ((flagAfter added items, renderUnitDen ret added items), []) := by
  induction items with
  | nil => intro added ret; rfl
  | cons p rest ih =>
    intro added ret
    obtain ⟨unit, exp⟩ := p
    unfold createUnitsWithJoinedExponentsString_loop2 renderUnitDen flagAfter
    by_cases h : exp < 0
    · cases added <;> by_cases hr : ret = [] <;> by_cases h1 : exp = -1 <;>
        simp [h, hr, h1, ih, pyIntText_neg exp h]
    · simp [h, ih]

theorem createUnits_eq_model (joined : List (Str × Int)) :
    createUnitsWithJoinedExponentsString joined = .ok (renderUnit joined) := by
  unfold createUnitsWithJoinedExponentsString renderUnit
  simp only [createUnits_loop1_eq]
  simp only [createUnits_loop2_eq]

end Barril.Bridge.Str
