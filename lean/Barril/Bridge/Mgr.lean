/-
Bridge theorems for `UnitSystemManager._CheckUnitSystemMapping`, `AddUnitSystem` and `RemoveUnitSystem` (generated:
`Barril/Gen/CodeMgr.lean`, regenerated from the source text of /repo on every run by `harness/pycode.py`).

The generated definitions treat the manager as a state variable of an abstract type and take what the methods read
of it (`id in self._unit_systems`, `_unit_system_template`, `_current`, `GetId()`, `GetUnitSystems().values()`) and the
operations that change it (creating the unit system object, `self._unit_systems[id] = …`, `del self._unit_systems[id]`,
`SetCurrent`) as parameters.  Here they are instantiated on the model's `Mgr` (state = manager × callbacks fired so
far, a unit system object = its heap address):

* `checkUnitSystemMapping_eq_model`: the generated check equals `covers`;
* `addUnitSystem_eq_model`: the generated `AddUnitSystem`, over the generated mapping check, equals the model's
  `addUnitSystem` (new state, result or error class, callbacks) for ALL managers and arguments: id test first, then the
  template check (`resolveMapping`: deepcopy of the template / the covered mapping / `{}`), creation, registration and
  `SetCurrent` exactly when there was no current system;
* `removeUnitSystem_eq_model`: the generated `RemoveUnitSystem` equals the model's `removeUnitSystem`: KeyError for an
  unknown id, and a new current system (the first registered one, or none) exactly when the removed one was current.

C17's theorems (`add_spec`, `remove_spec`, the invariants of `step`) are stated over these two model functions.
Core Lean only.
-/
import Barril.Gen.CodeMgr
import Barril.Model.Mgr

namespace Barril.Bridge.Mgr
open Barril Barril.Mgr

theorem contains_dkeys (d : Dict) (k : Sym) : (dkeys d).contains k = dhas d k := by
  induction d with
  | nil => rfl
  | cons p r ih =>
    obtain ⟨k', v⟩ := p
    show ((k' :: dkeys r).contains k) = (k' == k || dhas r k)
    rw [List.contains_cons, ih]
    by_cases h : k' = k
    · subst h; simp
    · have h2 : ¬ k = k' := fun e => h e.symm
      have e1 : (k == k') = false := by simpa using h2
      have e2 : (k' == k) = false := by simpa using h
      rw [e1, e2]

theorem checkUnitSystemMapping_eq_model (d : Dict) (required : List Sym) :
    Gen.Code.checkUnitSystemMapping d required = covers d required := by
  unfold Gen.Code.checkUnitSystemMapping covers PyRt.isSuperset
  simp only [contains_dkeys]

/-- the state the generated methods thread: the manager and the callbacks fired so far -/
abbrev St := Mgr.Mgr × List Event

def hasId (s : St) (id : Sym) : Bool := regHas s.1.reg id
def template (s : St) : Option USys := s.1.tmpl
def current (s : St) : Option Nat := s.1.cur
/-- `UnitSystem(id, caption, units_mapping, read_only)`: a new object at the next address -/
def newSystem (s : St) (id cap : Sym) (d : Dict) (ro : Bool) : St × Nat :=
  (({ s.1 with heap := s.1.heap ++ [USys.new (some id) cap d ro] }, s.2), s.1.heap.length)
/-- `self._unit_systems[id] = unit_system` for an id that is not in use -/
def setItem (s : St) (id : Sym) (a : Nat) : St := ({ s.1 with reg := s.1.reg ++ [(id, a)] }, s.2)
def setCurrentSt (s : St) (a : Option Nat) : St := ((setCurrent s.1 a).1, s.2 ++ (setCurrent s.1 a).2)
def getId (s : St) (a : Nat) : Option Sym :=
  match s.1.heap[a]? with
  | some o => o.id
  | none => none
def values (s : St) : List Nat := s.1.reg.map (·.2)
/-- `del self._unit_systems[id]` -/
def delItem (s : St) (id : Sym) : Except ErrKind St :=
  if regHas s.1.reg id then .ok (s.1.unregister id, s.2) else .error .key

def addRes (m : Mgr.Mgr) : Except ErrKind (St × Nat) → Res
  | .error e => Res.reject m e
  | .ok (s, a) => ⟨s.1, .ok (.sys a), s.2⟩

def removeRes (m : Mgr.Mgr) : Except ErrKind St → Res
  | .error e => Res.reject m e
  | .ok s => ⟨s.1, .ok .none, s.2⟩

theorem addUnitSystem_eq_model (m : Mgr.Mgr) (id cap : Sym) (mp : Option Dict) (ro : Bool) :
    addRes m (Gen.Code.addUnitSystem hasId template current Gen.Code.checkUnitSystemMapping newSystem setItem
        setCurrentSt (m, []) id cap mp ro)
      = Mgr.addUnitSystem m id cap mp ro := by
  unfold Gen.Code.addUnitSystem Mgr.addUnitSystem resolveMapping
  simp only [checkUnitSystemMapping_eq_model, hasId, template, current, newSystem, setItem, setCurrentSt, Mgr.register]
  cases hh : regHas m.reg id
  · cases ht : m.tmpl with
    | none => cases mp <;> cases hc : m.cur <;> simp [addRes]
    | some t =>
      cases mp with
      | none => cases hc : m.cur <;> simp [addRes]
      | some d =>
        cases hcov : covers d (dkeys t.mapping) <;> cases hc : m.cur <;> simp [addRes, hcov, Res.reject]
  · simp [addRes]

theorem removeUnitSystem_eq_model (m : Mgr.Mgr) (id : Sym) :
    removeRes m (Gen.Code.removeUnitSystem current getId values delItem setCurrentSt (m, []) id)
      = Mgr.removeUnitSystem m id := by
  obtain ⟨heap, reg, cur, tmpl, objs, oc, ou⟩ := m
  unfold Gen.Code.removeUnitSystem Mgr.removeUnitSystem delItem
  simp only [current, getId, values, setCurrentSt, Mgr.currentId, Mgr.unregister, nextCurrent, PyRt.index]
  cases hh : regHas reg id
  · simp [removeRes]
  · cases cur with
    | none => simp [removeRes]
    | some c =>
      simp only [if_true]
      by_cases h : (match heap[c]? with | some o => o.id | none => none) = some id
      · cases hr : regErase reg id <;> simp [removeRes, h] <;> (intro h'; exact absurd h h')
      · simp [removeRes, h]
        intro h'; exact absurd h' h

end Barril.Bridge.Mgr
