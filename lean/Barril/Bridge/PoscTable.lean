/-
The shipped tables run the factories' code: every row of the three self-built databases that carries `__a__ … __d__`
annotations computes, in both directions, exactly what the CODE of `posc.MakeCustomaryToBase` / `MakeBaseToCustomary`
(generated: `Gen/CodePosc.lean`) computes on those coefficients; hence the round trip through the base unit follows
from the factories' general theorem (`Bridge/Posc.lean`, all coefficients) and not only from the per-row predicate.
Uses the generated table theorems `*_all_ann` (`decide +kernel` over the regenerated rows).
-/
import Barril.Bridge.Posc
import Barril.Props.C01

namespace Barril.Bridge.PoscTable
open Barril Barril.Gen Barril.Gen.Code Barril.Bridge.Posc

theorem rows_run_factory_code {db : Db} (hann : ∀ r ∈ db.units, r.annAgree = true)
    (r : UnitRow) (hr : r ∈ db.units) (a b c d : Rat)
    (hto : r.annTo = some (a, b, c, d)) (hfrom : r.annFrom = some (a, b, c, d)) (x : Rat) :
    r.toBase.eval x = makeCustomaryToBase a b c d x ∧ r.fromBase.eval x = makeBaseToCustomary a b c d x :=
  row_is_factory_code r a b c d hto hfrom (hann r hr) x

/-- the default POSC database -/
theorem posc_rows_run_factory_code (r : UnitRow) (hr : r ∈ poscDb.units) (a b c d : Rat)
    (hto : r.annTo = some (a, b, c, d)) (hfrom : r.annFrom = some (a, b, c, d)) (x : Rat) :
    r.toBase.eval x = makeCustomaryToBase a b c d x ∧ r.fromBase.eval x = makeBaseToCustomary a b c d x :=
  rows_run_factory_code posc_annotations_agree r hr a b c d hto hfrom x

/-- round trip of an annotated row through the base unit, from the general theorem about the factories' code -/
theorem annotated_row_roundtrip {db : Db} (hann : ∀ r ∈ db.units, r.annAgree = true)
    (r : UnitRow) (hr : r ∈ db.units) (a b c d : Rat)
    (hto : r.annTo = some (a, b, c, d)) (hfrom : r.annFrom = some (a, b, c, d))
    (hdet : b * c - a * d ≠ 0) (x : Rat) (hden : c + d * x ≠ 0) :
    r.fromBase.eval (r.toBase.eval x) = x := by
  rw [(rows_run_factory_code hann r hr a b c d hto hfrom x).1,
      (rows_run_factory_code hann r hr a b c d hto hfrom _).2]
  exact customary_roundtrip a b c d x hdet hden

end Barril.Bridge.PoscTable
