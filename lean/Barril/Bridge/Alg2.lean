/-
Bridge theorems for `UnitDatabase._MatchQuantities` (generated: `Barril/Gen/CodeAlg2.lean`, regenerated from the source
text of /repo on every run by `harness/pycode.py`; `for c in (d1, d2)` is unrolled into the helper definitions
`matchQuantities_loop1` (left operand) and `matchQuantities_loop2` (right operand), each carrying the cells written so far,
the `quantity type -> used unit` dict and both values).

* `loop1_eq_matchOne` / `loop2_eq_matchOne`: one operand's pass = `Alg.matchOne` (the first unit seen for a quantity type
  is kept, a later entry of that type gets that unit - the cell write `unit_exp[0] = …` - and ITS OWN operand's value is
  converted by `_ConvertMatchingExp` with `in_derived = len(c) > 1`; the other value is untouched);
* `matchQuantities_eq_model`: with `GetCategoryQuantityType` instantiated by `Alg.catQType` and `_ConvertMatchingExp` by
  the model's `Alg.convertMatchingExp`, the generated function equals `Alg.matchQuantities` (left operand first, one
  shared dict) for ALL databases, entry lists and values;
* `matchQuantities_code`: the same with the GENERATED `_ConvertMatchingExp` (`Bridge/Alg`) plugged in.
* `getComposing_eq_model`: `Quantity.GetComposingUnitsJoiningExponents` with its memo attribute as state: an absent memo
  is computed as `Alg.joined entries` (OrderedDict accumulation: an existing unit keeps its place and adds the exponent)
  and stored; a present memo is returned as it is (`getComposing_memo`).
* `doOperationWithSameQuantity_eq_model`: the generated `_DoOperationWithSameQuantity`, over the GENERATED
  `_MatchQuantities`, with `CreateCopyInstance(dict)` = `obtainFromDict … caption`, the joined units = `Alg.joined` and
  `operation` = `applySame op`, equals `Alg.opSame db op` (equal quantities shortcut; otherwise match, copy both, compare
  the joined units as sets, a side without units gives way, anything else is InvalidOperationError).
`opSame`, `opNew` and through them every theorem of C03/C04 about Sum/Subtract/Multiply/Divide go through
`Alg.matchQuantities`.  Core Lean only.
-/
import Barril.Gen.CodeAlg2
import Barril.Bridge.Alg

namespace Barril.Bridge.Alg2
open Barril Barril.Alg Barril.Gen.Code

theorem loop1_eq_matchOne (db : Db) (d : List Entry) (es : List Entry) :
    ∀ (out : List Entry) (used : List (Sym × Sym)) (v1 v2 : Rat),
      matchQuantities_loop1 (catQType db) (Alg.convertMatchingExp db) d out used v1 v2 es
        = (match matchOne db (isDerivedDict d) used es v1 with
           | .error e => .error e
           | .ok (u', es', v') => .ok ((out ++ es', u', v', v2), [])) := by
  induction es with
  | nil => intro out used v1 v2; simp [matchQuantities_loop1, matchOne]
  | cons e es ih =>
    intro out used v1 v2
    unfold matchQuantities_loop1 matchOne
    have hd : decide (((d.length : Nat) : Int) > 1) = isDerivedDict d := by
      unfold isDerivedDict; simp; omega
    simp only [hd]
    cases catQType db e.cat with
    | error err => rfl
    | ok qt =>
      simp only []
      cases lookupU qt used with
      | none =>
        simp only [ih]
        cases matchOne db (isDerivedDict d) ((qt, e.unit) :: used) es v1 with
        | error err => rfl
        | ok r => obtain ⟨u', es', v'⟩ := r; simp
      | some w =>
        simp only [if_true]
        cases Alg.convertMatchingExp db qt e.unit w e.exp v1 (isDerivedDict d) with
        | error err => rfl
        | ok x =>
          simp only [ih]
          cases matchOne db (isDerivedDict d) used es x with
          | error err => rfl
          | ok r => obtain ⟨u', es', v'⟩ := r; simp

theorem loop2_eq_matchOne (db : Db) (d0 d : List Entry) (es : List Entry) :
    ∀ (out : List Entry) (used : List (Sym × Sym)) (v1 v2 : Rat),
      matchQuantities_loop2 (catQType db) (Alg.convertMatchingExp db) d0 d out used v1 v2 es
        = (match matchOne db (isDerivedDict d) used es v2 with
           | .error e => .error e
           | .ok (u', es', v') => .ok ((out ++ es', u', v1, v'), [])) := by
  induction es with
  | nil => intro out used v1 v2; simp [matchQuantities_loop2, matchOne]
  | cons e es ih =>
    intro out used v1 v2
    unfold matchQuantities_loop2 matchOne
    have hd : decide (((d.length : Nat) : Int) > 1) = isDerivedDict d := by
      unfold isDerivedDict; simp; omega
    simp only [hd]
    cases catQType db e.cat with
    | error err => rfl
    | ok qt =>
      simp only []
      cases lookupU qt used with
      | none =>
        simp only [ih]
        cases matchOne db (isDerivedDict d) ((qt, e.unit) :: used) es v2 with
        | error err => rfl
        | ok r => obtain ⟨u', es', v'⟩ := r; simp
      | some w =>
        simp only [if_false]
        cases Alg.convertMatchingExp db qt e.unit w e.exp v2 (isDerivedDict d) with
        | error err => rfl
        | ok x =>
          simp only [ih]
          cases matchOne db (isDerivedDict d) used es x with
          | error err => rfl
          | ok r => obtain ⟨u', es', v'⟩ := r; simp

theorem matchQuantities_eq_model (db : Db) (e1 e2 : List Entry) (v1 v2 : Rat) :
    Gen.Code.matchQuantities (catQType db) (Alg.convertMatchingExp db) e1 e2 v1 v2 = Alg.matchQuantities db e1 e2 v1 v2 := by
  unfold Gen.Code.matchQuantities Alg.matchQuantities
  simp only [loop1_eq_matchOne, loop2_eq_matchOne, List.nil_append]
  cases matchOne db (isDerivedDict e1) [] e1 v1 with
  | error err => rfl
  | ok r =>
    obtain ⟨used, e1', v1'⟩ := r
    simp only []
    cases matchOne db (isDerivedDict e2) used e2 v2 with
    | error err => rfl
    | ok r2 => obtain ⟨u2, e2', v2'⟩ := r2; rfl

/-- the same over the generated `_ConvertMatchingExp` -/
theorem matchQuantities_code (db : Db) (e1 e2 : List Entry) (v1 v2 : Rat) :
    Gen.Code.matchQuantities (catQType db)
        (Gen.Code.convertMatchingExp db.convert (fun q x => db.getInfo q x)) e1 e2 v1 v2
      = Alg.matchQuantities db e1 e2 v1 v2 := by
  rw [← matchQuantities_eq_model]
  congr 1
  funext qt u w exp v inD
  exact Bridge.Alg.convertMatchingExp_eq_model db qt u w exp v inD

/-! ### `GetComposingUnitsJoiningExponents` -/

theorem adSet_adGet_eq_addJoined (u : Sym) (x : Int) (d : List (Sym × Int)) :
    PyRt.adSet d u (PyRt.adGet d u 0 + x) = addJoined u x d := by
  induction d with
  | nil => simp [PyRt.adSet, PyRt.adGet, addJoined]
  | cons p r ih =>
    obtain ⟨w, t⟩ := p
    unfold PyRt.adSet PyRt.adGet addJoined
    cases h : w == u <;> simp_all

theorem joinLoop_eq (E : List Entry) (es : List Entry) :
    ∀ acc, getComposingUnitsJoiningExponents_loop1 E acc es = .ok (joinedFrom acc es, []) := by
  induction es with
  | nil => intro acc; rfl
  | cons e es ih =>
    intro acc
    unfold getComposingUnitsJoiningExponents_loop1 joinedFrom
    simp only [adSet_adGet_eq_addJoined]
    exact ih _

theorem getComposing_eq_model (es : List Entry) :
    getComposingUnitsJoiningExponents es none = .ok (some (joined es), joined es) := by
  unfold getComposingUnitsJoiningExponents joined
  simp [PyRt.slotGet, joinLoop_eq]

theorem getComposing_memo (es : List Entry) (j : List (Sym × Int)) :
    getComposingUnitsJoiningExponents es (some j) = .ok (some j, j) := by
  unfold getComposingUnitsJoiningExponents
  simp [PyRt.slotGet]

/-! ### `_DoOperationWithSameQuantity` -/

theorem doOperationWithSameQuantity_eq_model (db : Db) (op : SameOp) (q1 q2 : Alg.Quantity) (v1 v2 : Rat) :
    doOperationWithSameQuantity (Gen.Code.matchQuantities (catQType db) (Alg.convertMatchingExp db))
        (fun q es => obtainFromDict db es q.caption) (fun q => joined q.entries) (applySame op) q1 q2 v1 v2
      = opSame db op q1 q2 v1 v2 := by
  unfold doOperationWithSameQuantity opSame pickSame
  have hpos : ∀ n : Nat, ((n : Int) + 1 = 0) = False := by
    intro n; apply propext; constructor
    · intro h; omega
    · intro h; exact h.elim
  simp only [matchQuantities_eq_model]
  cases q1.eqv q2
  · simp only [Bool.false_eq_true, if_false]
    cases Alg.matchQuantities db q1.entries q2.entries v1 v2 with
    | error err => rfl
    | ok r =>
      obtain ⟨e1, e2, w1, w2⟩ := r
      simp only []
      cases obtainFromDict db e1 q1.caption with
      | error err => rfl
      | ok c1 =>
        simp only []
        cases obtainFromDict db e2 q2.caption with
        | error err => rfl
        | ok c2 =>
          simp only []
          cases hs : sameSet (joined c1.entries) (joined c2.entries) <;>
            cases h1 : joined c1.entries <;> cases h2 : joined c2.entries <;> simp_all [List.isEmpty]
  · simp

end Barril.Bridge.Alg2
