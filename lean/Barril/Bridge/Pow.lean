/-
Bridge theorems for `Quantity.__pow__` and `Scalar.__pow__` (generated: `Barril/Gen/CodePow.lean`, regenerated from the
source text of /repo on every run by `harness/pycode.py`; `for _ in range(exponent - 1)` is a helper definition over the
list `PyRt.pyRange (exponent - 1)`).

* `quantityPow_eq_model`: with `self._DoOperation(a, b, op)` instantiated by the model's `opQ reg op a b` and
  `OPERATION_MULTIPLY` by `.mul`, the generated `Quantity.__pow__` equals `Str.qpow reg q n` for ALL registries,
  quantities and exponents (including n ≤ 1, where `range` is empty and the result is `q` itself): `self` is the LEFT
  operand of every multiplication;
* `scalarPow_eq_model`: with `scalar * scalar` instantiated by `opQ reg .mul`, the generated `Scalar.__pow__` equals
  `Str.spow reg q n` on the quantity of the result: `self` is the RIGHT operand.
C20's `quantity_pow_eq_iterated_mul`, `pow_unit_string`, `pow_unit_string_parses` are stated over `qpow` / `spow`.
Core Lean only.
-/
import Barril.Gen.CodePow
import Barril.Model.StrRender

namespace Barril.Bridge.Pow
open Barril Barril.Str Barril.Gen.Code

theorem quantityPow_loop_eq (reg : Reg) (q : Quantity) (l : List Nat) :
    ∀ r, quantityPow_loop1 (fun a b op => opQ reg op a b) NewOp.mul q r l
      = (match qpowLoop reg q l.length r with
         | .error e => .error e
         | .ok r' => .ok (r', [])) := by
  induction l with
  | nil => intro r; rfl
  | cons x l ih =>
    intro r
    unfold quantityPow_loop1
    simp only [List.length_cons, qpowLoop]
    cases opQ reg .mul q r with
    | error e => rfl
    | ok r' => exact ih r'

theorem quantityPow_eq_model (reg : Reg) (q : Quantity) (n : Int) :
    quantityPow (fun a b op => opQ reg op a b) NewOp.mul q n = qpow reg q n := by
  unfold quantityPow qpow
  simp only [quantityPow_loop_eq, PyRt.pyRange, List.length_range]
  cases qpowLoop reg q (n - 1).toNat q <;> rfl

theorem scalarPow_loop_eq (reg : Reg) (q : Quantity) (l : List Nat) :
    ∀ r, scalarPow_loop1 (fun a b => opQ reg .mul a b) q r l
      = (match spowLoop reg q l.length r with
         | .error e => .error e
         | .ok r' => .ok (r', [])) := by
  induction l with
  | nil => intro r; rfl
  | cons x l ih =>
    intro r
    unfold scalarPow_loop1
    simp only [List.length_cons, spowLoop]
    cases opQ reg .mul r q with
    | error e => rfl
    | ok r' => exact ih r'

theorem scalarPow_eq_model (reg : Reg) (q : Quantity) (n : Int) :
    scalarPow (fun a b => opQ reg .mul a b) q n = spow reg q n := by
  unfold scalarPow spow
  simp only [scalarPow_loop_eq, PyRt.pyRange, List.length_range]
  cases spowLoop reg q (n - 1).toNat q <;> rfl

end Barril.Bridge.Pow
