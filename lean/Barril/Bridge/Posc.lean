/-
Bridge theorems for the conversion-formula factories of `posc.py` (generated: `Barril/Gen/CodePosc.lean`).
The definitions `Gen.Code.makeCustomaryToBase` / `makeBaseToCustomary` are regenerated from the source text of
`posc.MakeCustomaryToBase` / `posc.MakeBaseToCustomary` on every run; the theorems below are about THOSE definitions,
for all coefficients and all arguments:

* `customaryToBase_is_mob`, `baseToCustomary_is_mob`: the code of the two factories computes the Möbius maps
  `(a + b x)/(c + d x)` and `(a − c y)/(−b + d y)` the rest of the model is stated over;
* `customary_roundtrip`, `base_roundtrip`: C01's "u → base → u gives back the value" for ALL coefficients with
  `b c ≠ a d` - not only the 1548 rows of today's table;
* `customaryToBase_strictMono`: scale/offset formulas with `b c > 0` are strictly increasing;
* `row_is_factory_code`: a table row that satisfies the annotation predicate (generated table theorems `*_ann`)
  computes exactly what the factories' code computes on the row's coefficients.
-/
import Barril.Gen.CodePosc
import Barril.Model.Conv
import Mathlib.Algebra.Order.Field.Rat
import Mathlib.Tactic.Ring
import Mathlib.Tactic.FieldSimp
import Mathlib.Tactic.Linarith
import Mathlib.Tactic.LinearCombination

namespace Barril.Bridge.Posc
open Barril Barril.Gen.Code

theorem customaryToBase_is_mob (a b c d x : Rat) :
    makeCustomaryToBase a b c d x = (Mob.mk a b c d).eval x := by
  unfold makeCustomaryToBase Mob.eval
  by_cases h : d = 0
  · simp [h]
  · simp [h]

theorem baseToCustomary_is_mob (a b c d y : Rat) :
    makeBaseToCustomary a b c d y = (Mob.mk a (-c) (-b) d).eval y := by
  unfold makeBaseToCustomary Mob.eval
  by_cases h : d = 0
  · simp [h]; ring
  · simp [h]; ring

theorem mob_roundtrip (a b c d x : Rat) (hdet : b * c - a * d ≠ 0) (hden : c + d * x ≠ 0) :
    (a + -c * ((a + b * x) / (c + d * x))) / (-b + d * ((a + b * x) / (c + d * x))) = x := by
  have hY : (a + b * x) / (c + d * x) * (c + d * x) = a + b * x := div_mul_cancel₀ _ hden
  generalize (a + b * x) / (c + d * x) = Y at hY
  have hD : (-b + d * Y) * (c + d * x) = -(b * c - a * d) := by
    linear_combination d * hY
  have hDen : -b + d * Y ≠ 0 := by
    intro h0
    rw [h0, zero_mul] at hD
    exact hdet (by linarith)
  rw [div_eq_iff hDen]
  apply mul_right_cancel₀ hden
  linear_combination (-(c + x * d)) * hY

theorem customary_roundtrip (a b c d x : Rat) (hdet : b * c - a * d ≠ 0) (hden : c + d * x ≠ 0) :
    makeBaseToCustomary a b c d (makeCustomaryToBase a b c d x) = x := by
  rw [customaryToBase_is_mob, baseToCustomary_is_mob]
  exact mob_roundtrip a b c d x hdet hden

theorem base_roundtrip (a b c d y : Rat) (hdet : b * c - a * d ≠ 0) (hden : d * y - b ≠ 0) :
    makeCustomaryToBase a b c d (makeBaseToCustomary a b c d y) = y := by
  rw [customaryToBase_is_mob, baseToCustomary_is_mob]
  unfold Mob.eval
  simp only
  have hden' : -b + d * y ≠ 0 := by
    intro h; apply hden; linarith
  have hY : (a + -c * y) / (-b + d * y) * (-b + d * y) = a + -c * y := div_mul_cancel₀ _ hden'
  generalize (a + -c * y) / (-b + d * y) = X at hY
  have hD : (c + d * X) * (-b + d * y) = -(b * c - a * d) := by
    linear_combination d * hY
  have hDen : c + d * X ≠ 0 := by
    intro h0
    rw [h0, zero_mul] at hD
    exact hdet (by linarith)
  rw [div_eq_iff hDen]
  apply mul_right_cancel₀ hden'
  linear_combination (b - y * d) * hY

theorem customaryToBase_strictMono (a b c x y : Rat) (hpos : 0 < b * c) (hxy : x < y) :
    makeCustomaryToBase a b c 0 x < makeCustomaryToBase a b c 0 y := by
  unfold makeCustomaryToBase
  simp only [if_true]
  have hc : c ≠ 0 := by
    rintro rfl; simp at hpos
  have h : (a + b * y) / c - (a + b * x) / c = (b * c) * (y - x) / (c * c) := by
    field_simp; ring
  have h2 : 0 < (b * c) * (y - x) / (c * c) :=
    div_pos (mul_pos hpos (sub_pos.mpr hxy)) (mul_self_pos.mpr hc)
  linarith

theorem row_is_factory_code (w : UnitRow) (a b c d : Rat) (hto : w.annTo = some (a, b, c, d))
    (hfrom : w.annFrom = some (a, b, c, d)) (hann : w.annAgree = true) (x : Rat) :
    w.toBase.eval x = makeCustomaryToBase a b c d x ∧ w.fromBase.eval x = makeBaseToCustomary a b c d x := by
  unfold UnitRow.annAgree at hann
  rw [hto, hfrom] at hann
  simp only [Bool.and_eq_true, beq_iff_eq] at hann
  rw [customaryToBase_is_mob, baseToCustomary_is_mob, hann.1, hann.2]
  exact ⟨rfl, rfl⟩

end Barril.Bridge.Posc
