"""Table predicates (beyond C01's row predicates) whose per-chunk `decide +kernel` theorems the
translator generates.  Each property that needs one adds an entry (see translate.TABLE_PREDICATES):

    dict(tag="defcat", pred="UnitRow.defaultCatOk {db}", imports=["Barril.Model.Ctor"],
         kinds=["posc"], over="units")     # over = "units" | "cats"

While an engine is being developed in a private Lean copy, its predicates are tried out through the
environment variable BARRIL_EXTRA_TABLEPREDS=<path to a JSON list of such dicts> (so that the shared
list only ever names model files that exist in /verif/lean)."""
import json
import os

PREDICATES = [
    # C12: shape of the executed formulas on non-finite values (both formulas are (a + b*x)/(c + d*x) with d = 0 ...)
    # C16: no current symbol is rewritten by the legacy substitution list; every derived legacy spelling of a row
    # is an exact alias of it
    dict(tag="legfix", pred="UnitRow.notRewritten Barril.Gen.legacyList", imports=["Barril.Gen.Consts", "Barril.Model.LegacyApi"],
         kinds=["posc", "nocat", "simple"], over="units"),
    dict(tag="legder", pred="UnitRow.derivedOk {db}", imports=["Barril.Model.LegacyApi"],
         kinds=["posc", "nocat", "simple"], over="units"),
    # C19: every row's default category is registered with the row's quantity type; every category's default unit
    # is accepted; symbols and category names contain no quote, backslash or line break
    dict(tag="defcat", pred="UnitRow.defaultCatOk {db}", imports=["Barril.Model.Ctor"], kinds=["posc"], over="units"),
    dict(tag="defunit", pred="CatRow.defaultUnitOk {db}", imports=["Barril.Model.Ctor"], kinds=["posc"], over="cats"),
    dict(tag="symplain", pred="UnitRow.symPlain", imports=["Barril.Model.Ctor"], kinds=["posc"], over="units"),
    dict(tag="catplain", pred="CatRow.namePlain", imports=["Barril.Model.Ctor"], kinds=["posc"], over="cats"),
    # C14: the shipped tables are well-formed registries (symbols, base rows, categories), row by row
    # (list-based predicates for the small FillSimple database; for POSC the unit clauses follow from the index
    # facts of C06 - Proofs/RegIndexLemmas.lean - and the category clauses are evaluated through the index)
    dict(tag="reg14u", pred="UnitRow.regOk {db}", imports=["Barril.Model.RegTable"], kinds=["simple"], over="units"),
    dict(tag="reg14c", pred="CatRow.regOk {db}", imports=["Barril.Model.RegTable"], kinds=["simple"], over="cats"),
    dict(tag="reg14ct", pred="CatRow.regOkT Barril.Gen.poscTree Barril.Gen.poscBases {db}",
         imports=["Barril.Model.RegIndex", "Barril.Gen.PoscTree", "Barril.Gen.PoscBases"], kinds=["posc"], over="cats"),
    # C20: a registered unit name is never shared by units of different quantity types (GetUnitName joins the
    # exponents of a derived quantity per unit NAME)
    dict(tag="nameown", pred="UnitRow.nameOwnType {db}", imports=["Barril.Model.StrTable"], kinds=["posc"], over="units"),
    dict(tag="valshape", pred="UnitRow.valShape", imports=["Barril.Model.Valid"], kinds=["posc", "nocat"], over="units"),
]

_extra = os.environ.get("BARRIL_EXTRA_TABLEPREDS")
if _extra and os.path.exists(_extra):
    with open(_extra, encoding="utf8") as _f:
        PREDICATES = PREDICATES + json.load(_f)
