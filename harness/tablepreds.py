"""Table predicates (beyond C01's row predicates) whose per-chunk `decide +kernel` theorems the
translator generates.  Each property that needs one adds an entry (see translate.TABLE_PREDICATES)."""
PREDICATES = []
