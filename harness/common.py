"""Shared plumbing of the verification harness (paths, barril import, Lean invocation, JSON)."""
import fcntl
import json
import os
import subprocess
import sys
import time
from fractions import Fraction

VERIF = os.path.dirname(os.path.dirname(os.path.abspath(__file__)))
REPO = os.environ.get("BARRIL_REPO", "/repo")
LEAN_DIR = os.environ.get("BARRIL_LEAN_DIR") or os.path.join(VERIF, "lean")
GEN_DIR = os.path.join(LEAN_DIR, "Barril", "Gen")
EVIDENCE_DIR = os.environ.get("BARRIL_EVIDENCE_DIR") or os.path.join(VERIF, "evidence")
REPLAY_DIR = os.environ.get("BARRIL_REPLAY_DIR") or os.path.join(VERIF, "replays")
CORPUS_DIR = os.path.join(VERIF, "corpus")
LOCK_FILE = os.path.join(LEAN_DIR, ".verif.lock")

ACCEPTED_AXIOMS = {"propext", "Classical.choice", "Quot.sound"}
TRUSTED_BASE = [
    "Lean 4.33 kernel (decide +kernel uses the kernel's GMP-backed Nat/Int arithmetic)",
    "axioms: propext, Classical.choice, Quot.sound only (audited with #print axioms on every run)",
    "translator harness/translate.py + symbolic execution of stored conversion callables",
    "correspondence harness (harness/props/*.py), its canonicalisation and the float bound K*eps*M",
    "modelled, not verified: IEEE rounding, numpy elementwise semantics, Python operator dispatch, "
    "copy/pickle/re/%g/str.replace, oop_ext callbacks",
]


class Infra(Exception):
    """An infrastructure problem (exit code 2, never a VIOLATION)."""


def load_barril():
    """Import barril from REPO/src (never from elsewhere) and return the package."""
    src = os.path.join(REPO, "src")
    if sys.path[0] != src:
        sys.path.insert(0, src)
    for m in [m for m in sys.modules if m == "barril" or m.startswith("barril.")]:
        f = getattr(sys.modules[m], "__file__", "") or ""
        if not f.startswith(src):
            del sys.modules[m]
    try:
        import barril  # noqa
        import barril.units  # noqa
    except Exception as e:  # the tree does not even import: infrastructure, not a verdict
        raise Infra("cannot import barril from %s: %r" % (src, e))
    if not os.path.abspath(barril.__file__).startswith(os.path.abspath(src)):
        raise Infra("barril imported from %s, expected under %s" % (barril.__file__, src))
    return barril


class Lock:
    """flock serialising translate+build when several checks run in parallel."""

    def __enter__(self):
        self.f = open(LOCK_FILE, "w")
        fcntl.flock(self.f, fcntl.LOCK_EX)
        return self

    def __exit__(self, *a):
        fcntl.flock(self.f, fcntl.LOCK_UN)
        self.f.close()


def run(cmd, cwd=LEAN_DIR, input=None, timeout=3600, env=None):
    e = dict(os.environ)
    if env:
        e.update(env)
    t0 = time.time()
    p = subprocess.run(cmd, cwd=cwd, input=input, capture_output=True, text=True, timeout=timeout, env=e)
    return p.returncode, p.stdout, p.stderr, time.time() - t0


def sym(s):
    """base-256 little-endian code of the UTF-8 bytes (the model's `Sym`)."""
    if s is None:
        return 0
    return int.from_bytes(s.encode("utf8"), "little")


def unsym(n):
    if n == 0:
        return ""
    return n.to_bytes((n.bit_length() + 7) // 8, "little").decode("utf8")


def frac_of_number(c):
    """A Python number as the decimal it is written as (ints exactly)."""
    if isinstance(c, bool):
        raise ValueError("bool")
    if isinstance(c, int):
        return Fraction(c)
    if isinstance(c, float):
        if c != c or c in (float("inf"), float("-inf")):
            raise ValueError("non-finite")
        return Fraction(repr(c))
    if isinstance(c, Fraction):
        return c
    raise ValueError("not a number: %r" % (type(c),))


def exact(x):
    """The exact rational value of a float/int (what crosses the model boundary)."""
    if isinstance(x, bool):
        raise ValueError("bool")
    if isinstance(x, int):
        return Fraction(x)
    return Fraction(*float(x).as_integer_ratio())


def qstr(fr):
    """Fraction -> protocol string."""
    fr = Fraction(fr)
    return "%d/%d" % (fr.numerator, fr.denominator)


def qparse(s):
    n, d = s.split("/")
    return Fraction(int(n), int(d))


EPS = 2.0 ** -53
K = 64


def close(real, exact_value, magnitude, k=K):
    """|real - exact| <= k*eps*M (condition-aware float/exact agreement, DESIGN section 3)."""
    if real != real:
        return False
    if real in (float("inf"), float("-inf")):
        return False
    m = max(abs(Fraction(magnitude)), abs(Fraction(exact_value)))
    return abs(Fraction(*float(real).as_integer_ratio()) - Fraction(exact_value)) <= k * Fraction(EPS) * m + Fraction(1, 10 ** 300)


def err_kind(e):
    """Map an exception to the coarse enum of the model (`ErrKind`)."""
    from barril.units.unit_database import UnitsError
    from barril.units._quantity import ReadOnlyError

    if isinstance(e, UnitsError):
        return "units"
    if isinstance(e, ReadOnlyError):
        return "readonly"
    if isinstance(e, NotImplementedError):
        return "readonly"
    if isinstance(e, TypeError):
        return "type"
    if isinstance(e, ValueError):
        return "value"
    if isinstance(e, KeyError):
        return "key"
    if isinstance(e, IndexError):
        return "index"
    if isinstance(e, AssertionError):
        return "assertion"
    if isinstance(e, RuntimeError):
        return "runtime"
    return "other"


def dumps(o):
    return json.dumps(o, separators=(",", ":"), sort_keys=True)
