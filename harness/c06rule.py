"""The rule that decides C06 (DESIGN.md section 8, C06), in Python.

Used by (a) the translator, for the written precision of every row (`prec`), and (b) the property
module C06.py, as the independent reading of the table's unit grammar that the Lean model's parser is
compared with and as the generator of concrete replays.  The Lean side (Barril/Model/Compound.lean)
implements the same grammar; the deciding computation is the Lean one (`decide +kernel`).

Written precision of a literal: write its decimal value as m * 10^e with m an integer not divisible
by 10.  The literal is written to one part in |m|; mantissas below 100 (powers of ten, 1.8, ...) and whole
numbers below 100000 (60, 3600, 86400, 1852, 4184, ...) are exact.  Never tighter than one unit in the last written place, so a row that agrees with the
product of its parts to the digits the table shows is never flagged.
"""
import re
from fractions import Fraction as F


def mantissa(fr):
    """|m| for fr = m * 10^e, m integer not divisible by 10 (0 for 0)."""
    fr = F(fr)
    if fr == 0:
        return 0
    n, d = abs(fr.numerator), fr.denominator
    # a decimal literal: denominator is 2^a 5^b; scale to an integer
    while d != 1:
        if d % 10 == 0:
            d //= 10
        elif d % 2 == 0:
            d //= 2
            n *= 5
        elif d % 5 == 0:
            d //= 5
            n *= 2
        else:
            raise ValueError("not a decimal literal: %s" % fr)
    while n % 10 == 0:
        n //= 10
    return n


def rel_precision(fr):
    """written relative precision of one literal; 0 = exact.  Mantissas below 100 (powers of ten, 1.8, ...) and
    whole numbers below 100000 (60, 3600, 86400, 1852, 4184: definitions, not roundings) are exact."""
    fr = F(fr)
    m = mantissa(fr)
    if m < 100 or (fr.denominator == 1 and abs(fr) < 100000):
        return F(0)
    return F(1, m)


SI = [("y", -24), ("z", -21), ("a", -18), ("f", -15), ("p", -12), ("n", -9), ("u", -6), ("m", -3), ("c", -2),
      ("d", -1), ("da", 1), ("h", 2), ("k", 3), ("M", 6), ("G", 9), ("T", 12), ("P", 15), ("E", 18)]
SI_NAMES = [("yocto", -24), ("zepto", -21), ("atto", -18), ("femto", -15), ("pico", -12), ("nano", -9),
            ("micro", -6), ("milli", -3), ("centi", -2), ("deci", -1), ("deca", 1), ("deka", 1), ("hecto", 2),
            ("kilo", 3), ("mega", 6), ("giga", 9), ("tera", 12), ("peta", 15), ("exa", 18)]


def norm_name(s):
    """lower case, British -re spellings read as -er (metre/meter, litre/liter), one plural s dropped"""
    s = s.lower().replace("metre", "meter").replace("litre", "liter")
    return s[:-1] if s.endswith("s") else s


def _factor(f, units, top):
    """one factor of the grammar -> (unit, exponent, numeric prefix) or None"""
    if not top and f in units:
        return (f, 1, 1)
    m = re.match(r"^(.*?)([0-9]+)$", f)
    if m and m.group(1) in units and int(m.group(2)) >= 1:
        return (m.group(1), int(m.group(2)), 1)
    m = re.match(r"^([0-9]+)(.+)$", f)
    if m:
        r = _factor(m.group(2), units, False)
        if r and r[2] == 1:
            return (r[0], r[1], int(m.group(1)))
    return None


def _side(s, units, top):
    out = []
    for f in s.split("."):
        if f == "1":
            continue
        r = _factor(f, units, top)
        if r is None:
            return None
        out.append(r)
    return out


def decompose(symbol, units):
    """[(unit, signed exponent, numeric prefix)] or None.  `units`: set of registered symbols.
    A factor that is itself a registered symbol wins over symbol+exponent, except for the whole symbol
    (which would be the trivial reading)."""
    if symbol.count("/") == 1:
        n, d = symbol.split("/")
        a, b = _side(n, units, False), _side(d, units, False)
        if a is None or b is None or not b:
            return None
        return a + [(u, -e, p) for u, e, p in b]
    if "/" in symbol:
        return None
    if "." in symbol:
        r = _side(symbol, units, False)
        return r if r else None
    r = _side(symbol, units, True)
    return r if r else None


def si_reading(symbol, name, qtype, rows):
    """(base symbol, power of ten) when the atomic symbol is prefix+base by symbol AND by registered name."""
    if "/" in symbol or "." in symbol:
        return None
    for pre, ex in SI:
        if symbol.startswith(pre) and symbol[len(pre):] in rows and rows[symbol[len(pre):]]["qtype"] == qtype:
            base = symbol[len(pre):]
            bn, nm = norm_name(rows[base]["name"]), norm_name(name)
            if any(nm == pn + bn or nm == pn + " " + bn for pn, pe in SI_NAMES if pe == ex):
                return (base, ex)
    return None


def _reading(s, r, rows, units):
    comp = decompose(s, units)
    if comp is not None:
        return "compound", comp
    si = si_reading(s, r["name"], r["qtype"], rows)
    if si is not None:
        return "si", [si]
    return None, None


def _expected(kind, parts, rows):
    """(product of the parts' factors, sum of their written precisions weighted by exponent)"""
    if kind == "si":
        return rows[parts[0][0]]["slope"] * F(10) ** parts[0][1], rows[parts[0][0]]["prec"]
    prod, tol = F(1), F(0)
    for u, e, p in parts:
        f = p * rows[u]["slope"] ** abs(e)
        prod = prod * f if e > 0 else prod / f
        tol += abs(e) * rows[u]["prec"]
    return prod, tol


def judge(rows, base_of):
    """rows: {symbol: dict(qtype, name, slope: Fraction, prec: Fraction)}, base_of: {qtype: base symbol} ->
    {symbol: dict(kind, parts, expected, tol, dev, ok, base_expected)} for every row the rule covers.

    The factor of a row is relative to the base unit of its quantity type.  When that base unit is itself
    written as a compound of non-base units (`1/wtpercent`), the product of the row's parts is compared
    with factor(row) * product of the base unit's own parts."""
    units = set(rows)
    out = {}
    for s, r in rows.items():
        kind, parts = _reading(s, r, rows, units)
        if kind is None:
            continue
        prod, tol = _expected(kind, parts, rows)
        tol += r["prec"]
        b = base_of[r["qtype"]]
        bkind, bparts = _reading(b, rows[b], rows, units)
        bprod = F(1)
        if bkind == "compound":
            bprod, btol = _expected(bkind, bparts, rows)
            tol += btol
        dev = abs(r["slope"] * bprod - prod) / abs(prod)
        out[s] = dict(kind=kind, parts=parts, expected=prod, tol=tol, dev=dev, ok=dev <= tol, base_expected=bprod)
    return out
