"""Model-staleness fingerprints (DESIGN.md section 5).

For every property the AST hash (comments, formatting and line numbers do not count) of each source file its
anchors name is recorded in harness/fingerprints.json when the check last agreed with the code
(`/venv/bin/python tools/fingerprint.py` - the interpreter the checks run under: `ast.dump` differs between Python versions).  A changed hash is NOT a verdict - a harmless rewrite changes it too - it
tells the run where the code moved: the correspondence of that property is then run with the thorough
generators even in the quick tier, and the change is recorded in the evidence."""
import ast
import hashlib
import json
import os
import sys

from common import REPO, VERIF

STORE = os.path.join(VERIF, "harness", "fingerprints.json")


def anchors():
    out = {}
    with open(os.path.join(VERIF, "properties.jsonl"), encoding="utf8") as f:
        for line in f:
            if line.strip():
                p = json.loads(line)
                out[p["id"]] = list(p["anchors"]["files"])
    return out


def file_hash(rel):
    path = os.path.join(REPO, rel)
    try:
        with open(path, encoding="utf8") as f:
            tree = ast.parse(f.read())
    except (OSError, SyntaxError) as e:
        return "unreadable:%s" % type(e).__name__
    return hashlib.sha1(ast.dump(tree, include_attributes=False).encode("utf8")).hexdigest()


def current():
    files = sorted({f for fs in anchors().values() for f in fs})
    return {f: file_hash(f) for f in files}


def load():
    if not os.path.exists(STORE):
        return None
    with open(STORE, encoding="utf8") as f:
        return json.load(f)


def changed(pid):
    """source files named by the property's anchors whose AST differs from the recorded one"""
    store = load()
    if store is None or store.get("python") != list(sys.version_info[:2]):
        return []  # ast.dump differs between Python versions: no statement without a comparable record
    rec = store.get("files", {})
    return [f for f in anchors().get(pid, []) if rec.get(f) is not None and file_hash(f) != rec[f]]
