"""Translator: regenerates the Lean data (`lean/Barril/Gen/*.lean`) from /repo's current source.

For each database the library can build by itself (default POSC, POSC without categories,
FillSimple) it reads the registry back from the live object and *executes the stored conversion
callables symbolically* (rational functions in x with Fraction coefficients); nothing is taken from
the text of posc.py.  See DESIGN.md section 4.
"""
import ast
import inspect
import os
import textwrap
from fractions import Fraction as F

import c06rule
from common import GEN_DIR, frac_of_number, load_barril, sym

CHUNK = 100


# ------------------------------------------------------------------ rational functions in x
def _trim(p):
    p = list(p)
    while len(p) > 1 and p[-1] == 0:
        p.pop()
    return p


def _padd(a, b):
    n = max(len(a), len(b))
    return _trim([(a[i] if i < len(a) else 0) + (b[i] if i < len(b) else 0) for i in range(n)])


def _pmul(a, b):
    r = [F(0)] * (len(a) + len(b) - 1)
    for i, x in enumerate(a):
        for j, y in enumerate(b):
            r[i + j] += x * y
    return _trim(r)


class RF:
    def __init__(self, n, d=None):
        self.n = _trim(n)
        self.d = _trim(d or [F(1)])

    def __add__(a, b):
        return RF(_padd(_pmul(a.n, b.d), _pmul(b.n, a.d)), _pmul(a.d, b.d))

    def __neg__(a):
        return RF([-c for c in a.n], a.d)

    def __sub__(a, b):
        return a + (-b)

    def __mul__(a, b):
        return RF(_pmul(a.n, b.n), _pmul(a.d, b.d))

    def __truediv__(a, b):
        if b.n == [0]:
            raise ValueError("division by the zero function")
        return RF(_pmul(a.n, b.d), _pmul(a.d, b.n))


X = RF([F(0), F(1)])


class Untranslatable(Exception):
    pass


class SymExec:
    """Symbolic execution of one callable; records the written precision of its literals."""

    def __init__(self):
        self.digits = 0
        self.lits = set()

    def const(self, c):
        try:
            fr = frac_of_number(c)
        except ValueError as e:
            raise Untranslatable(str(e))
        self.digits = max(self.digits, sig_digits(c))
        self.lits.add(fr)
        return RF([fr])

    def ev(self, node, env, arg):
        if isinstance(node, ast.BinOp):
            l, r = self.ev(node.left, env, arg), self.ev(node.right, env, arg)
            if isinstance(node.op, ast.Add):
                return l + r
            if isinstance(node.op, ast.Sub):
                return l - r
            if isinstance(node.op, ast.Mult):
                return l * r
            if isinstance(node.op, ast.Div):
                try:
                    return l / r
                except ValueError as e:
                    raise Untranslatable(str(e))
            if isinstance(node.op, ast.Pow) and isinstance(node.right, ast.Constant) \
                    and isinstance(node.right.value, int) and 0 <= node.right.value <= 8:
                out = RF([F(1)])
                for _ in range(node.right.value):
                    out = out * l
                return out
            raise Untranslatable(ast.dump(node.op))
        if isinstance(node, ast.UnaryOp) and isinstance(node.op, ast.USub):
            return -self.ev(node.operand, env, arg)
        if isinstance(node, ast.UnaryOp) and isinstance(node.op, ast.UAdd):
            return self.ev(node.operand, env, arg)
        if isinstance(node, ast.Constant):
            return self.const(node.value)
        if isinstance(node, ast.Name):
            if node.id == arg:
                return X
            if node.id in env:
                return self.const(env[node.id])
            raise Untranslatable("free name %s" % node.id)
        if isinstance(node, ast.Call) and isinstance(node.func, ast.Name) and node.func.id == "float" \
                and len(node.args) == 1 and not node.keywords:
            return self.ev(node.args[0], env, arg)
        raise Untranslatable(ast.dump(node)[:80])


def sig_digits(c):
    """Significant decimal digits a number is written with (ints: 0 = exact)."""
    if isinstance(c, int):
        return 0
    r = repr(float(c))
    mant = r.lower().split("e")[0].replace("-", "").replace(".", "")
    mant = mant.lstrip("0").rstrip("0")
    return len(mant)


_AST_CACHE = {}


def _func_ast(func):
    code = func.__code__
    key = (code.co_filename, code.co_firstlineno, code.co_name)
    if key not in _AST_CACHE:
        try:
            src = textwrap.dedent(inspect.getsource(func))
            tree = ast.parse(src).body[0]
        except Exception as e:
            _AST_CACHE[key] = Untranslatable("no source: %r" % (e,))
        else:
            _AST_CACHE[key] = tree
    v = _AST_CACHE[key]
    if isinstance(v, Exception):
        raise v
    return v


def mobius_of(func, formula):
    """(p, q, r, s, digits, literals) with func(x) = (p + q x)/(r + s x), by symbolic execution."""
    se = SymExec()
    if isinstance(formula, str):
        s = formula.replace("%s", "x").replace("%f", "x")
        try:
            body = ast.parse(s.strip(), mode="eval").body
        except SyntaxError as e:
            raise Untranslatable(str(e))
        rf = se.ev(body, {}, "x")
    else:
        if not inspect.isfunction(func):
            raise Untranslatable("not a python function: %r" % (type(func),))
        fn = _func_ast(func)
        env = dict(zip(func.__code__.co_freevars, (c.cell_contents for c in (func.__closure__ or ()))))
        if isinstance(fn, ast.FunctionDef):
            if len(fn.body) != 1 or not isinstance(fn.body[0], ast.Return) or len(fn.args.args) != 1:
                # allow a leading docstring
                body = [b for b in fn.body if not (isinstance(b, ast.Expr) and isinstance(b.value, ast.Constant))]
                if len(body) != 1 or not isinstance(body[0], ast.Return) or len(fn.args.args) != 1:
                    raise Untranslatable("not a single-return function")
                ret = body[0]
            else:
                ret = fn.body[0]
            rf = se.ev(ret.value, env, fn.args.args[0].arg)
        else:
            raise Untranslatable("unsupported callable source")
    if len(rf.n) > 2 or len(rf.d) > 2:
        raise Untranslatable("degree > 1")
    p = rf.n[0]
    q = rf.n[1] if len(rf.n) > 1 else F(0)
    r = rf.d[0]
    s = rf.d[1] if len(rf.d) > 1 else F(0)
    return (p, q, r, s, se.digits, se.lits)


def _ann(func):
    try:
        vals = [getattr(func, "__%s__" % k) for k in "abcd"]
    except AttributeError:
        return None
    try:
        return tuple(frac_of_number(v) for v in vals)
    except ValueError:
        return "bad"


# ------------------------------------------------------------------ reading the databases
def build_db(kind):
    from barril.units.unit_database import UnitDatabase, UnitInfo

    old = UnitInfo.ADD_STR_INFO_TO_UNIT_INFO
    UnitInfo.ADD_STR_INFO_TO_UNIT_INFO = True
    try:
        db = UnitDatabase()
        if kind == "posc":
            UnitDatabase.FillUnitDatabaseWithPosc(db)
        elif kind == "nocat":
            UnitDatabase.FillUnitDatabaseWithPosc(db, fill_categories=False)
        elif kind == "simple":
            UnitDatabase.FillSimple(db)
        else:
            raise ValueError(kind)
    finally:
        UnitInfo.ADD_STR_INFO_TO_UNIT_INFO = old
    return db


def read_units(db):
    rows = []
    for qt, infos in db.quantity_types.items():
        for info in infos:
            row = dict(qtype=qt, name=info.name, sym=info.unit, default_category=info.default_category or None)
            ok = True
            digits = 0
            for side in ("tobase", "frombase"):
                func = getattr(info, side)
                try:
                    p, q, r, s, dg, lits = mobius_of(func, getattr(info, side + "_str", None))
                    digits = max(digits, dg)
                    row[side] = (p, q, r, s)
                    if side == "tobase":
                        # written relative precision of the row (C06): every distinct literal of the
                        # executed to-base formula contributes one part in its decimal mantissa
                        row["prec"] = sum((c06rule.rel_precision(l) for l in sorted(lits)), F(0))
                except Untranslatable as e:
                    ok = False
                    row[side] = (F(0), F(1), F(1), F(0))
                    row[side + "_why"] = str(e)
                row[side + "_hasconv"] = bool(getattr(func, "__has_conversion__", True))
                row[side + "_ann"] = _ann(func)
            row["ok"] = ok and info.quantity_type == qt
            row.setdefault("prec", F(0))
            row["digits"] = digits
            rows.append(row)
    return rows


def read_cats(db):
    cats = []
    for name, ci in db.categories_to_quantity_types.items():
        cats.append(dict(
            name=name, qtype=ci.quantity_type,
            valid_units=None if ci.valid_units is None else list(ci.valid_units),
            default_unit=ci.default_unit or None,
            default_value=frac_of_number(ci.default_value),
            min=None if ci.min_value is None else frac_of_number(ci.min_value),
            max=None if ci.max_value is None else frac_of_number(ci.max_value),
            min_excl=bool(ci.is_min_exclusive), max_excl=bool(ci.is_max_exclusive),
            caption=ci.caption,
            key_matches=(ci.category == name),
        ))
    return cats


def read_consts():
    from barril.units import unit_database as ud
    from barril.units import _unit_constants as uc

    return dict(
        legacy=[(a, b) for a, b in ud._LEGACY_TO_CURRENT],
        unknown_qtype=uc.UNKNOWN_QUANTITY_TYPE,
        unknown_unit=uc.UNKNOWN_UNIT,
        aliases=sorted(ud.UnitDatabase._ADDITIONAL_CATEGORY_ALIASES.items()),
    )


# ------------------------------------------------------------------ Lean emission
def _rat(fr):
    return "(R %s %d)" % (("(%d)" % fr.numerator) if fr.numerator < 0 else str(fr.numerator), fr.denominator)


def _mob(m):
    return "⟨%s,%s,%s,%s⟩" % tuple(_rat(c) for c in m)


def _opt(v, f):
    return "none" if v is None else "(some %s)" % f(v)


def _ann_lean(a):
    if a is None:
        return "none"
    if a == "bad":
        # annotations present but not finite numbers: make annAgree fail
        return "(some (R 1 0, R 1 0, R 1 0, R 1 0))"
    return "(some (%s,%s,%s,%s))" % tuple(_rat(c) for c in a)


def lean_unit(r):
    return "⟨%d,%d,%d,%s,%s,%s,%s,%s,%s,%s,%d,%d⟩" % (
        sym(r["qtype"]), sym(r["name"]), sym(r["sym"]), "true" if r["ok"] else "false",
        _mob(r["tobase"]), _mob(r["frombase"]),
        "true" if r["tobase_hasconv"] else "false", "true" if r["frombase_hasconv"] else "false",
        _ann_lean(r["tobase_ann"]), _ann_lean(r["frombase_ann"]),
        sym(r["default_category"]), r["digits"])


def lean_cat(c):
    return "⟨%d,%d,%s,%d,%s,%s,%s,%s,%s,%d⟩" % (
        sym(c["name"]) if c["key_matches"] else 0, sym(c["qtype"]),
        _opt(c["valid_units"], lambda l: "[" + ",".join(str(sym(u)) for u in l) + "]"),
        sym(c["default_unit"]), _rat(c["default_value"]),
        _opt(c["min"], _rat), _opt(c["max"], _rat),
        "true" if c["min_excl"] else "false", "true" if c["max_excl"] else "false",
        sym(c["caption"]))


HEADER = "-- GENERATED by harness/translate.py from /repo's current source. Do not edit.\n"


class Emitter:
    def __init__(self):
        self.files = {}

    def add(self, name, text):
        self.files[name] = HEADER + text

    def chunked(self, prefix, modprefix, typ, items, imports="import Barril.Model.Basic\n"):
        """Emit items in chunks; returns (list of chunk def names, list of module names)."""
        names, mods = [], []
        n = max(1, (len(items) + CHUNK - 1) // CHUNK)
        for i in range(n):
            part = items[i * CHUNK:(i + 1) * CHUNK]
            dn = "%s%02d" % (prefix, i)
            mn = "%s%02d" % (modprefix, i)
            self.add(mn + ".lean",
                     imports + "set_option maxRecDepth 100000\nnamespace Barril.Gen\nopen Barril\n"
                     "def %s : List %s := [\n%s]\nend Barril.Gen\n" % (dn, typ, ",\n".join(part)))
            names.append(dn)
            mods.append(mn)
        return names, mods

    def write(self):
        os.makedirs(GEN_DIR, exist_ok=True)
        changed = []
        for name, text in self.files.items():
            path = os.path.join(GEN_DIR, name)
            old = None
            if os.path.exists(path):
                with open(path, encoding="utf8") as f:
                    old = f.read()
            if old != text:
                os.makedirs(os.path.dirname(path), exist_ok=True)
                with open(path, "w", encoding="utf8") as f:
                    f.write(text)
                changed.append(name)
        for root, _dirs, files in os.walk(GEN_DIR):
            for fn in files:
                rel = os.path.relpath(os.path.join(root, fn), GEN_DIR)
                if rel.endswith(".lean") and rel not in self.files:
                    os.remove(os.path.join(root, fn))
                    changed.append("-" + rel)
        return changed


# Predicates proved by `decide +kernel` over every chunk of a generated table.  Each entry:
#   tag      theorem suffix
#   pred     Lean predicate applied to one row; "{db}" is replaced by the database constant
#   imports  extra Lean modules
#   kinds    databases it is stated for
#   over     "units" or "cats"
# The combined theorem is `<kind>Units_all_<tag>` / `<kind>Cats_all_<tag>` in module
# `Barril.Gen.Thm<Tag><Kind>`.
TABLE_PREDICATES = [
    dict(tag="wf", pred="UnitRow.wf", imports=["Barril.Model.Conv"], kinds=["posc", "nocat", "simple"], over="units"),
    dict(tag="ann", pred="UnitRow.annAgree", imports=["Barril.Model.Conv"], kinds=["posc", "nocat", "simple"], over="units"),
]


def register_table_predicates():
    """Property modules that need their own generated table theorems extend TABLE_PREDICATES."""
    import tablepreds

    for spec in tablepreds.PREDICATES:
        if spec["tag"] not in [t["tag"] for t in TABLE_PREDICATES]:
            TABLE_PREDICATES.append(spec)


def emit_all(data):
    em = Emitter()
    consts = data["consts"]
    em.add("Consts.lean",
           "import Barril.Model.Basic\nnamespace Barril.Gen\nopen Barril\n"
           "def legacyList : List (Sym × Sym) := [%s]\n"
           "def genUnknownQType : Sym := %d\ndef genUnknownUnit : Sym := %d\n"
           "def categoryAliases : List (Sym × Sym) := [%s]\nend Barril.Gen\n" % (
               ", ".join("(%d, %d)" % (sym(a), sym(b)) for a, b in consts["legacy"]),
               sym(consts["unknown_qtype"]), sym(consts["unknown_unit"]),
               ", ".join("(%d, %d)" % (sym(a), sym(b)) for a, b in consts["aliases"])))

    # G4: the C06 rows recorded as known findings (so the table theorem can say "every row except
    # exactly these")
    import json
    from common import VERIF
    bad = []
    kf = os.path.join(VERIF, "known_findings.json")
    if os.path.exists(kf):
        with open(kf, encoding="utf8") as f:
            for e in json.load(f).get("findings", []):
                if e.get("property") == "C06" and e.get("status") == "known" and "symbol" in e.get("matcher", {}):
                    bad.append(e["matcher"]["symbol"])
    em.add("KnownBad.lean",
           "import Barril.Model.Basic\nnamespace Barril.Gen\nopen Barril\n"
           "/-- unit symbols listed for C06 in /verif/known_findings.json -/\n"
           "def c06KnownBad : List Sym := [%s]\nend Barril.Gen\n" % ", ".join(str(sym(b)) for b in sorted(set(bad))))

    dbs_imports = ["Barril.Gen.Consts"]
    dbs_defs = []
    info = {}
    posc_rows_text = None
    for kind in ("posc", "nocat", "simple"):
        rows = [lean_unit(r) for r in data[kind]["units"]]
        cats = [lean_cat(c) for c in data[kind]["cats"]]
        uname, cname = kind + "Units", kind + "Cats"
        if kind == "posc":
            posc_rows_text = rows
        if kind == "nocat" and rows == posc_rows_text:
            em.add("NocatUnits.lean", "import Barril.Gen.PoscUnits\nnamespace Barril.Gen\nopen Barril\n"
                   "/-- the unit rows read from the category-less POSC database are identical to the\n"
                   "default database's (checked by the translator on this run) -/\n"
                   "def nocatUnits : List UnitRow := poscUnits\nend Barril.Gen\n")
            info[kind] = dict(unit_chunks=[], alias=True)
        else:
            cap = kind.capitalize()
            dnames, mods = em.chunked(kind + "U", cap + "U", "UnitRow", rows)
            em.add(cap + "Units.lean",
                   "".join("import Barril.Gen.%s\n" % m for m in mods) +
                   "namespace Barril.Gen\nopen Barril\ndef %s : List UnitRow := %s\nend Barril.Gen\n" % (
                       uname, " ++ ".join(dnames)))
            info[kind] = dict(unit_chunks=list(zip(dnames, mods)), alias=False)
        cap = kind.capitalize()
        cnames, cmods = em.chunked(kind + "C", cap + "C", "CatRow", cats)
        em.add(cap + "Cats.lean",
               "".join("import Barril.Gen.%s\n" % m for m in cmods) +
               "namespace Barril.Gen\nopen Barril\ndef %s : List CatRow := %s\nend Barril.Gen\n" % (
                   cname, " ++ ".join(cnames)))
        info[kind]["cat_chunks"] = list(zip(cnames, cmods))
        dbs_imports += ["Barril.Gen.%sUnits" % cap, "Barril.Gen.%sCats" % cap]
        dbs_defs.append("def %sDb : Db := ⟨%s, %s, legacyList⟩" % (kind, uname, cname))
    # C06: the compact view of every POSC row (symbol, type, name, slope, written precision, ok) ...
    ident = (F(0), F(1), F(1), F(0))
    crows = ["⟨%d,%d,%d,%s,%s,%s,%d,%s⟩" % (sym(r["sym"]), sym(r["qtype"]), sym(r["name"]),
                                              _rat(r["tobase"][1] / r["tobase"][2]) if r["tobase"][2] != 0 else "(R 0 1)",
                                              _rat(r["prec"]), "true" if r["ok"] else "false", i,
                                              "true" if (tuple(r["tobase"]) == ident and tuple(r["frombase"]) == ident) else "false")
             for i, r in enumerate(data["posc"]["units"])]
    cnames, cmods_c = em.chunked("poscK", "PoscK", "CRow", crows, imports="import Barril.Model.Compound\n")
    em.add("PoscCompact.lean", "".join("import Barril.Gen.%s\n" % m for m in cmods_c) +
           "namespace Barril.Gen\nopen Barril\n/-- compact rows of the default database, same order as `poscUnits` -/\n"
           "def poscC : List CRow := %s\nend Barril.Gen\n" % " ++ ".join(cnames))
    c06_chunks = list(zip(cnames, cmods_c))
    # ... a balanced search tree over the same rows (by symbol code) and the base row of every quantity type: an
    # index for the kernel only, proved equal to the list lookups (Barril/Proofs/CompoundIndexLemmas.lean)
    by_sym = sorted(zip((sym(r["sym"]) for r in data["posc"]["units"]), crows))
    SUB_DEPTH = 4
    subtrees = []

    def build(lo, hi, depth):
        if lo >= hi:
            return "CTree.leaf"
        if depth == SUB_DEPTH:
            name = "poscT%02d" % len(subtrees)
            subtrees.append((name, build(lo, hi, depth + 1)))
            return name
        mid = (lo + hi) // 2
        return "(CTree.node %s %s %s)" % (build(lo, mid, depth + 1), by_sym[mid][1], build(mid + 1, hi, depth + 1))

    top = build(0, len(by_sym), 0)
    for name, body in subtrees:
        em.add("PoscT%s.lean" % name[5:],
               "import Barril.Model.CompoundIndex\nset_option maxRecDepth 100000\nnamespace Barril.Gen\nopen Barril\n"
               "def %s : CTree := %s\nend Barril.Gen\n" % (name, body))
    em.add("PoscTree.lean", "".join("import Barril.Gen.PoscT%s\n" % n[5:] for n, _b in subtrees) +
           "set_option maxRecDepth 100000\nnamespace Barril.Gen\nopen Barril\n"
           "/-- search tree over the rows of `poscC`, by symbol code -/\ndef poscTree : CTree := %s\nend Barril.Gen\n" % top)
    c06_subtrees = [n for n, _b in subtrees]
    bases, seen_qt = [], set()
    for r, cr in zip(data["posc"]["units"], crows):
        if r["qtype"] not in seen_qt:
            seen_qt.add(r["qtype"])
            bases.append("(%d, %s)" % (sym(r["qtype"]), cr))
    bnames, bmods = em.chunked("poscB", "PoscB", "(Sym × CRow)", bases, imports="import Barril.Model.Compound\n")
    em.add("PoscBases.lean", "".join("import Barril.Gen.%s\n" % m for m in bmods) +
           "namespace Barril.Gen\nopen Barril\n/-- quantity type ↦ its first-listed row -/\n"
           "def poscBases : List (Sym × CRow) := %s\nend Barril.Gen\n" % " ++ ".join(bnames))
    c06_bases = list(zip(bnames, bmods))
    em.add("Dbs.lean", "".join("import %s\n" % m for m in dbs_imports) +
           "namespace Barril.Gen\nopen Barril\n" + "\n".join(dbs_defs) + "\nend Barril.Gen\n")

    # ---- per-chunk theorems (decide +kernel) and their combination
    register_table_predicates()
    for spec in TABLE_PREDICATES:
        tag, over = spec["tag"], spec["over"]
        needs_db = "{db}" in spec["pred"]
        for kind in spec["kinds"]:
            cap = kind.capitalize()
            listname = kind + ("Units" if over == "units" else "Cats")
            pred = spec["pred"].replace("{db}", "Barril.Gen.%sDb" % kind)
            allname = "%s_all_%s" % (listname, tag)
            allmod = "Thm%s%s" % (tag.capitalize(), cap)
            alias = over == "units" and info[kind]["alias"]
            if alias and not needs_db:
                em.add(allmod + ".lean",
                       "import Barril.Gen.Thm%sPosc\nimport Barril.Gen.Dbs\nnamespace Barril.Gen\nopen Barril\n"
                       "theorem %s : %s.all (%s) = true := poscUnits_all_%s\nend Barril.Gen\n" % (
                           tag.capitalize(), allname, listname, pred, tag))
                continue
            src = "posc" if alias else kind
            chunks = info[src]["unit_chunks" if over == "units" else "cat_chunks"]
            thms, mods = [], []
            for dn, mn in chunks:
                tn = "%s_%s_%s" % (dn, tag, kind)
                mod = "Thm%s%s%s" % (tag.capitalize(), cap, mn)
                imps = ["Barril.Gen.Dbs"] if needs_db else ["Barril.Gen.%s" % mn]
                em.add(mod + ".lean",
                       "".join("import %s\n" % m for m in imps + spec["imports"]) +
                       "set_option maxRecDepth 100000\nnamespace Barril.Gen\nopen Barril\n"
                       "theorem %s : %s.all (%s) = true := by decide +kernel\nend Barril.Gen\n" % (tn, dn, pred))
                thms.append(tn)
                mods.append(mod)
            unfold = [listname] + (["poscUnits"] if alias else [])
            em.add(allmod + ".lean",
                   "".join("import Barril.Gen.%s\n" % m for m in mods) + "import Barril.Gen.Dbs\n" +
                   "".join("import %s\n" % m for m in spec["imports"]) +
                   "set_option linter.unusedSimpArgs false\nnamespace Barril.Gen\nopen Barril\n"
                   "theorem %s : %s.all (%s) = true := by\n  simp only [%s, List.all_append, List.all_nil, %s, Bool.and_self]\n"
                   "end Barril.Gen\n" % (allname, listname, pred, ", ".join(unfold), ", ".join(thms)))
    # ... tied to the full rows chunk by chunk, and the C06 table theorem over it
    if not info["posc"]["alias"]:
        ucs = info["posc"]["unit_chunks"]
        core_thms, core_mods, c06_thms, c06_mods, idx_mods = [], [], [], [], []
        for (kn, km), (un, um) in zip(c06_chunks, ucs):
            tn = "%s_core" % kn
            mod = "ThmCore%s" % km
            em.add(mod + ".lean",
                   "import Barril.Gen.%s\nimport Barril.Gen.%s\nset_option maxRecDepth 100000\nnamespace Barril.Gen\nopen Barril\n"
                   "theorem %s : %s.map CRow.core = %s.map UnitRow.core := by decide +kernel\nend Barril.Gen\n" % (km, um, tn, kn, un))
            core_thms.append(tn)
            core_mods.append(mod)
            mod = "ThmIdx%s" % km
            em.add(mod + ".lean",
                   "import Barril.Gen.PoscTree\nimport Barril.Gen.PoscBases\nimport Barril.Gen.%s\n"
                   "set_option maxRecDepth 100000\nnamespace Barril.Gen\nopen Barril\n"
                   "/-- every row of the chunk is found in the index -/\n"
                   "theorem %s_idx : %s.all (fun c => poscTree.find c.sym == some c) = true := by decide +kernel\n"
                   "/-- the quantity type of every row has an entry in the base index -/\n"
                   "theorem %s_bas : %s.all (fun c => (lookB c.qtype poscBases).isSome) = true := by decide +kernel\n"
                   "end Barril.Gen\n" % (km, kn, kn, kn, kn))
            idx_mods.append(mod)
            mod = "ThmC06%s" % km
            em.add(mod + ".lean",
                   "import Barril.Gen.PoscTree\nimport Barril.Gen.PoscBases\nimport Barril.Gen.KnownBad\nimport Barril.Gen.%s\n"
                   "set_option maxRecDepth 100000\nnamespace Barril.Gen\nopen Barril\n"
                   "/-- the C06 row predicate, evaluated through the index -/\n"
                   "theorem %s_c06 : %s.all (compoundOkOrKnownT poscTree poscBases c06KnownBad) = true := by decide +kernel\n"
                   "end Barril.Gen\n" % (km, kn, kn))
            c06_thms.append(kn)
            c06_mods.append(mod)
        em.add("ThmCorePosc.lean",
               "".join("import Barril.Gen.%s\n" % m for m in core_mods) + "import Barril.Gen.PoscCompact\nimport Barril.Gen.PoscUnits\n"
               "set_option linter.unusedSimpArgs false\nnamespace Barril.Gen\nopen Barril\n"
               "/-- the compact table is the default database's unit table, row by row -/\n"
               "theorem poscC_core : poscC.map CRow.core = poscUnits.map UnitRow.core := by\n"
               "  simp only [poscC, poscUnits, List.map_append, %s]\n"
               "/-- every row of the compact table carries its position in the table -/\n"
               "theorem poscC_pos : poscC.map CRow.pos = List.range poscC.length := by decide +kernel\n"
               "end Barril.Gen\n" % ", ".join(core_thms))
        # everything stored in the index is a row of the table (per subtree, then the inner nodes)
        sub_mods = []
        for tn_ in c06_subtrees:
            mod = "ThmIdxSub%s" % tn_[5:]
            em.add(mod + ".lean",
                   "import Barril.Gen.PoscTree\nimport Barril.Gen.PoscCompact\nset_option maxRecDepth 100000\n"
                   "namespace Barril.Gen\nopen Barril\n"
                   "theorem %s_back : %s.toList.all (fun c => lookL c.sym poscC == some c) = true := by decide +kernel\n"
                   "end Barril.Gen\n" % (tn_, tn_))
            sub_mods.append(mod)
        base_mods = []
        for bn, bm in c06_bases:
            mod = "ThmIdx%s" % bm
            em.add(mod + ".lean",
                   "import Barril.Gen.PoscBases\nimport Barril.Gen.PoscCompact\nset_option maxRecDepth 100000\n"
                   "namespace Barril.Gen\nopen Barril\n"
                   "theorem %s_base : %s.all (fun p => baseL p.1 poscC == some p.2) = true := by decide +kernel\n"
                   "end Barril.Gen\n" % (bn, bn))
            base_mods.append(mod)
        hyps = " ".join("(h%d : %s.all P = true)" % (i, kn) for i, (kn, _km) in enumerate(c06_chunks))
        em.add("ThmIdxPosc.lean",
               "".join("import Barril.Gen.%s\n" % m for m in idx_mods + sub_mods + base_mods) +
               "set_option linter.unusedSimpArgs false\nset_option maxRecDepth 100000\nnamespace Barril.Gen\nopen Barril\n"
               "theorem poscC_all_of_chunks (P : CRow → Bool) %s : poscC.all P = true := by\n"
               "  simp only [poscC, List.all_append, %s, Bool.and_self]\n"
               "/-- every row of the table is found in the index -/\n"
               "theorem poscTree_complete : poscC.all (fun c => poscTree.find c.sym == some c) = true :=\n"
               "  poscC_all_of_chunks _ %s\n"
               "/-- everything stored in the index is a row of the table -/\n"
               "theorem poscTree_sound : poscTree.toList.all (fun c => lookL c.sym poscC == some c) = true := by\n"
               "  simp only [poscTree, CTree.toList, List.all_append, List.all_cons, List.all_nil, %s, Bool.true_and, Bool.and_true]\n"
               "  decide +kernel\n"
               "theorem poscBases_sound : poscBases.all (fun p => baseL p.1 poscC == some p.2) = true := by\n"
               "  simp only [poscBases, List.all_append, %s, Bool.and_self]\n"
               "/-- the first-listed row of every quantity type is an identity -/\n"
               "theorem poscBases_ident : poscBases.all (fun p => p.2.ident) = true := by decide +kernel\n"
               "theorem poscBases_complete : poscC.all (fun c => (lookB c.qtype poscBases).isSome) = true :=\n"
               "  poscC_all_of_chunks _ %s\nend Barril.Gen\n" % (
                   hyps, ", ".join("h%d" % i for i in range(len(c06_chunks))),
                   " ".join(k + "_idx" for k in c06_thms),
                   ", ".join(t + "_back" for t in c06_subtrees),
                   ", ".join(bn + "_base" for bn, _bm in c06_bases),
                   " ".join(k + "_bas" for k in c06_thms)))
        em.add("ThmC06Posc.lean",
               "".join("import Barril.Gen.%s\n" % m for m in c06_mods) +
               "import Barril.Gen.ThmIdxPosc\nimport Barril.Proofs.CompoundIndexLemmas\n"
               "namespace Barril.Gen\nopen Barril\n"
               "theorem poscC_all_c06_indexed : poscC.all (compoundOkOrKnownT poscTree poscBases c06KnownBad) = true :=\n"
               "  poscC_all_of_chunks _ %s\n"
               "/-- the C06 table theorem, stated through the plain list lookups -/\n"
               "theorem poscC_all_c06 : poscC.all (compoundOkOrKnown poscC c06KnownBad) = true :=\n"
               "  compoundOkOrKnown_of_index poscTree_complete poscTree_sound poscBases_sound poscBases_complete\n"
               "    poscC_all_c06_indexed\nend Barril.Gen\n" % " ".join(k + "_c06" for k in c06_thms))
    # G5: definitions translated from the source text of selected functions (harness/pycode.py); they are not part
    # of All.lean (the tables must not depend on model files), the bridge modules import them one by one
    import pycode
    code_files, code_report = pycode.generate()
    for n, t in code_files.items():
        em.add(n, t)
    data["code"] = code_report
    em.add("All.lean", "".join("import Barril.Gen.%s\n" % n[:-5].replace("/", ".") for n in sorted(em.files)
                                if n != "All.lean" and not n.startswith("Code")))
    return em


def read_all():
    load_barril()
    data = {"consts": read_consts()}
    for kind in ("posc", "nocat", "simple"):
        db = build_db(kind)
        data[kind] = dict(units=read_units(db), cats=read_cats(db))
    return data


def translate():
    """Regenerate Gen/; returns (data, list of changed files)."""
    data = read_all()
    em = emit_all(data)
    changed = em.write()
    return data, changed


if __name__ == "__main__":
    import time

    t0 = time.time()
    d, ch = translate()
    print("units", {k: len(d[k]["units"]) for k in ("posc", "nocat", "simple")},
          "cats", {k: len(d[k]["cats"]) for k in ("posc", "nocat", "simple")})
    print("opaque rows:", [(k, r["sym"]) for k in ("posc", "nocat", "simple") for r in d[k]["units"] if not r["ok"]])
    print("changed files:", len(ch), "in %.1fs" % (time.time() - t0))
