"""CLI of the verification machinery (see DESIGN.md section 2 and 10)."""
import argparse
import os
import sys
import traceback

sys.path.insert(0, os.path.dirname(os.path.abspath(__file__)))
import common  # noqa: E402
import engine  # noqa: E402


def setup():
    """Clean offline build of the whole Lean side from files on disk."""
    import translate

    common.load_barril()
    with common.Lock():
        translate.translate()
        # table theorems that are false on the current tree must not stop the rest from building
        import re
        with open(os.path.join(common.LEAN_DIR, "lakefile.toml"), encoding="utf8") as f:
            exes = re.findall(r'^name = "(drv_[^"]+)"', f.read(), flags=re.M)
        import bridges
        bridge_mods = sorted({m for ms in bridges.BRIDGES.values() for m in ms})
        rc, out, err, dt = common.run(["lake", "build", "Barril"] + bridge_mods + exes, timeout=7200)
        sys.stdout.write((out + err)[-3000:])
        print("setup: lake build exit %d in %.0fs" % (rc, dt))
    return 0


def main():
    ap = argparse.ArgumentParser()
    ap.add_argument("pid", nargs="?")
    ap.add_argument("--tier", default=os.environ.get("VERIF_TIER", "quick"), choices=["quick", "thorough"])
    ap.add_argument("--replay")
    ap.add_argument("--setup", action="store_true")
    ap.add_argument("--corr-only", action="store_true", help=argparse.SUPPRESS)
    ap.add_argument("--budget", type=float, default=90.0, help=argparse.SUPPRESS)
    ap.add_argument("--out", help=argparse.SUPPRESS)
    a = ap.parse_args()
    seed = int(os.environ.get("VERIF_SEED", "0") or 0)
    try:
        if a.setup:
            return setup()
        if not a.pid:
            ap.error("property id required")
        if a.replay:
            return engine.replay(a.pid, a.replay)
        if a.corr_only:
            return engine.corr_only(a.pid, seed, a.budget, a.out)
        return engine.check(a.pid, a.tier, seed)
    except common.Infra as e:
        print("INFRASTRUCTURE ERROR (no verdict): %s" % e)
        return 2
    except Exception:
        print("INFRASTRUCTURE ERROR (no verdict): unexpected exception\n" + traceback.format_exc())
        return 2


if __name__ == "__main__":
    sys.exit(main())
