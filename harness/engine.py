"""The pipeline of one check (DESIGN.md section 2): translate -> build -> audit -> correspondence ->
known findings -> verdict -> evidence.  Property modules (harness/props/Cxx.py) plug into it."""
import hashlib
import importlib
import json
import os
import random
import re
import sys
import time
import traceback

import common
from common import (ACCEPTED_AXIOMS, EVIDENCE_DIR, LEAN_DIR, REPLAY_DIR, TRUSTED_BASE, VERIF, Infra, Lock, dumps,
                    load_barril, run)

FORBIDDEN = re.compile(r"\b(sorry|admit|native_decide|bv_decide|implemented_by|unsafe)\b|^\s*axiom\s|maxHeartbeats\s+0\b")


def load_prop(pid):
    sys.path.insert(0, os.path.join(VERIF, "harness", "props"))
    try:
        return importlib.import_module(pid)
    except ImportError as e:
        raise Infra("no property module %s: %r" % (pid, e))


# ------------------------------------------------------------------------------------------ Lean side
def strip_comments(text):
    text = re.sub(r"/-.*?-/", "", text, flags=re.S)
    return re.sub(r"--.*", "", text)


def grep_forbidden():
    hits = []
    for root in (os.path.join(LEAN_DIR, "Barril"), os.path.join(LEAN_DIR, "Drivers")):
        for d, _dirs, files in os.walk(root):
            for fn in files:
                if fn.endswith(".lean"):
                    p = os.path.join(d, fn)
                    with open(p, encoding="utf8") as f:
                        body = strip_comments(f.read())
                    for i, line in enumerate(body.splitlines()):
                        if FORBIDDEN.search(line):
                            hits.append("%s:%d: %s" % (os.path.relpath(p, LEAN_DIR), i + 1, line.strip()[:100]))
    return hits


def theorems_of(module):
    """Fully qualified names of the theorems stated in a property module (they are the obligations)."""
    path = os.path.join(LEAN_DIR, module.replace(".", "/") + ".lean")
    with open(path, encoding="utf8") as f:
        body = strip_comments(f.read())
    ns = []
    names = []
    for line in body.splitlines():
        m = re.match(r"\s*namespace\s+(\S+)", line)
        if m:
            ns.append(m.group(1))
            continue
        m = re.match(r"\s*end\s+(\S+)", line)
        if m and ns and ns[-1] == m.group(1):
            ns.pop()
            continue
        m = re.match(r"\s*(?:@\[[^\]]*\]\s*)?(?:private\s+|protected\s+)?theorem\s+(\S+)", line)
        if m:
            names.append(".".join(ns + [m.group(1)]))
    return names


def lake_build(targets):
    """Build; returns (ok, failed module names, log)."""
    rc, out, err, dt = run(["lake", "build"] + targets, timeout=3000)
    log = out + err
    failed = sorted(set(re.findall(r"^- (\S+)$", log, flags=re.M)))
    return rc == 0, failed, log, dt


def audit(modules):
    """`#print axioms` for every theorem of the property modules.  Returns (obligations, discharged, problems)."""
    thms = []
    for m in modules:
        thms += [(m, t) for t in theorems_of(m)]
    os.makedirs(os.path.join(LEAN_DIR, ".audit"), exist_ok=True)
    tag = hashlib.sha1(" ".join(modules).encode()).hexdigest()[:10]
    path = os.path.join(LEAN_DIR, ".audit", "Audit_%s.lean" % tag)
    with open(path, "w", encoding="utf8") as f:
        for m in modules:
            f.write("import %s\n" % m)
        for _m, t in thms:
            f.write("#print axioms %s\n" % t)
    rc, out, err, dt = run(["lake", "env", "lean", path], timeout=1200)
    text = out + err
    ok, problems = [], []
    for _m, t in thms:
        m1 = re.search(r"'%s' depends on axioms: \[([^\]]*)\]" % re.escape(t), text)
        m0 = re.search(r"'%s' does not depend on any axioms" % re.escape(t), text)
        if m0:
            ok.append(t)
        elif m1:
            axs = {a.strip() for a in m1.group(1).replace("\n", " ").split(",") if a.strip()}
            if axs <= ACCEPTED_AXIOMS:
                ok.append(t)
            else:
                problems.append("theorem %s uses axioms %s" % (t, sorted(axs - ACCEPTED_AXIOMS)))
        else:
            problems.append("theorem %s not found by the audit" % t)
    if rc != 0 and not problems:
        problems.append("audit file failed to elaborate: " + text[-400:])
    return [t for _m, t in thms], ok, problems, dt


def barril_closure(modules):
    """The Barril.* modules imported (transitively) by the given modules."""
    seen, todo = [], list(modules)
    while todo:
        m = todo.pop()
        if m in seen or not m.startswith("Barril."):
            continue
        path = os.path.join(LEAN_DIR, m.replace(".", "/") + ".lean")
        if not os.path.exists(path):
            continue
        seen.append(m)
        with open(path, encoding="utf8") as f:
            for line in f:
                mm = re.match(r"\s*import\s+(Barril\.\S+)", line)
                if mm:
                    todo.append(mm.group(1))
    return sorted(seen)


def leanchecker(modules):
    """Independent re-check of the compiled property, lemma and table-theorem modules (thorough tier)."""
    mods = [m for m in barril_closure(modules)
            if m.startswith(("Barril.Props.", "Barril.Proofs.", "Barril.Gen.Thm"))]
    mods += [m for m in modules if m.startswith("Barril.Bridge.") and m not in mods]
    rc, out, err, dt = run(["lake", "env", "leanchecker"] + mods, timeout=3000)
    if rc != 0 and not (out + err).strip():
        # a checker that dies without a message (killed under memory pressure: it needs up to 5 GB) has not rejected
        # anything; once more, then it is an infrastructure error - never a verdict
        rc, out, err, dt2 = run(["lake", "env", "leanchecker"] + mods, timeout=3000)
        dt += dt2
        if rc != 0 and not (out + err).strip():
            raise Infra("leanchecker exited %d twice without any output (killed?)" % rc)
    return rc == 0, (out + err)[-600:], len(mods), dt


def run_driver(exe, lines, timeout=3000):
    path = os.path.join(LEAN_DIR, ".lake", "build", "bin", exe)
    if not os.path.exists(path):
        raise Infra("driver %s is not built" % exe)
    rc, out, err, dt = run([path], input="\n".join(lines) + "\n", timeout=timeout)
    if rc != 0:
        raise Infra("driver %s failed: %s" % (exe, err[-500:]))
    res = [json.loads(l) for l in out.splitlines() if l.strip()]
    if len(res) != len(lines):
        raise Infra("driver %s answered %d lines for %d" % (exe, len(res), len(lines)))
    return res, dt


# ------------------------------------------------------------------------------------------ findings
def load_findings(pid):
    path = os.path.join(VERIF, "known_findings.json")
    if not os.path.exists(path):
        return []
    with open(path, encoding="utf8") as f:
        data = json.load(f)
    return [e for e in data.get("findings", []) if e.get("property") == pid and e.get("status") == "known"]


# ------------------------------------------------------------------------------------------ verdicts
def write_replay(pid, payload):
    os.makedirs(REPLAY_DIR, exist_ok=True)
    h = hashlib.sha1(dumps(payload).encode()).hexdigest()[:12]
    path = os.path.join(REPLAY_DIR, "%s-%s.json" % (pid, h))
    with open(path, "w", encoding="utf8") as f:
        json.dump(payload, f, indent=1, sort_keys=True, default=str)
    return os.path.relpath(path, VERIF)


def write_evidence(pid, tier, seed, coverage, wall, violations, assumptions):
    os.makedirs(EVIDENCE_DIR, exist_ok=True)
    ev = dict(property_id=pid, tier=tier, seed=seed, level="proof", coverage=coverage,
              assumptions=assumptions, wall_s=round(wall, 2), violations=violations)
    with open(os.path.join(EVIDENCE_DIR, pid + ".json"), "w", encoding="utf8") as f:
        json.dump(ev, f, indent=1, sort_keys=True, default=str)


class Ctx:
    """What a property module gets: tier, seeded rng, the translated data, scratch space."""

    def __init__(self, tier, seed, data):
        self.tier = tier
        self.seed = seed
        self.data = data
        self.rng = random.Random(seed * 1000003 + 17)
        self.notes = {}

    def fresh_rng(self, salt):
        return random.Random("%d/%s" % (self.seed, salt))


def check(pid, tier, seed):
    t0 = time.time()
    prop = load_prop(pid)
    load_barril()
    import translate

    lc_info = None
    breaks = []  # (kind, detail) : proof obligations / correspondences that no longer check
    candidates = []  # cases the failing-input search should try first
    with Lock():
        data, changed = translate.translate()
        import bridges
        bridge_mods, bridge_skipped = bridges.modules_for(pid)
        targets = list(prop.LEAN_MODULES) + bridge_mods + list(getattr(prop, "DRIVERS", []))
        ok, failed, log, bdt = lake_build(targets)
        if not ok:
            # a definition generated from the source text (Gen.Code*) that no longer elaborates is a broken tie
            # between code and model, like a bridge theorem that no longer checks - not an infrastructure error
            code_fail = [m for m in failed if m.startswith("Barril.Gen.Code")]
            for m in code_fail:
                breaks.append(("bridge", "the definitions generated from the current source text (%s) no longer "
                                         "elaborate: %s" % (m, "; ".join(re.findall(r"error: ([^\n]*)", log)[:3])[:300])))
            data_fail = [m for m in failed if re.match(r"Barril\.Gen\.(?!Thm)(?!Code)", m)]
            model_fail = [m for m in failed if not m.startswith("Barril.Gen.")]
            if data_fail:
                raise Infra("generated data does not elaborate: %s\n%s" % (data_fail, log[-1500:]))
            thm_fail = [m for m in failed if m.startswith("Barril.Gen.Thm")]
            # theorem and lemma modules can stop checking because of the regenerated tables they are stated over
            # (they build on the unchanged tree: setup and every earlier run); model and driver sources cannot
            bridge_fail = [m for m in model_fail if m.startswith("Barril.Bridge.")]
            for m in bridge_fail:
                if not code_fail:
                    err = re.findall(r"error: (%s[^\n]*)" % re.escape(m.replace(".", "/")), log)
                    untr = [r for r in data.get("code", []) if not r.get("translated")
                            and r["function"] in bridges.GENERATED_FROM.get(m, [])]
                    breaks.append(("bridge", "bridge module %s no longer checks: the definition generated from the "
                                             "current source text of %s is no longer proved equal to the model%s: %s" % (
                        m, ", ".join(bridges.GENERATED_FROM.get(m, [])),
                        (" (outside the translatable subset: %s)" % untr[0]["why"]) if untr else "",
                        "; ".join(err[:3])[:300])))
            model_fail = [m for m in model_fail if m not in bridge_fail]
            stated_fail = [m for m in model_fail if m.startswith(("Barril.Props.", "Barril.Proofs."))]
            other_fail = [m for m in model_fail if m not in stated_fail]
            if other_fail and not thm_fail and not bridge_fail and not code_fail:
                raise Infra("hand-written Lean no longer builds: %s\n%s" % (other_fail, log[-3000:]))
            for m in thm_fail:
                breaks.append(("theorem", "table theorem module %s no longer checks (decide +kernel is false on "
                                          "the regenerated rows)" % m))
            if not thm_fail:
                for m in stated_fail:
                    err = re.findall(r"error: (%s[^\n]*)" % re.escape(m.replace(".", "/")), log)
                    breaks.append(("theorem", "module %s no longer checks against the regenerated tables: %s" % (
                        m, "; ".join(err[:3])[:300])))
            # the drivers do not depend on theorem modules: build them on their own
            ok2, failed2, log2, _ = lake_build(list(getattr(prop, "DRIVERS", [])))
            if not ok2:
                raise Infra("driver does not build: %s\n%s" % (failed2, log2[-1500:]))
        # non-vacuity examples live in their own modules (Props/CxxExamples.lean): they evaluate concrete
        # instances, many over the regenerated tables, so a changed table value may stop them from evaluating as
        # recorded without touching a theorem; that is recorded, it is neither a proof obligation nor a verdict
        examples_note = None
        ex_mods = [m + "Examples" for m in prop.LEAN_MODULES
                   if os.path.exists(os.path.join(LEAN_DIR, (m + "Examples").replace(".", "/") + ".lean"))]
        if ex_mods:
            ok_ex, failed_ex, _log_ex, _ = lake_build(ex_mods)
            examples_note = dict(modules=ex_mods, build_ok=ok_ex,
                                 failed=[m for m in failed_ex if m.endswith("Examples")])
        obligations, discharged, problems = [], [], []
        adt = 0.0
        if ok:
            obligations, discharged, problems, adt = audit(list(prop.LEAN_MODULES) + bridge_mods)
            for p in problems:
                breaks.append(("audit", p))
        else:
            for m in list(prop.LEAN_MODULES) + bridge_mods:
                obligations += theorems_of(m)
        if ok and tier == "thorough":
            lc_ok, lc_log, lc_n, lc_dt = leanchecker(list(prop.LEAN_MODULES) + bridge_mods)
            lc_info = dict(modules=lc_n, ok=lc_ok, seconds=round(lc_dt, 1))
            if not lc_ok:
                breaks.append(("audit", "leanchecker rejects the compiled modules: " + lc_log))
        hits = grep_forbidden()
        for h in hits:
            breaks.append(("audit", "forbidden token: " + h))
    import fingerprints
    moved = fingerprints.changed(pid)
    ctx = Ctx(tier, seed, data)
    if examples_note is not None:
        ctx.notes["non_vacuity_examples"] = examples_note
    if moved:
        ctx.notes["source_changed_since_fingerprint"] = moved
    if bridge_mods or bridge_skipped:
        want = {f for m in bridge_mods for f in bridges.GENERATED_FROM.get(m, [])}
        ctx.notes["code_regenerated_from_source"] = dict(
            bridge_modules=bridge_mods, skipped_in_private_lean_copy=bridge_skipped,
            functions=[r for r in data.get("code", []) if r["function"] in want])
    if hasattr(prop, "setup"):
        prop.setup(ctx)
    if breaks and hasattr(prop, "table_candidates"):
        candidates += list(prop.table_candidates(ctx))

    # ---- correspondence
    stats = dict(evaluations=0, agree=0, disagree=0, kinds={}, errors={})
    nontrivial = set()
    samples = []
    disagreements = []
    cases = list(prop.cases(ctx))
    impl_out = []
    for c in cases:
        try:
            impl_out.append(prop.impl(c, ctx))
        except Infra:
            raise
        except Exception as e:  # an impl wrapper must never raise: that is a harness bug
            raise Infra("impl wrapper raised on %r: %s" % (c, traceback.format_exc()[-800:]))
    lines = [dumps(prop.model_line(c) if hasattr(prop, "model_line") else c) for c in cases]
    model_out, ddt = ([], 0.0)
    if cases:
        model_out, ddt = run_driver(prop.DRIVER_EXE, lines)
    for c, io, mo in zip(cases, impl_out, model_out):
        stats["evaluations"] += 1
        k = c.get("op", "?")
        stats["kinds"][k] = stats["kinds"].get(k, 0) + 1
        if isinstance(io, dict) and "err" in io:
            stats["errors"][io["err"]] = stats["errors"].get(io["err"], 0) + 1
        if "bad" in mo:
            raise Infra("driver rejected %r: %s" % (c, mo["bad"]))
        why = prop.agree(c, io, mo, ctx)
        if why is None:
            stats["agree"] += 1
            if prop.nontrivial(c, io):
                nontrivial.add(hashlib.sha1(dumps(prop.case_key(c) if hasattr(prop, "case_key") else c).encode()).digest()[:8])
            if len(samples) < 5 and (stats["evaluations"] % max(1, len(cases) // 5) == 0):
                samples.append(dict(case=prop.show(c) if hasattr(prop, "show") else c, impl=io, model=mo))
        else:
            stats["disagree"] += 1
            if len(disagreements) < 200:
                disagreements.append(dict(case=c, impl=io, model=mo, why=why))
    # where the code moved since the model last agreed with it, the correspondence digs deeper (DESIGN section 5):
    # a second pass with the thorough generators, in batches, for a bounded time
    if moved and tier == "quick" and not disagreements and not breaks:
        budget = float(os.environ.get("BARRIL_ESCALATE_S", "90"))
        t_esc = time.time()
        # in a fresh process: property modules may keep per-process state in their generators
        out_path = os.path.join(LEAN_DIR, ".audit", "escalate_%s_%d.json" % (pid, os.getpid()))
        rc, out, err, _dt = run([sys.executable, os.path.join(VERIF, "harness", "main.py"), pid, "--corr-only",
                                 "--budget", str(budget), "--out", out_path], cwd=VERIF, timeout=3000)
        if rc != 0 or not os.path.exists(out_path):
            raise Infra("escalation pass failed: %s" % (out + err)[-800:])
        with open(out_path, encoding="utf8") as f:
            esc = json.load(f)
        os.remove(out_path)
        stats["evaluations"] += esc["evaluations"]
        stats["agree"] += esc["agree"]
        stats["disagree"] += esc["disagree"]
        nontrivial.update(bytes.fromhex(h) for h in esc["nontrivial"])
        disagreements += esc["disagreements"]
        ctx.notes["escalated_cases_thorough_generators"] = esc["evaluations"]
        ctx.notes["escalation_seconds"] = round(time.time() - t_esc, 1)
    if disagreements:
        breaks.append(("correspondence", "%d of %d cases: model and implementation differ; first: %s" % (
            stats["disagree"], stats["evaluations"], dumps(dict(case=prop.show(disagreements[0]["case"]) if hasattr(prop, "show") else disagreements[0]["case"],
                                                               impl=disagreements[0]["impl"], model=disagreements[0]["model"],
                                                               why=disagreements[0]["why"]))[:600])))
        candidates = [d["case"] for d in disagreements] + candidates
    if not samples and cases:
        samples.append(dict(case=prop.show(cases[0]) if hasattr(prop, "show") else cases[0], impl=impl_out[0], model=model_out[0]))

    # ---- known findings (replayed on the real code)
    known = load_findings(pid)
    known_lines = []
    for e in known:
        try:
            f = prop.replay_finding(e, ctx)
        except Exception:
            f = "replay raised: " + traceback.format_exc()[-300:]
        if f:
            known_lines.append("KNOWN-FINDING: property=%s %s" % (pid, e["what"]))
            print(known_lines[-1])
        else:
            ctx.notes.setdefault("findings_no_longer_reproduce", []).append(e.get("id"))

    # ---- verdict
    violations = 0
    if breaks:
        failure = None
        t_search = time.time()
        budget = 60 if tier == "quick" else 600
        tried = 0

        def is_known(case, f):
            return any(prop.matches_known(e, case, f) for e in known) if hasattr(prop, "matches_known") else False

        for c in candidates:
            tried += 1
            f = prop.oracle(c, ctx)
            if f and not is_known(c, f):
                failure = (c, f)
                break
        if failure is None:
            for c in prop.search(ctx) if hasattr(prop, "search") else cases:
                if time.time() - t_search > budget:
                    break
                tried += 1
                f = prop.oracle(c, ctx)
                if f and not is_known(c, f):
                    failure = (c, f)
                    break
        if failure is not None and hasattr(prop, "shrink"):
            failure = prop.shrink(failure[0], failure[1], ctx)
        payload = dict(property=pid, tier=tier, seed=seed,
                       broken=[dict(kind=k, detail=d) for k, d in breaks])
        if failure is not None:
            payload.update(kind="failing-input", case=failure[0], failure=failure[1])
            path = write_replay(pid, payload)
            print("VIOLATION property=%s replay=%s" % (pid, path))
        else:
            payload.update(kind="no-failing-input-found", searched=tried,
                           note="a proof obligation or the model/implementation correspondence no longer "
                                "checks, so the property is no longer shown to hold; the search for a concrete "
                                "failing input on the real code found none")
            path = write_replay(pid, payload)
            print("VIOLATION property=%s replay=%s no-failing-input-found" % (pid, path))
        for k, d in breaks[:10]:
            print("  broken %s: %s" % (k, d[:400]))
        violations = 1

    coverage = dict(
        obligations=len(obligations), discharged=len(discharged),
        checker_cmd="cd lean && lake build %s && lake env lean .audit/Audit_*.lean  (#print axioms per theorem)" % " ".join(prop.LEAN_MODULES),
        trusted_base=TRUSTED_BASE + list(getattr(prop, "TRUSTED_EXTRA", [])),
        theorems=obligations,
        evaluations=stats["evaluations"], distinct_nontrivial=len(nontrivial),
        rule=getattr(prop, "RULE", ""), samples=samples,
        traces_validated_against_impl=stats["agree"],
        correspondence=dict(agree=stats["agree"], disagree=stats["disagree"], op_kinds=stats["kinds"],
                            impl_error_kinds=stats["errors"]),
        generated_files_changed=len(changed), build_s=round(bdt, 1), audit_s=round(adt, 1), driver_s=round(ddt, 1),
        known_findings_reproduced=len(known_lines), notes=ctx.notes, leanchecker=lc_info,
        exhaustive=bool(getattr(prop, "EXHAUSTIVE", {}).get(tier, False)),
    )
    write_evidence(pid, tier, seed, coverage, time.time() - t0, violations,
                   list(getattr(prop, "ASSUMPTIONS", [])))
    return 1 if violations else 0


def corr_only(pid, seed, budget, out_path):
    """Second pass of the correspondence with the thorough generators for a bounded time (used where the source
    moved, see check()); runs in its own process and reports through a JSON file."""
    prop = load_prop(pid)
    load_barril()
    import translate

    data = translate.read_all()
    ctx = Ctx("thorough", seed, data)
    if hasattr(prop, "setup"):
        prop.setup(ctx)
    t0 = time.time()
    # as in check(): all cases are generated before the first one is executed (generators may prepare state
    # that the executions rely on); the time budget cuts the list of executions, not the generation
    batch, ios = [], []
    for c in list(prop.cases(ctx)):
        batch.append(c)
        ios.append(prop.impl(c, ctx))
        if len(batch) % 200 == 0 and time.time() - t0 > budget:
            break
    res = dict(evaluations=0, agree=0, disagree=0, nontrivial=[], disagreements=[])
    if batch:
        # one driver process for the whole pass (drivers may keep session state from line to line)
        mos, _dt = run_driver(prop.DRIVER_EXE, [dumps(prop.model_line(c) if hasattr(prop, "model_line") else c) for c in batch])
        seen = set()
        for c, io, mo in zip(batch, ios, mos):
            res["evaluations"] += 1
            if "bad" in mo:
                raise Infra("driver rejected %r: %s" % (c, mo["bad"]))
            why = prop.agree(c, io, mo, ctx)
            if why is None:
                res["agree"] += 1
                if prop.nontrivial(c, io):
                    seen.add(hashlib.sha1(dumps(prop.case_key(c) if hasattr(prop, "case_key") else c).encode()).digest()[:8].hex())
            else:
                res["disagree"] += 1
                if len(res["disagreements"]) < 200:
                    res["disagreements"].append(dict(case=c, impl=io, model=mo, why=why))
        res["nontrivial"] = sorted(seen)
    with open(out_path, "w", encoding="utf8") as f:
        json.dump(res, f, default=str)
    return 0


def replay(pid, path):
    prop = load_prop(pid)
    load_barril()
    import translate

    with open(path if os.path.isabs(path) else os.path.join(VERIF, path), encoding="utf8") as f:
        payload = json.load(f)
    data = translate.read_all()
    ctx = Ctx("quick", int(payload.get("seed", 0)), data)
    if hasattr(prop, "setup"):
        prop.setup(ctx)
    if payload.get("kind") != "failing-input":
        print("replay file names no concrete input: %s" % dumps(payload.get("broken"))[:500])
        return 0
    f = prop.oracle(payload["case"], ctx)
    if f:
        print("VIOLATION property=%s replay=%s" % (pid, path))
        print("  " + dumps(f)[:800])
        return 1
    print("replay passes on the current tree: %s" % dumps(payload["case"])[:300])
    return 0
