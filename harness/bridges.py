"""Which bridge modules (theorems relating the definitions GENERATED from /repo's source text, `Barril/Gen/Code*.lean`,
to the hand-written model) belong to which property.  A bridge module that stops checking is a broken proof obligation
of every property listed for it (DESIGN section 4b)."""
import os

from common import LEAN_DIR, VERIF

# property -> bridge modules ; function names are only for messages
BRIDGES = {
    "C01": ["Barril.Bridge.Posc", "Barril.Bridge.PoscTable", "Barril.Bridge.Conv", "Barril.Bridge.Info"],
    "C02": ["Barril.Bridge.Conv", "Barril.Bridge.Mgr2", "Barril.Bridge.Fixed2"],
    "C03": ["Barril.Bridge.Alg", "Barril.Bridge.Alg2", "Barril.Bridge.AlgL"],
    "C04": ["Barril.Bridge.Alg", "Barril.Bridge.Alg2", "Barril.Bridge.AlgL"],
    "C05": ["Barril.Bridge.Info", "Barril.Bridge.Alg2", "Barril.Bridge.Ccu"],
    "C07": ["Barril.Bridge.Qeq"],
    "C08": ["Barril.Bridge.Cmp", "Barril.Bridge.Qeq"],
    "C09": ["Barril.Bridge.Ops"],
    "C10": ["Barril.Bridge.Ops", "Barril.Bridge.AlgL"],
    "C11": ["Barril.Bridge.Fixed", "Barril.Bridge.Curve", "Barril.Bridge.Fixed2"],
    "C12": ["Barril.Bridge.Valid", "Barril.Bridge.Array"],
    "C14": ["Barril.Bridge.Reg", "Barril.Bridge.Cat"],
    "C15": ["Barril.Bridge.Ccu"],
    "C16": ["Barril.Bridge.Info"],
    "C17": ["Barril.Bridge.Mgr", "Barril.Bridge.Mgr2"],
    "C18": ["Barril.Bridge.Frac", "Barril.Bridge.FV"],
    "C20": ["Barril.Bridge.Str", "Barril.Bridge.Pow"],
}

GENERATED_FROM = {
    "Barril.Bridge.Posc": ["barril/units/posc.py:MakeCustomaryToBase", "barril/units/posc.py:MakeBaseToCustomary"],
    "Barril.Bridge.PoscTable": ["barril/units/posc.py:MakeCustomaryToBase", "barril/units/posc.py:MakeBaseToCustomary"],
    "Barril.Bridge.Alg": ["barril/units/unit_database.py:UnitDatabase._ConvertMatchingExp"],
    "Barril.Bridge.Alg2": ["barril/units/unit_database.py:UnitDatabase._MatchQuantities",
                           "barril/units/unit_database.py:UnitDatabase._ConvertMatchingExp",
                           "barril/units/_quantity.py:Quantity.GetComposingUnitsJoiningExponents",
                           "barril/units/unit_database.py:UnitDatabase._DoOperationWithSameQuantity"],
    "Barril.Bridge.Ccu": ["barril/units/unit_database.py:UnitDatabase.CheckCategoryUnit"],
    "Barril.Bridge.Fixed2": ["barril/units/_fixedarray.py:FixedArray.IndexAsScalar",
                             "barril/units/_fixedarray.py:FixedArray.ChangingIndex"],
    "Barril.Bridge.Ops": ["barril/units/_scalar.py:Scalar._DoOperation", "barril/units/_array.py:Array._DoOperation"],
    "Barril.Bridge.Reg": ["barril/units/unit_database.py:UnitDatabase.AddUnit",
                          "barril/units/unit_database.py:UnitDatabase.AddUnitBase"],
    "Barril.Bridge.Qeq": ["barril/units/_quantity.py:Quantity.__eq__", "barril/units/_quantity.py:Quantity.__hash__",
                          "barril/units/_quantity.py:Quantity.__reduce__", "barril/units/_quantity.py:_ObtainReduced"],
    "Barril.Bridge.AlgL": ["barril/units/unit_database.py:UnitDatabase._ConvertMatchingExp"],
    "Barril.Bridge.Cat": ["barril/units/unit_database.py:UnitDatabase.AddCategory"],
    "Barril.Bridge.Valid": ["barril/units/_quantity.py:Quantity.CheckValue"],
    "Barril.Bridge.Conv": ["barril/units/unit_database.py:UnitDatabase.Convert"],
    "Barril.Bridge.Info": ["barril/units/unit_database.py:UnitDatabase.GetInfo",
                           "barril/units/unit_database.py:FixUnitIfIsLegacy"],
    "Barril.Bridge.Cmp": ["barril/units/_scalar.py:Scalar._GetValuesToCompare", "barril/units/_scalar.py:Scalar.__lt__",
                          "barril/units/_scalar.py:Scalar.__le__", "barril/units/_scalar.py:Scalar.__gt__",
                          "barril/units/_scalar.py:Scalar.__ge__"],
    "Barril.Bridge.Array": ["barril/units/_array.py:Array._DoValidateValues", "barril/units/_quantity.py:Quantity.CheckValue"],
    "Barril.Bridge.Fixed": ["barril/units/_fixedarray.py:FixedArray.CheckValues",
                            "barril/units/_fixedarray.py:FixedArray._InternalCreateWithQuantity"],
    "Barril.Bridge.Mgr": ["barril/units/unit_system_manager.py:UnitSystemManager._CheckUnitSystemMapping",
                          "barril/units/unit_system_manager.py:UnitSystemManager.AddUnitSystem",
                          "barril/units/unit_system_manager.py:UnitSystemManager.RemoveUnitSystem"],
    "Barril.Bridge.Str": ["barril/units/_quantity.py:Quantity._MakeStr",
                          "barril/units/_quantity.py:Quantity._CreateUnitsWithJoinedExponentsString"],
    "Barril.Bridge.FV": ["barril/basic/fraction/_fraction_value.py:FractionValue.__float__",
                         "barril/basic/fraction/_fraction_value.py:FractionValue.__lt__",
                         "barril/basic/fraction/_fraction_value.py:FractionValue.__le__",
                         "barril/basic/fraction/_fraction_value.py:FractionValue.__gt__",
                         "barril/basic/fraction/_fraction_value.py:FractionValue.__ge__",
                         "barril/basic/fraction/_fraction_value.py:FractionValue.__eq__",
                         "barril/units/_fraction_scalar.py:FractionScalar.ConvertFractionValue"],
    "Barril.Bridge.Curve": ["barril/curve/curve.py:Curve._CheckImageAndDomainLength", "barril/curve/curve.py:Curve.__init__",
                            "barril/curve/curve.py:Curve.SetImage", "barril/curve/curve.py:Curve.SetDomain"],
    "Barril.Bridge.Pow": ["barril/units/_quantity.py:Quantity.__pow__", "barril/units/_scalar.py:Scalar.__pow__"],
    "Barril.Bridge.Mgr2": ["barril/units/unit_system_manager.py:UnitSystemManager.ConvertToCurrent",
                           "barril/units/unit_system_manager.py:UnitSystemManager.SetCurrent",
                           "barril/units/unit_system_manager.py:UnitSystemManager.SetTemplateUnitSystemByUnitsMapping"],
    "Barril.Bridge.Frac": ["barril/basic/fraction/_fraction.py:Fraction.__old_cmp__"],
}


def modules_for(pid):
    """(modules to build and audit, modules skipped because a PRIVATE Lean copy does not have them yet)"""
    mods, skipped = [], []
    default_dir = os.path.realpath(LEAN_DIR) == os.path.realpath(os.path.join(VERIF, "lean"))
    for m in BRIDGES.get(pid, []):
        if os.path.exists(os.path.join(LEAN_DIR, m.replace(".", "/") + ".lean")) or default_dir:
            mods.append(m)
        else:
            skipped.append(m)
    return mods, skipped
