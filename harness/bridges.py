"""Which bridge modules (theorems relating the definitions GENERATED from /repo's source text, `Barril/Gen/Code*.lean`,
to the hand-written model) belong to which property.  A bridge module that stops checking is a broken proof obligation
of every property listed for it (DESIGN section 4b)."""
import os

from common import LEAN_DIR, VERIF

# property -> bridge modules ; function names are only for messages
BRIDGES = {
    "C01": ["Barril.Bridge.Posc", "Barril.Bridge.PoscTable"],
    "C03": ["Barril.Bridge.Alg"],
    "C04": ["Barril.Bridge.Alg"],
    "C11": ["Barril.Bridge.Fixed"],
    "C12": ["Barril.Bridge.Valid"],
    "C18": ["Barril.Bridge.Frac"],
}

GENERATED_FROM = {
    "Barril.Bridge.Posc": ["barril/units/posc.py:MakeCustomaryToBase", "barril/units/posc.py:MakeBaseToCustomary"],
    "Barril.Bridge.PoscTable": ["barril/units/posc.py:MakeCustomaryToBase", "barril/units/posc.py:MakeBaseToCustomary"],
    "Barril.Bridge.Alg": ["barril/units/unit_database.py:UnitDatabase._ConvertMatchingExp"],
    "Barril.Bridge.Valid": ["barril/units/_quantity.py:Quantity.CheckValue"],
    "Barril.Bridge.Fixed": ["barril/units/_fixedarray.py:FixedArray.CheckValues",
                            "barril/units/_fixedarray.py:FixedArray._InternalCreateWithQuantity"],
    "Barril.Bridge.Frac": ["barril/basic/fraction/_fraction.py:Fraction.__old_cmp__"],
}


def modules_for(pid):
    """(modules to build and audit, modules skipped because a PRIVATE Lean copy does not have them yet)"""
    mods, skipped = [], []
    default_dir = os.path.realpath(LEAN_DIR) == os.path.realpath(os.path.join(VERIF, "lean"))
    for m in BRIDGES.get(pid, []):
        if os.path.exists(os.path.join(LEAN_DIR, m.replace(".", "/") + ".lean")) or default_dir:
            mods.append(m)
        else:
            skipped.append(m)
    return mods, skipped
