"""Which bridge modules (theorems relating the definitions GENERATED from /repo's source text, `Barril/Gen/Code*.lean`,
to the hand-written model) belong to which property.  A bridge module that stops checking is a broken proof obligation
of every property listed for it (DESIGN section 4b)."""
import os

from common import LEAN_DIR, VERIF

# property -> bridge modules ; function names are only for messages
BRIDGES = {
    "C01": ["Barril.Bridge.Posc", "Barril.Bridge.PoscTable", "Barril.Bridge.Conv"],
    "C02": ["Barril.Bridge.Conv"],
    "C03": ["Barril.Bridge.Alg"],
    "C04": ["Barril.Bridge.Alg"],
    "C08": ["Barril.Bridge.Cmp"],
    "C11": ["Barril.Bridge.Fixed"],
    "C12": ["Barril.Bridge.Valid", "Barril.Bridge.Array"],
    "C17": ["Barril.Bridge.Mgr"],
    "C18": ["Barril.Bridge.Frac"],
    "C20": ["Barril.Bridge.Str"],
}

GENERATED_FROM = {
    "Barril.Bridge.Posc": ["barril/units/posc.py:MakeCustomaryToBase", "barril/units/posc.py:MakeBaseToCustomary"],
    "Barril.Bridge.PoscTable": ["barril/units/posc.py:MakeCustomaryToBase", "barril/units/posc.py:MakeBaseToCustomary"],
    "Barril.Bridge.Alg": ["barril/units/unit_database.py:UnitDatabase._ConvertMatchingExp"],
    "Barril.Bridge.Valid": ["barril/units/_quantity.py:Quantity.CheckValue"],
    "Barril.Bridge.Conv": ["barril/units/unit_database.py:UnitDatabase.Convert"],
    "Barril.Bridge.Cmp": ["barril/units/_scalar.py:Scalar._GetValuesToCompare", "barril/units/_scalar.py:Scalar.__lt__",
                          "barril/units/_scalar.py:Scalar.__le__", "barril/units/_scalar.py:Scalar.__gt__",
                          "barril/units/_scalar.py:Scalar.__ge__"],
    "Barril.Bridge.Array": ["barril/units/_array.py:Array._DoValidateValues", "barril/units/_quantity.py:Quantity.CheckValue"],
    "Barril.Bridge.Fixed": ["barril/units/_fixedarray.py:FixedArray.CheckValues",
                            "barril/units/_fixedarray.py:FixedArray._InternalCreateWithQuantity"],
    "Barril.Bridge.Mgr": ["barril/units/unit_system_manager.py:UnitSystemManager._CheckUnitSystemMapping",
                          "barril/units/unit_system_manager.py:UnitSystemManager.AddUnitSystem",
                          "barril/units/unit_system_manager.py:UnitSystemManager.RemoveUnitSystem"],
    "Barril.Bridge.Str": ["barril/units/_quantity.py:Quantity._MakeStr",
                          "barril/units/_quantity.py:Quantity._CreateUnitsWithJoinedExponentsString"],
    "Barril.Bridge.Frac": ["barril/basic/fraction/_fraction.py:Fraction.__old_cmp__"],
}


def modules_for(pid):
    """(modules to build and audit, modules skipped because a PRIVATE Lean copy does not have them yet)"""
    mods, skipped = [], []
    default_dir = os.path.realpath(LEAN_DIR) == os.path.realpath(os.path.join(VERIF, "lean"))
    for m in BRIDGES.get(pid, []):
        if os.path.exists(os.path.join(LEAN_DIR, m.replace(".", "/") + ".lean")) or default_dir:
            mods.append(m)
        else:
            skipped.append(m)
    return mods, skipped
