"""C04 - multiply/divide: dimension exponents add, base-unit magnitudes multiply.

Decided by: Barril/Props/C04.lean (theorems about `Db.opNew`/`Db.pow` of Barril/Model/Alg.lean for every
database, all operand shapes and all rational values).  Tie: correspondence of the real `Scalar` operators
`* / // **` on the default database with the model (drv_alg) on seeded expression trees."""
import math

import _alg_common as A
from _alg_common import agree, case_key, impl, model_line, nontrivial, show  # noqa: F401  (module API)

ID = "C04"
LEAN_MODULES = ["Barril.Props.C04"]
DRIVERS = ["drv_alg"]
DRIVER_EXE = "drv_alg"
RULE = ("seeded expression trees (depth <= 3 quick, <= 5 thorough) over 9 quantity types of the default database, "
        "up to 5 scale-only units and up to 4 categories per type; EVERY inner node of every tree is a case "
        "(operands = the real values of its two subtrees), in both operand orders, with * / // and ** (n in -1..4, and EVERY n in -2..16 on simple, product "
        "and quotient operands with small values; ^ nodes of small leaves up to 7); "
        "plus streams: empty quantities, quantities written directly as dicts (two units of one type, zero "
        "exponents, zero totals), zero divisors, units with an affine offset inside products; "
        "distinct = distinct (op, operand quantities, exact values); non-trivial = the operation succeeded "
        "on two different quantities (for **: n >= 2); "
        "Array leg: 30% of the multiplications are also evaluated with Arrays (ndarray / list / tuple, 2-3 "
        "elements) on ONE pair of operand objects reused for a*b, b*a, a*b again, (a*b)/b, a/b, a//b; every element "
        "of every step is a case; ndarray leaves of shallow operands also with element types int64, int32, "
        "float32 on the left, the right or both sides (exact integer values go to the model; bound with eps = 2**-24 "
        "where float32 takes part; a float32 value is judged only when every exact magnitude of the evaluation lies "
        "in 1e-30..1e30); a third of the Array groups draws the container kinds of the two operands independently, and "
        "a stream array-mixed runs EVERY pair of container kinds (ndarray / list / tuple on either side) x 1-4 elements "
        "with operands that share a quantity type in different units, at exponent +-2, +-3 in the right operand; "
        "stream same-type-other-category: operands that repeat a quantity type through different categories; "
        "EVERY successful result (Scalar and Array) also reports its quantity type: GetQuantityType() is parsed into "
        "a dimension vector and compared with the model's rep_and_exp (Alg.reportedTypes)")
EXHAUSTIVE = {"quick": False, "thorough": False}
ASSUMPTIONS = ["float results stay within K*eps*M (K=64) of the exact model: checked on every run, not proved",
               "the model is per number: an Array operation is the model applied to every element with the operands' "
               "quantities (that reduction is C10's theorem); the container kinds of the operands are not modelled",
               "the quantity-type string is read back with the layout of _MakeStr (factors ' * '-separated, one ' / ', "
               "'(type) ** n'), which C20 proves for the string model; only the exponent per type is compared here",
               "float // is compared with the exact floor except when the exact quotient is within K*eps*M of an integer",
               "the default singleton holds the POSC database that the translator rebuilds (same fill function)"]

OPS = ("*", "/", "//")


def setup(ctx):
    ctx.uni = A.Universe(ctx.fresh_rng("alg-universe"))
    ctx.notes["universe"] = dict(types=ctx.uni.types, units={t: ctx.uni.units[t] for t in ctx.uni.types},
                                 categories={t: ctx.uni.cats[t] for t in ctx.uni.types})


def _note(ctx, key):
    d = ctx.notes.setdefault("streams", {})
    d[key] = d.get(key, 0) + 1


ARRAY_SHARE = 0.3  # share of the multiplications that are also evaluated with Arrays (operands reused)


def _emit(ctx, stream, op, a, b=None, n=None):
    c = A.make_case(op, a, b, n)
    if c is not None:
        _note(ctx, stream)
        out = [c]
        if op == "*" and b is not None:
            arng = ctx.__dict__.setdefault("_arng", ctx.fresh_rng("C04-array-leg"))
            if arng.random() < ARRAY_SHARE:
                cs = A.array_cases(ctx, "mul", a, b, arng)
                if cs:
                    _note(ctx, "array:%s:%s" % (cs[0]["_t"]["arr"]["kind"], stream))
                    d = ctx.notes.setdefault("array_leg", {})
                    d["groups"] = d.get("groups", 0) + 1
                    d["element_cases"] = d.get("element_cases", 0) + len(cs)
                out += cs
        return out
    _note(ctx, stream + ":operand-not-buildable")
    return []


def _gen(ctx, salt, max_depth, per_level, n_raw, n_aff):
    rng = ctx.fresh_rng("C04" + salt)
    uni = ctx.uni
    levels = A.grow_pool(uni, rng, max_depth, per_level)
    pool = [t for lv in levels for t in lv]
    # 1. every inner node, both orders, and a floor-division twin for a third of them
    for lv in levels[1:]:
        for t in lv:
            if t[0] == "^":
                yield from _emit(ctx, "pow-node", "^", t[1], None, t[2])
                continue
            yield from _emit(ctx, "node", t[0], t[1], t[2])
            yield from _emit(ctx, "node-swapped", t[0], t[2], t[1])
            other = "/" if t[0] == "*" else "*"
            yield from _emit(ctx, "node-other-op", other, t[1], t[2])
            if rng.random() < 0.35:
                yield from _emit(ctx, "floordiv", "//", t[1], t[2])
    # 2. powers, self quotients and cancellations on pool members
    for _ in range(per_level):
        t = rng.choice(pool)
        yield from _emit(ctx, "pow", "^", t, None, rng.choice([-1, 0, 1, 2, 2, 3, 3, 4]))
        yield from _emit(ctx, "self-quotient", "/", t, t)
        u = rng.choice(pool)
        yield from _emit(ctx, "cancel", "/", ["*", t, u], u)
        yield from _emit(ctx, "same-dims-other-units", rng.choice(OPS), t, uni.variant(rng, t))
    # 2b. every exponent -2..16 (0 and negative exponents return the operand itself, as the code defines them), on
    # simple, product and quotient operands whose values keep the 16th power inside the float range
    small = [1.5, -1.25, 0.75, 2.0, -0.5, 1.1, -1.75, 0.9]
    for rep_ in range(3 if per_level < 500 else 12):
        for n in range(-2, 17):
            a = uni.leaf(rng)
            a = ["L", float(rng.choice(small)).hex()] + a[2:]
            b = uni.leaf(rng)
            b = ["L", float(rng.choice(small)).hex()] + b[2:]
            shape = (rep_ + n) % 3
            t = a if shape == 0 else ([rng.choice("*/"), a, b] if shape == 1 else ["*", a, uni.variant(rng, a)])
            if shape == 2:
                t[2] = ["L", float(rng.choice(small)).hex()] + t[2][2:]
            yield from _emit(ctx, "pow-n=%d" % n, "^", t, None, n)
    # 3. empty quantities and quantities written directly
    for _ in range(n_raw):
        t = rng.choice(pool)
        e = ["E", float(uni.value(rng)).hex()]
        op = rng.choice(OPS)
        yield from _emit(ctx, "empty-left", op, e, t)
        yield from _emit(ctx, "empty-right", op, t, e)
        r = A.raw_operand(uni, rng)
        op = rng.choice(OPS)
        yield from _emit(ctx, "raw-left", op, r, t)
        yield from _emit(ctx, "raw-right", op, t, r)
        yield from _emit(ctx, "raw-raw", op, r, A.raw_operand(uni, rng))
        yield from _emit(ctx, "raw-pow", "^", r, None, rng.choice([2, 3]))
        c = ["C", float(uni.value(rng)).hex()] + uni.leaf(rng)[2:] + [rng.choice(["cap", "other cap"])]
        yield from _emit(ctx, "captioned", rng.choice(OPS), c, rng.choice([t, c]))
        yield from _emit(ctx, "zero-divisor", rng.choice(["/", "//"]), t, ["L", float(0.0).hex()] + uni.leaf(rng)[2:])
    # 4. units with an affine offset inside products (the model follows the code: exponent 1 converts affinely)
    for _ in range(n_aff):
        t = rng.choice(sorted(uni.affine))
        a, b = uni.leaf(rng, t, affine=True), uni.leaf(rng, t, affine=True)
        x = rng.choice(pool)
        yield from _emit(ctx, "affine", rng.choice(OPS), rng.choice([a, ["*", a, x]]), rng.choice([b, ["/", x, b]]))


def _mixed_arrays(ctx, salt, reps):
    """Array operands with EVERY combination of container kinds (ndarray / list / tuple on either side) and 1-4
    elements; the two operands share a quantity type in different units, and in the right operand that unit has
    the exponent +-2 or +-3 (a power, or a power in a denominator), so that the matching re-expresses a whole
    container with an exponent other than 1.  Same steps as the Array leg: a*b, b*a, a*b again, (a*b)/b, a/b, a//b."""
    rng = ctx.fresh_rng("C04-mixed" + salt)
    uni = ctx.uni
    types = [t for t in uni.types if len(uni.units[t]) >= 2]
    small = [1.5, -1.25, 0.75, 2.0, -0.5, 6.0, -3.0, 50.0, 20.0, -8.0]
    i = 0
    for _rep in range(reps):
        for ka in A.ARR_CONTAINERS:
            for kb in A.ARR_CONTAINERS:
                for n in (1, 2, 3, 4):
                    e = (2, -2, 3, -3)[(i + i // 4 + _rep) % 4]
                    i += 1
                    t = rng.choice(types)
                    u1, u2 = rng.sample(uni.units[t], 2)
                    a = ["L", float(rng.choice(small)).hex(), u1, rng.choice(uni.cats[t])]
                    b = ["L", float(rng.choice(small)).hex(), u2, rng.choice(uni.cats[t])]
                    if rng.random() < 0.4:
                        a = [rng.choice("*/"), a, uni.leaf(rng)]
                    tb = ["^", b, abs(e)]
                    if e < 0:
                        x = uni.leaf(rng, rng.choice([q for q in uni.types if q != t]))
                        tb = ["/", ["L", float(rng.choice(small)).hex()] + x[2:], tb]
                    cs = A.array_cases(ctx, "mul", a, tb, rng, kind=A.kind_name(ka, kb), n=n)
                    _note(ctx, "array-mixed:%s:%d-elements:exp%+d%s" % (A.kind_name(ka, kb), n, e, "" if cs else ":not-buildable"))
                    d = ctx.notes.setdefault("array_leg", {})
                    d["groups"] = d.get("groups", 0) + 1
                    d["element_cases"] = d.get("element_cases", 0) + len(cs)
                    yield from cs


def _same_type_other_category(ctx, salt, n):
    """products and quotients whose operands repeat a quantity type through DIFFERENT categories (the result keeps
    several categories of one type: its reported quantity type has to sum their exponents)"""
    rng = ctx.fresh_rng("C04-cats" + salt)
    uni = ctx.uni
    types = [t for t in uni.types if len(uni.cats[t]) >= 2]
    for _ in range(n):
        t = rng.choice(types)
        c1, c2 = rng.sample(uni.cats[t], 2)
        a = ["L", float(uni.value(rng)).hex(), rng.choice(uni.units[t]), c1]
        b = ["L", float(uni.value(rng)).hex(), rng.choice(uni.units[t]), c2]
        x = uni.leaf(rng)
        for op in OPS:
            yield from _emit(ctx, "same-type-other-category", op, a, b)
        yield from _emit(ctx, "same-type-other-category:nested", rng.choice(OPS), [rng.choice("*/"), a, x], b)
        yield from _emit(ctx, "same-type-other-category:nested", rng.choice(OPS), x, [rng.choice("*/"), a, b])
        yield from _emit(ctx, "same-type-other-category:pow", "^", ["*", a, b], None, rng.choice([2, 3]))


def cases(ctx):
    if ctx.tier == "quick":
        yield from _gen(ctx, "corr", 3, 110, 60, 40)
        yield from _same_type_other_category(ctx, "corr", 40)
        yield from _mixed_arrays(ctx, "corr", 1)
    else:
        yield from _gen(ctx, "corr", 5, 900, 700, 400)
        yield from _same_type_other_category(ctx, "corr", 300)
        yield from _mixed_arrays(ctx, "corr", 6)


def search(ctx):
    if ctx.tier == "quick":
        yield from _gen(ctx, "search", 3, 150, 60, 0)
        yield from _same_type_other_category(ctx, "search", 40)
        yield from _mixed_arrays(ctx, "search", 1)
    else:
        yield from _gen(ctx, "search", 5, 1500, 500, 0)
        yield from _same_type_other_category(ctx, "search", 200)
        yield from _mixed_arrays(ctx, "search", 4)


# ------------------------------------------------------------- the property itself, on the real code only
def _fail(clause, c, **kw):
    d = dict(clause=clause, case=show(c))
    d.update(kw)
    return d


def _oracle_array(c, ctx):
    """The property on Arrays, real code only: the operand OBJECTS are built once and reused for a*b, b*a, a*b
    again, (a*b)/b and a/b; every element is compared with the independent dimensional analysis of its leaves."""
    t = c["_t"]
    ar = t["arr"]
    db = ctx.uni.db
    dts, tol = A.arr_dts(ar), A.arr_tol(ar)
    sa, sb = A.arr_sems(t["a"], ar["mult"], db, dts[0]), A.arr_sems(t["b"], ar["mult"], db, dts[1])

    def rc(x, y, scale=0.0):
        return A.rel_close(x, y, scale, tol)
    if any(x is None for x in sa + sb) or not all(x[2] for x in sa + sb):
        return None  # the property speaks about scale-only units
    if any(x[1] is None or not math.isfinite(x[1]) for x in sa + sb):
        return None
    import numpy

    def fail(clause, **kw):
        return _fail(clause, c, container=ar["kind"], element_multipliers=ar["mult"],
                     element_types=dict(zip(("a", "b"), dts)), **kw)

    da, dbm = sa[0][0], sb[0][0]
    ma, mb = [x[1] for x in sa], [x[1] for x in sb]
    with numpy.errstate(all="ignore"):
        try:
            a = A.build_array(t["a"], ar["mult"], A.arr_kinds(ar)[0], dts[0])
            b = A.build_array(t["b"], ar["mult"], A.arr_kinds(ar)[1], dts[1])
            a0, b0 = A.elems(a), A.elems(b)
        except Exception:
            return None
        n = len(a0)

        def check(label, res, want_d, want_m):
            got_d = A.dims_of(res, db)
            if got_d != want_d:
                return fail(label + ": exponent per quantity type is the sum/difference", got=got_d, want=want_d,
                            result=repr(res))
            rep_d = A.reported_dims(res)
            if rep_d != want_d:
                return fail(label + ": exponent per quantity type, as the result reports it through GetQuantityType(), "
                            "is the sum/difference", got=rep_d, want=want_d, quantity_type=res.GetQuantityType(),
                            result=repr(res))
            if A.f32_skip(ctx, ar, [a, b, res], db, list(want_m) + ma + mb):
                return None  # float32 range: magnitudes outside 1e-30..1e30 are not judged
            got = A.mags_of(res, db)
            for i in range(n):
                if math.isfinite(got[i]) and math.isfinite(want_m[i]) and not rc(got[i], want_m[i]):
                    return fail(label + ": base magnitude of every element is the product/quotient of the operands' "
                                "elements as they were built (operands reused)", element=i, got=got[i], want=want_m[i],
                                a_values_now=A.elems(a), a_values_built=a0, b_values_now=A.elems(b), b_values_built=b0)
            return None

        try:
            prod = [x * y for x, y in zip(ma, mb)]
            r = a * b
            f = (check("Array a*b", r, A.comb(da, dbm, 1), prod)
                 or check("Array b*a", b * a, A.comb(da, dbm, 1), prod)
                 or check("Array a*b evaluated a second time", a * b, A.comb(da, dbm, 1), prod))
            if f:
                return f
            if all(y != 0.0 for y in b0) and all(y != 0.0 for y in mb):
                f = (check("Array (a*b)/b", r / b, da, ma)
                     or check("Array a/b", a / b, A.comb(da, dbm, -1), [x / y for x, y in zip(ma, mb)]))
                if f:
                    return f
        except (ZeroDivisionError, OverflowError):
            return None
        except Exception as e:
            return fail("Array operation on valid operands raised", error=repr(e))
    return None


def oracle(c, ctx):
    t = c["_t"]
    k = t["k"]
    if k not in ("*", "/", "//", "^"):
        return None
    if t.get("arr"):
        return _oracle_array(c, ctx)
    db = ctx.uni.db
    sa = A.sem(t["a"], db)
    sb = A.sem(t["b"], db) if t["b"] is not None else ({}, 1.0, True)
    if sa is None or sb is None or not (sa[2] and sb[2]):
        return None  # the property speaks about scale-only units
    try:
        a = A.build(t["a"])
        b = A.build(t["b"]) if t["b"] is not None else None
    except Exception:
        return None
    ma, mb = sa[1], sb[1]
    try:
        if k == "^":
            n = t["n"]
            r = a ** n
            if n < 1:
                return None
            p = a
            for _ in range(n - 1):
                p = p * a
            import math
            if not (math.isfinite(r.value) and math.isfinite(p.value)):
                return None  # the float range is exceeded: the property speaks about finite values
            if r.GetQuantity() != p.GetQuantity() or not A.rel_close(r.value, p.value):
                return _fail("a**n is the n-fold product", c, got=repr(r), product=repr(p))
            want_d = {q: e * n for q, e in sa[0].items()}
            want_m = None if ma is None else ma ** n
        else:
            if b.value == 0.0 and k != "*":
                return None
            r = A.apply_op(k, a, b)
            want_d = A.comb(sa[0], sb[0], 1 if k == "*" else -1)
            want_m = None if None in (ma, mb) else (ma * mb if k == "*" else ma / mb)
        if not math.isfinite(r.value):
            return None
        got_d = A.dims_of(r, db)
        if got_d != want_d:
            return _fail("exponent per quantity type is the sum/difference", c, got=got_d, want=want_d, result=repr(r))
        rep_d = A.reported_dims(r)
        if rep_d != want_d:
            return _fail("exponent per quantity type, as the result reports it through GetQuantityType(), is the "
                         "sum/difference", c, got=rep_d, want=want_d, quantity_type=r.GetQuantityType(), result=repr(r))
        ents = A.entries_of(r)
        tot = {}
        for _c, u, e in ents:
            tot[u] = tot.get(u, 0) + e
        if any(e == 0 for _c, _u, e in ents) or any(v == 0 for v in tot.values()):
            return _fail("zero exponents disappear", c, entries=ents)
        per_type = {}
        for cat, u, _e in ents:
            per_type.setdefault(db.GetCategoryQuantityType(cat), set()).add(u)
        if k == "//":
            q = a / b
            if r.GetQuantity() != q.GetQuantity():
                return _fail("a//b has the quantity of a/b", c, got=repr(r), quotient=repr(q))
            fl = math.floor(q.value)
            slack = 1e-9 * max(1.0, abs(q.value))  # float rounding of the quotient; beyond 2**53 every float is integral
            if r.value != fl and not (abs(q.value - round(q.value)) <= slack and abs(r.value - fl) <= 1 + slack):
                return _fail("a//b is the floor of a/b", c, got=r.value, quotient=q.value)
            return None
        if want_m is not None and math.isfinite(want_m):
            got_m = A.mag_of(r, db)
            if not A.rel_close(got_m, want_m):
                return _fail("base magnitude is the product/quotient", c, got=got_m, want=want_m, result=repr(r))
        if k == "*":
            r2 = b * a
            if A.dims_of(r2, db) != got_d or not A.rel_close(A.mag_of(r2, db), A.mag_of(r, db)):
                return _fail("a*b and b*a are physically equal", c, ab=repr(r), ba=repr(r2))
            if b.value != 0.0 and mb not in (None, 0.0):
                back = r / b
                if A.dims_of(back, db) != sa[0] or (ma is not None and not A.rel_close(A.mag_of(back, db), ma)):
                    return _fail("(a*b)/b is physically a", c, got=repr(back), a=repr(a))
        if k == "/" and a.value != 0.0:
            one = a / a
            if A.entries_of(one) or one.GetUnit() != "" or not A.rel_close(one.value, 1.0):
                return _fail("a/a is dimensionless", c, got=repr(one), entries=A.entries_of(one))
    except ZeroDivisionError:
        return None
    except OverflowError:
        return None
    except Exception as e:
        return _fail("operation on valid operands raised", c, error=repr(e))
    return None
