"""C18 - fractional values keep their numeric meaning.

Decided by Barril/Props/C18.lean over the executable model Barril/Model/Frac.lean (Fraction, FractionValue,
FractionScalar conversion written after the Python function by function, in exact rational arithmetic):
Fraction(a,b) = a/b exactly for decimals with <= 7 places and within SMALL/|b| always; + - * / % neg abs and the six
comparisons are the rationals'; float/order/==/copy of FractionValue; parse(str(fv)) = fv for printable values;
CreateFromFloat(d) = d for decimals in [1e-4, 1e16); ConvertFractionValue = Scalar conversion of float(value) up to
SMALL/denominator (exact for short-decimal increments, affine units included); order and validity = Scalar's.
Tie: every modelled function is run on the real code and on the model (`drv_frac`) on seeded inputs; the
oracle below states C18 on the real API alone.

Programs (`op = hist`): sequences of constructions and in-place changes over a pool of Fraction / FractionValue /
FractionScalar objects; the model keeps the objects as independent values (theorems pool_step_independent,
pool_run_projection, pool_run_independent, fv_without_fraction_denotes_number, fs_from_float_denotes_float), the real
side reports float(), str() and the parts of EVERY pool member after EVERY statement.

Three input classes on which the unchanged code violates C18 are reproduced by the model (and proved as
`*_counterexample` theorems): see KNOWN_CLASSES / FINDING_CASES."""
import copy
import math
from fractions import Fraction as Q

from common import EPS, K, err_kind, exact, qparse, qstr, sym

ID = "C18"
LEAN_MODULES = ["Barril.Props.C18"]
DRIVERS = ["drv_frac"]
DRIVER_EXE = "drv_frac"
RULE = ("seeded streams, one per modelled function: Fraction(a,b) (ints, short decimals, dyadic and arbitrary floats, "
        "negative/zero/infinite/non-number arguments); + - * / % neg abs inv copy and the six comparisons (both "
        "operand orders) over fractions with denominators <= 64 (some up to 10^6) and numbers; FractionValue "
        "construction, float(), order, ==, copy; str() against the %g model; CreateFromString on formatted values, "
        "on texts built from the grammar with deviations and on random strings over the regex alphabet; "
        "CreateFromFloat on decimals with 1..8 significant digits and exponents -9..5; FractionScalar conversion "
        "over ordered unit pairs of every quantity type of a private POSC database (all pairs in the thorough tier), "
        "order/==/validity and the registered UnitDatabase.Convert path; direct calls of the classmethod "
        "ConvertFractionValue(value, quantity type string | Quantity in from_unit / to_unit / a third unit, from_unit, to_unit) "
        "over scale and offset units with number-only, fraction-only and mixed values; Fraction ** (int, integral float, "
        "infinite, non-number), the in-place setters (.numerator/.denominator/[i] = int, float, 0, inf, None, str; reduce), "
        "len/iteration/indexing, sequence operands of every operator; GetLocalizedString/GetLocalizedFraction, "
        "CreateFromString(consider_locale=False), CreateFromFloat(None); PROGRAMS of 5-12 statements over a pool of objects "
        "(every constructor form: FractionValue(), (n), (number=n), (n, (a, b)), (n, Fraction), CreateFromFloat, CreateFromString, "
        "copy.copy, Fraction arithmetic on pool members, FractionScalar(cat, value=float | FractionValue, unit), GetValue(unit), "
        "ConvertFractionValue; every mutator: fraction setters through fv.fraction / fs.GetValue().fraction, SetNumber/.number, "
        "SetFraction/.fraction) where after EVERY statement every object of the pool is compared (parts, str(), float(), for "
        "Fractions len/iteration/indexing); distinct = distinct model line; non-trivial = the real call returned a value")
EXHAUSTIVE = {"quick": False, "thorough": False}
ASSUMPTIONS = [
    "float results stay within K*eps*M (K=64) of the exact model: checked on every run, not proved",
    "a Python float denotes the decimal it is written as; str(float) is modelled by that decimal's digits, "
    "float(text) by the decimal value of the text, '%g' by correct rounding (ties to even) to 6 significant digits",
    "CreateFromFloat: the float continued-fraction loop may stop one convergent earlier than the exact loop for "
    "7-8 digit inputs (float drift); such results are compared by value (<= 1e-11 relative), all others structurally",
    "Fraction(a): non-terminating decimals are normalised by float rounding in the code and by 60 exact decimal "
    "shifts in the model; such results are compared by value (K*eps*M), short decimals exactly",
    "regular expressions, str.strip, locale (C locale) are modelled for ASCII input",
    "FractionScalar is modelled for simple (non-derived) quantities built with CreateWithQuantity(ObtainQuantity(unit, "
    "category), value); constructor argument juggling is C19's, memo tables C05's/C15's",
    "value limits (CheckValidity) are exercised on a private 5-unit database with 8 categories registered identically "
    "on both sides (no shipped category has limits)",
    "not modelled: Fraction ** non-integral exponent, __repr__, locales other than C, infinite or NaN numbers inside a "
    "FractionValue, the float -0.0 (its text '-0' is not compared), float underflow below 5e-324 (the only way into "
    "CreateFromFloat's FindNumerator loop and `value == 0.0` branch)",
    "programs: a Fraction object handed to FractionValue(...)/SetFraction is kept by reference by the code, so the programs "
    "always hand over a fresh one (the model keeps objects as independent values: pool_step_independent, pool_run_projection); "
    "after a unit conversion whose converted fraction differs by float rounding the comparison of that program stops there",
    "a program the oracle finds failing is re-run in a fresh interpreter (state an earlier program left in the library is "
    "not part of a replay)",
]

OPS_CMP = ("eq", "ne", "lt", "le", "gt", "ge")
OPS_ORD = ("lt", "le", "gt", "ge")
OPS_BIN = ("add", "radd", "sub", "rsub", "mul", "rmul", "div", "rdiv", "mod")
OPS_UN = ("neg", "abs", "inv", "copy", "float", "str")


# ------------------------------------------------------------------------------------------ encodings
def _obj(spec):
    """python object of a number spec"""
    k = spec[0]
    if k == "i":
        return spec[1]
    if k == "f":
        return float.fromhex(spec[1])
    if k == "inf":
        return float("inf")
    if k == "-inf":
        return float("-inf")
    if k == "none":
        return None
    return "x"


def _enc(spec):
    """model encoding of a number spec"""
    k = spec[0]
    if k in ("i", "f"):
        return qstr(exact(_obj(spec)))
    if k in ("inf", "-inf"):
        return k
    return "bad"


def _fin(spec):
    return spec[0] in ("i", "f")


def _I(n):
    return ["i", int(n)]


def _F(x):
    return ["f", float(x).hex()]


def _short(spec, digits=6):
    """the number is an int below 10^7 or a float written with <= `digits` significant digits, >= 1e-6 in magnitude"""
    if spec[0] == "i":
        return abs(spec[1]) < 10 ** 7
    if spec[0] != "f":
        return False
    x = _obj(spec)
    if x == 0:
        return True
    if not (1e-6 <= abs(x) < 1e7):
        return False
    d = Q(repr(x))
    m = abs(d.numerator * (10 ** 30 // d.denominator)) if 10 ** 30 % d.denominator == 0 else None
    if m is None:
        return False
    s = str(m).rstrip("0")
    return len(s) <= digits


def _dyadic(spec):
    if spec[0] == "i":
        return abs(spec[1]) < 2 ** 20
    if spec[0] != "f":
        return False
    q = exact(_obj(spec))
    return q.denominator <= 1024 and abs(q) < 2 ** 20


def _fr(p):
    """a Fraction object with x = p[0]/p[1]"""
    from barril.basic.fraction import Fraction

    return Fraction(p[0], p[1])


def _fv(v):
    from barril.basic.fraction import FractionValue

    return FractionValue(_obj(v["n"]), _fr(v["x"]))


def _fv_enc(v):
    return dict(n=qstr(exact(_obj(v["n"]))), x=qstr(Q(v["x"][0], v["x"][1])))


def _fv_q(v):
    """exact value of a FractionValue spec"""
    return exact(_obj(v["n"])) + Q(v["x"][0], v["x"][1])


def _fv_out(r):
    return dict(n=qstr(exact(r.number)), x=qstr(r.fraction.x))


def _fexact(v):
    """float(fv) is computed without rounding"""
    d = v["x"][1]
    return _dyadic(v["n"]) and d & (d - 1) == 0 and d <= 1024 and abs(v["x"][0]) < 2 ** 20


def qclose(a, b, m, k=K):
    a, b, m = Q(a), Q(b), Q(m)
    return abs(a - b) <= k * Q(EPS) * max(abs(m), abs(a), abs(b)) + Q(1, 10 ** 300)


# ------------------------------------------------------------------------------------------ generators
def g_number(rng, kinds=None):
    k = rng.choice(kinds or ["int", "int", "bigint", "short", "short", "short", "dyadic", "float", "tiny", "zero"])
    if k == "int":
        return _I(rng.randint(-30, 30))
    if k == "bigint":
        return _I(rng.choice((1, -1)) * rng.randrange(10 ** rng.randint(2, 8)))
    if k == "short":
        kk = rng.randint(1, 6)
        m = rng.randrange(1, 10 ** rng.randint(1, 6))
        return _F(rng.choice((1, -1)) * float("%de-%d" % (m, kk)))
    if k == "dyadic":
        return _F(rng.randint(-4000, 4000) / 2.0 ** rng.randint(0, 6))
    if k == "float":
        return _F(rng.uniform(-1, 1) * 10.0 ** rng.randint(-3, 6))
    if k == "tiny":
        return _F(rng.choice((1, -1)) * rng.randint(1, 99) * 10.0 ** -rng.randint(7, 12))
    if k == "zero":
        return rng.choice([_I(0), _F(0.0)])
    if k == "long":
        return _F(rng.choice((1, -1)) * float("%de-%d" % (rng.randrange(10 ** 6, 10 ** 9), rng.randint(0, 9))))
    raise ValueError(k)


def g_pair(rng):
    """numerator / denominator of a Fraction object (ints)"""
    r = rng.random()
    if r < 0.6:
        d = rng.randint(1, 64)
        n = rng.randint(-3 * d, 3 * d)
    elif r < 0.85:
        d = rng.choice([2, 4, 8, 16, 32, 64])
        n = rng.randint(-200, 200)
    else:
        d = rng.randrange(1, 10 ** rng.randint(2, 6))
        n = rng.randint(-10 ** 6, 10 ** 6)
    if rng.random() < 0.08:
        n = 0
    return [n, d]


def g_fv(rng, kinds=None):
    return dict(n=g_number(rng, kinds or ["int", "int", "short", "dyadic", "dyadic", "zero", "float", "bigint"]), x=g_pair(rng))


def g_operand(rng):
    r = rng.random()
    if r < 0.5:
        return dict(t="frac", x=g_pair(rng))
    if r < 0.88:
        return dict(t="num", v=g_number(rng))
    if r < 0.92:
        return dict(t="seq", kind=rng.choice(SEQ_KINDS))
    return dict(t="num", v=rng.choice([["inf"], ["-inf"], ["none"], _I(0), _F(0.0)]))


SEQ_KINDS = ("list", "tuple", "str", "dict", "range")


def _seq_obj(kind):
    """an operand that is no number: `classify` calls it a sequence"""
    return {"list": [1, 2], "tuple": (1, 2), "str": "ab", "dict": {}, "range": range(2)}[kind]


def _operand_enc(o):
    if o["t"] == "frac":
        return dict(t="frac", x=qstr(Q(o["x"][0], o["x"][1])))
    if o["t"] == "seq":
        return dict(t="seq")
    return dict(t="num", v=_enc(o["v"]))


def _operand_obj(o):
    if o["t"] == "seq":
        return _seq_obj(o["kind"])
    return _fr(o["x"]) if o["t"] == "frac" else _obj(o["v"])


def c_frac_new(a, b):
    return dict(op="frac_new", a=_enc(a), b=(None if b is None else _enc(b)), _t=dict(a=a, b=b))


def c_frac_un(f, x):
    return dict(op="frac_un", f=f, x=qstr(Q(x[0], x[1])), _t=dict(x=x))


def c_frac_bin(f, x, o):
    return dict(op="frac_bin", f=f, x=qstr(Q(x[0], x[1])), o=_operand_enc(o), _t=dict(x=x, o=o))


def c_frac_cmp(f, x, o, refl):
    return dict(op="frac_cmp", f=f, x=qstr(Q(x[0], x[1])), o=_operand_enc(o), refl=bool(refl), _t=dict(x=x, o=o))


def c_fv_new(number, fr):
    if fr["t"] == "frac":
        e = dict(t="frac", x=qstr(Q(fr["x"][0], fr["x"][1])))
    elif fr["t"] == "pair":
        e = dict(t="pair", a=_enc(fr["a"]), b=_enc(fr["b"]))
    else:
        e = dict(t=fr["t"])
    return dict(op="fv_new", number=_enc(number), fr=e, _t=dict(number=number, fr=fr))


def c_fv1(op, v):
    return dict(op=op, v=_fv_enc(v), _t=dict(v=v))


def c_fv_cmp(f, a, b):
    be = _fv_enc(b) if "x" in b else dict(num=qstr(exact(_obj(b["num"]))))
    return dict(op="fv_cmp", f=f, a=_fv_enc(a), b=be, _t=dict(a=a, b=b))


def c_parse(text, cl=True):
    """CreateFromString(text) / CreateFromString(text, consider_locale=False)"""
    if cl:
        return dict(op="fv_parse", text=text, _t=dict())
    return dict(op="fv_parse", text=text, cl=False, _t=dict(consider_locale=False))


def c_cff(spec):
    if _fin(spec):
        x = _obj(spec)
        d = qstr(exact(x)) if isinstance(x, int) else qstr(Q(repr(x)))
    elif spec[0] == "none":
        d = "none"
    else:
        d = "bad"
    return dict(op="cff", d=d, _t=dict(x=spec))


def c_fs(op, db="posc", **kw):
    t = dict(kw)
    t["db"] = db
    line = dict(op=op, db=db)
    for k, v in kw.items():
        if k in ("cat", "from", "to", "cq"):
            line[k] = None if v is None else str(sym(v))
        elif k == "v":
            line[k] = _fv_enc(v)
        elif k in ("a", "b"):
            line[k] = dict(cat=str(sym(v["cat"])), unit=str(sym(v["unit"])), v=_fv_enc(v["v"]))
        else:
            line[k] = v
    line["_t"] = t
    return line


def c_cfv(q, frm, to, v, db="posc"):
    """a direct call of the classmethod FractionScalar.ConvertFractionValue(v, q, frm, to)"""
    qe = dict(t="qtype", s=str(sym(q["s"]))) if q["t"] == "qtype" else dict(t="quantity", cat=str(sym(q["cat"])), unit=str(sym(q["unit"])))
    line = dict(op="cfv", db=db, q=qe, to=str(sym(to)), v=_fv_enc(v), _t=dict(db=db, q=q, to=to, v=v, **{"from": frm}))
    line["from"] = str(sym(frm))
    return line


# ---- streams
def s_frac_new(rng, n):
    bs = [None, None, _I(1), _I(2), _I(-4), _I(64), _I(7), _F(2.0), _F(0.5), _F(-2.5), _F(0.1), _I(0), _F(0.0), ["inf"], ["-inf"],
          ["str"], _I(1000), _I(3)]
    for _ in range(n):
        r = rng.random()
        if r < 0.08:
            a = rng.choice([["inf"], ["-inf"], ["none"], ["str"]])
        elif r < 0.2:
            a = g_number(rng, ["long", "float", "tiny"])
        else:
            a = g_number(rng)
        yield c_frac_new(a, rng.choice(bs))


def s_frac_ops(rng, n):
    for _ in range(n):
        x = g_pair(rng)
        r = rng.random()
        if r < 0.2:
            yield c_frac_un(rng.choice(OPS_UN), x)
        elif r < 0.65:
            yield c_frac_bin(rng.choice(OPS_BIN), x, g_operand(rng))
        else:
            o = g_operand(rng)
            if rng.random() < 0.25:  # equal amounts in another spelling
                k = rng.randint(1, 5)
                o = rng.choice([dict(t="frac", x=[x[0] * k, x[1] * k]),
                                dict(t="num", v=_F(x[0] / x[1])) if x[1] in (1, 2, 4, 8, 16, 32, 64) else dict(t="frac", x=list(x))])
            yield c_frac_cmp(rng.choice(OPS_CMP), x, o, refl=(o["t"] == "num" and rng.random() < 0.4))


def s_fv(rng, n):
    bad_fr = [dict(t="badlen"), dict(t="bad"), dict(t="pair", a=_I(1), b=_I(0)), dict(t="pair", a=["inf"], b=_I(2)),
              dict(t="pair", a=_I(1), b=["str"]), dict(t="default")]
    for _ in range(n):
        r = rng.random()
        if r < 0.15:
            number = rng.choice([g_number(rng), g_number(rng), ["none"], ["str"]])
            fr = rng.choice(bad_fr + [dict(t="frac", x=g_pair(rng)), dict(t="pair", a=g_number(rng), b=_I(rng.randint(1, 64))),
                                      dict(t="pair", a=g_number(rng), b=_I(-rng.randint(1, 64)))])
            yield c_fv_new(number, fr)
        elif r < 0.3:
            yield c_fv1(rng.choice(["fv_float", "fv_copy"]), g_fv(rng))
        else:
            a = g_fv(rng)
            q = rng.random()
            if q < 0.3:  # the same amount split differently between number and fraction
                p = a["x"]
                if p[1] & (p[1] - 1) == 0 and _dyadic(a["n"]):
                    b = dict(n=_F(float(_fv_q(a))), x=[0, 1])
                else:
                    b = dict(n=a["n"], x=[p[0] * 3, p[1] * 3])
            elif q < 0.45:
                b = dict(num=g_number(rng, ["int", "short", "dyadic", "float"]))
            elif q < 0.55:
                b = copy.deepcopy(a)
            elif q < 0.7:  # one part changed: the same numerator over another denominator, another number, ...
                b = copy.deepcopy(a)
                w = rng.random()
                if w < 0.4:
                    b["x"] = [a["x"][0], a["x"][1] + rng.randint(1, 5)]
                elif w < 0.7:
                    b["x"] = [a["x"][0] + rng.choice((1, -1)), a["x"][1]]
                else:
                    b["n"] = g_number(rng, ["int", "dyadic"])
            else:
                b = g_fv(rng)
            yield c_fv_cmp(rng.choice(OPS_CMP), a, b)


def g_fv_printable(rng):
    """FractionValues whose parts print without exponent and without rounding in %g"""
    r = rng.random()
    if r < 0.4:
        n = _I(rng.randint(-999999, 999999))
    elif r < 0.5:
        n = _I(rng.randint(-40, 40))
    else:
        sd = rng.randint(1, 6)
        m = rng.randrange(1, 10 ** sd)
        e = rng.randint(-(sd + 3), 6 - sd)
        x = float("%de%d" % (m, e))
        n = _F(rng.choice((1, -1)) * x) if 1e-4 <= x < 1e6 else _I(m)
    d = rng.randint(1, 64) if rng.random() < 0.7 else rng.randrange(1, 10 ** rng.randint(2, 6))
    nn = rng.randint(-3 * d, 3 * d) if rng.random() < 0.8 else rng.randint(-999999, 999999)
    return dict(n=n, x=[nn, d])


def s_str(rng, n):
    for _ in range(n):
        r = rng.random()
        if r < 0.45:
            v = g_fv_printable(rng)
        elif r < 0.8:
            v = g_fv(rng, ["int", "bigint", "short", "dyadic", "float", "tiny", "zero", "long"])
        else:  # powers of ten and rounding boundaries of the six digits
            e = rng.randint(-7, 9)
            base = rng.choice([1, 9.999995, 9.9999949, 9.9999951, 1.000005, 1.0000051, 1.2345650, 1.2345649, 9.5, 5, 2.5, 9.99999, 0.999999])
            v = dict(n=_F(rng.choice((1, -1)) * base * 10.0 ** e), x=g_pair(rng))
        yield c_fv1(rng.choice(["fv_str", "fv_strparse", "fv_strparse"]), v)


ALPHABET = "0123456789" * 3 + "  ./,-+/\t" + "e"


def s_parse(rng, n):
    def num():
        return rng.choice(["", "", "-", "+"]) + str(rng.randrange(0, 10 ** rng.randint(1, 7))) + rng.choice(
            ["", "", ".%d" % rng.randrange(0, 1000), ".%03d" % rng.randrange(0, 1000), ",5", ".", ".5.5", ",5,25", "e3"])

    for _ in range(n):
        r = rng.random()
        if r < 0.3:
            s = "".join(rng.choice(ALPHABET) for _ in range(rng.randrange(0, 11)))
        elif r < 0.9:
            s = rng.choice(["", "", " ", "\t "]) + num() + rng.choice([" ", " ", "", "  ", "\t", "\n"]) + rng.choice(
                ["", num() + rng.choice(["/", "/", " / ", "/ ", " /"]) + rng.choice([str(rng.randrange(0, 70)), str(rng.randrange(0, 70)), "0", "08", "1.5", "-2", ""])]
            ) + rng.choice(["", "", " ", "\n"])
        else:
            s = rng.choice(["", " ", "/", "1/", "/2", "1 /2", "1//2", "1 2 3/4", "3/4 1", "0/1", "1/0", "0 0/1", "-0 -0/5", "5 3/4", "53/4", "123/4",
                            "1.25.5/4", "1,2,5/4", "12.5.5/4", "+5 +3/4", "--5", "5 - 3/4", "5\x0b3/4", "5\x0c3/4", "1e5", "1e5 1/2", "inf", "nan",
                            "5 3/4x", "x5 3/4", "5 3/4 ", "5  3  /  4", "00012 0003/0004", "1.50 2.50/5", ".5", "5.", "5. 1/2", "1/2/3"])
        yield c_parse(s)
        if rng.random() < 0.25:
            yield dict(op="fv_match", text=s, _t=dict())


def s_cff(rng, n):
    for _ in range(n):
        r = rng.random()
        if r < 0.03:
            yield c_cff(["str"] if rng.random() < 0.5 else _I(rng.randint(-1000, 1000)))
            continue
        if r < 0.1:
            yield c_cff(_F(float(rng.randint(-100000, 100000))))
            continue
        sd = rng.randint(1, 8)
        m = rng.randrange(1, 10 ** sd)
        e = rng.randint(-9, 5) if r < 0.8 else rng.randint(-sd, 0)
        x = float("%de%d" % (m, e)) * rng.choice((1, -1))
        if r > 0.97:
            x = rng.choice([1 / 3.0, 2 / 3.0, 0.1 + 0.2, 1e-5, 1.5e-7, 2.5e-5, 0.99999999, 0.5, 0.375, 1e16 + 2, 123456789.125, 1e22])
        yield c_cff(_F(x))


FV_CONV = [dict(n=_I(5), x=[1, 2]), dict(n=_I(0), x=[3, 4]), dict(n=_F(2.5), x=[-1, 8]), dict(n=_I(-3), x=[5, 16]), dict(n=_F(100.25), x=[7, 3]),
           dict(n=_I(12), x=[0, 1]), dict(n=_I(0), x=[33, 64]), dict(n=_I(1), x=[1, 1000])]


def s_fs_pairs(ctx, rng, per_type, nvals):
    """FractionScalar.GetValue over ordered unit pairs of every quantity type"""
    for qt in ctx.types:
        units = ctx.units[qt]
        cats = ctx.cats.get(qt) or []
        if not cats:
            continue
        pairs = [(u, v) for u in units for v in units]
        if per_type is not None and len(pairs) > per_type:
            forced = [(u, v) for (u, v) in pairs if u in ctx.affine or v in ctx.affine]
            rng.shuffle(forced)
            rest = rng.sample(pairs, per_type)
            pairs = forced[:per_type] + rest
        for (u, v) in pairs:
            for _ in range(nvals):
                fv = rng.choice(FV_CONV) if rng.random() < 0.7 else g_fv(rng, ["int", "short", "dyadic"])
                yield c_fs("fs_convert", cat=rng.choice(cats), to=v, v=fv, **{"from": u})


def _pick_fs(ctx, rng, qt=None, fexact=False):
    qt = qt or rng.choice(ctx.types_with_cat)
    v = g_fv(rng, ["int", "dyadic"]) if fexact else g_fv(rng, ["int", "short", "dyadic"])
    if fexact:
        v["x"] = [rng.randint(-64, 64), rng.choice([1, 2, 4, 8, 16, 32, 64])]
    return dict(cat=rng.choice(ctx.cats[qt]), unit=rng.choice(ctx.units[qt]), v=v)


def s_fs_misc(ctx, rng, n):
    for _ in range(n):
        r = rng.random()
        if r < 0.4:
            a = _pick_fs(ctx, rng, fexact=rng.random() < 0.4)
            qt = ctx.qtype_of_cat[a["cat"]]
            q = rng.random()
            if q < 0.12:
                b = _pick_fs(ctx, rng)                                    # usually another quantity type
            elif q < 0.45:
                b = dict(cat=rng.choice(ctx.cats[qt]), unit=a["unit"], v=copy.deepcopy(a["v"]))   # a tie in one unit
                if rng.random() < 0.5:
                    b["v"]["x"] = [b["v"]["x"][0] * 2, b["v"]["x"][1] * 2]
                if rng.random() < 0.3:
                    b["v"]["x"] = [b["v"]["x"][0] + 1, b["v"]["x"][1]]
            else:
                b = _pick_fs(ctx, rng, qt, fexact=rng.random() < 0.3)
            yield c_fs("fs_order", f=rng.choice(OPS_ORD), a=a, b=b)
        elif r < 0.55:
            a = _pick_fs(ctx, rng)
            b = copy.deepcopy(a)
            q = rng.random()
            if q < 0.3:
                b["v"]["x"] = [b["v"]["x"][0] * 3, b["v"]["x"][1] * 3]
            elif q < 0.5:
                b["unit"] = rng.choice(ctx.units[ctx.qtype_of_cat[a["cat"]]])
            elif q < 0.7:
                b["cat"] = rng.choice(ctx.cats[ctx.qtype_of_cat[a["cat"]]])
            elif q < 0.8:
                b["v"] = g_fv(rng)
            elif q < 0.9:
                b["v"]["x"] = [a["v"]["x"][0], a["v"]["x"][1] + rng.randint(1, 5)]
            yield c_fs("fs_eq", a=a, b=b)
        elif r < 0.8:
            cat = rng.choice(LIM_CATS)
            ci = ctx.lim.GetCategoryInfo(cat[0])
            qt = ci.quantity_type
            u = rng.choice(LIM_UNITS[qt])
            bounds = [b for b in (ci.min_value, ci.max_value) if b is not None] or [0.0]
            target = rng.choice(bounds) + rng.choice([0, 0, 0, 1, -1, 0.5, -0.5, 0.25, 10, -10, 1000, -1000])
            x = ctx.lim.Convert(qt, ci.default_unit, u, float(target))
            whole = math.floor(x)
            den = rng.choice([1, 2, 4, 8, 16])
            num = round((x - whole) * den)
            v = dict(n=_I(whole), x=[num, den])
            if rng.random() < 0.3:
                v = dict(n=_F(x - 0.5), x=[1, 2])
            yield c_fs("fs_valid", db="lim", a=dict(cat=cat[0], unit=u, v=v))
        elif r < 0.9:
            qt = rng.choice(ctx.types_with_cat)
            u, v = rng.choice(ctx.units[qt]), rng.choice(ctx.units[qt])
            cq = rng.choice([qt, rng.choice(ctx.cats[qt])])
            yield c_fs("db_convert", cq=cq, to=v, v=rng.choice(FV_CONV), **{"from": u})
        else:  # malformed: foreign units, unknown names, legacy spellings
            qt = rng.choice(ctx.types_with_cat)
            u = rng.choice(ctx.units[qt])
            other = rng.choice(ctx.units[rng.choice(ctx.types)])
            q = rng.random()
            if q < 0.3:
                yield c_fs("fs_convert", cat=rng.choice(ctx.cats[qt]), to=rng.choice([other, "nope", ""]), v=rng.choice(FV_CONV), **{"from": u})
            elif q < 0.5:
                yield c_fs("fs_convert", cat=rng.choice(ctx.cats[qt] + ["no such category"]), to=u, v=rng.choice(FV_CONV), **{"from": rng.choice([other, "nope"])})
            elif q < 0.7:
                yield c_fs("fs_convert", cat=rng.choice(ctx.cats[qt]), to=None, v=g_fv(rng), **{"from": u})
            elif q < 0.85:
                yield c_fs("db_convert", cq=rng.choice([qt, "no such type"]), to=rng.choice([other, u, "nope"]), v=rng.choice(FV_CONV), **{"from": rng.choice([u, other, "nope"])})
            elif ctx.legacy:
                lqt, leg = rng.choice(ctx.legacy)
                if ctx.cats.get(lqt):
                    yield c_fs("fs_convert", cat=rng.choice(ctx.cats[lqt]), to=rng.choice(ctx.units[lqt]), v=rng.choice(FV_CONV), **{"from": leg})


LIM_UNITS = {"length": ["m", "cm", "km"], "temperature": ["K", "degC"]}
# (name, quantity type, default unit, min, max, min exclusive, max exclusive): the same registrations as `limDb` of the driver
LIM_CATS = [("len_incl", "length", "m", 0.0, 1000.0, False, False), ("len_excl", "length", "m", 0.0, 1000.0, True, True),
            ("len_min", "length", "cm", 1.5, None, False, False), ("len_max", "length", "km", None, 2.0, False, True),
            ("temp_abs", "temperature", "K", 0.0, None, False, False), ("temp_c", "temperature", "degC", -273.15, 100.0, True, False),
            ("length", "length", "m", None, None, False, False)]


def build_lim_db():
    """a private database with value limits (no shipped category has any)"""
    from barril.units.unit_database import UnitDatabase

    db = UnitDatabase()
    db.AddUnitBase("length", "meters", "m")
    db.AddUnit("length", "centimeters", "cm", frombase=lambda x: x * 100.0, tobase=lambda x: x / 100.0)
    db.AddUnit("length", "kilometers", "km", frombase=lambda x: x / 1000.0, tobase=lambda x: x * 1000.0)
    db.AddUnitBase("temperature", "kelvin", "K")
    db.AddUnit("temperature", "celsius", "degC", frombase=lambda x: x - 273.15, tobase=lambda x: x + 273.15)
    db.AddCategory("temperature", "temperature")
    for name, qt, du, mn, mx, mnx, mxx in LIM_CATS:
        dv = mn if mn is not None else mx
        dv = 0.0 if dv is None else (dv + 1.0 if mx is None or dv + 1.0 < mx else dv - 1.0)
        db.AddCategory(name, qt, default_unit=du, default_value=dv, min_value=mn, max_value=mx, is_min_exclusive=mnx, is_max_exclusive=mxx)
    return db


CFV_VALUES = [dict(n=_I(2), x=[1, 2]), dict(n=_I(10), x=[3, 4]), dict(n=_I(-5), x=[7, 8]), dict(n=_F(0.5), x=[3, 32]),  # mixed
              dict(n=_I(7), x=[0, 1]), dict(n=_F(2.25), x=[0, 1]), dict(n=_I(-3), x=[0, 1]),                          # number only
              dict(n=_I(0), x=[1, 2]), dict(n=_I(0), x=[-5, 16]), dict(n=_I(0), x=[7, 3])]                            # fraction only


def s_cfv(ctx, rng, n):
    """direct calls of the public classmethod ConvertFractionValue(value, quantity_or_quantity_type, from_unit, to_unit): the
    second argument as a string and as Quantity objects in from_unit / to_unit / a third unit, any category of the type"""
    aff_types = [qt for qt in ctx.types_with_cat if any(u in ctx.affine for u in ctx.units[qt])]
    for _ in range(n):
        qt = rng.choice(aff_types) if (aff_types and rng.random() < 0.35) else rng.choice(ctx.types_with_cat)
        units = ctx.units[qt]
        if qt in aff_types and rng.random() < 0.7:
            au = [u for u in units if u in ctx.affine]
            u = rng.choice(au if rng.random() < 0.6 else units)
            v = rng.choice(au if rng.random() < 0.6 else units)
        else:
            u, v = rng.choice(units), rng.choice(units)
        w = rng.choice(units)
        cat = rng.choice(ctx.cats[qt])
        val = rng.choice(CFV_VALUES) if rng.random() < 0.75 else g_fv(rng, ["int", "short", "dyadic", "zero"])
        r = rng.random()
        if r < 0.22:
            q = dict(t="qtype", s=rng.choice([qt, qt, qt, cat, "no such quantity type", ""]))
        elif r < 0.42:
            q = dict(t="quantity", cat=cat, unit=u)
        elif r < 0.70:
            q = dict(t="quantity", cat=cat, unit=v)
        elif r < 0.93:
            q = dict(t="quantity", cat=cat, unit=w)
        else:  # malformed: a Quantity of another quantity type, an unknown unit, an unknown category
            oqt = rng.choice(ctx.types_with_cat)
            q = rng.choice([dict(t="quantity", cat=rng.choice(ctx.cats[oqt]), unit=rng.choice(ctx.units[oqt])),
                            dict(t="quantity", cat=cat, unit="nope"), dict(t="quantity", cat="no such category", unit=u)])
            if rng.random() < 0.3:
                u = rng.choice([u, "nope"])
        yield c_cfv(q, u, v, val)


# ------------------------------------------------------------------------------------------ setters, powers, sequence protocol
def _pynum_enc(spec):
    """a Python value given to a setter: ints and floats take different branches there"""
    k = spec[0]
    if k == "i":
        return "i:%d/1" % spec[1]
    if k == "f":
        return "f:" + qstr(exact(_obj(spec)))
    if k in ("inf", "-inf", "none"):
        return k
    return "bad"


def _key_obj(key):
    return None if key == "none" else key


def _key_enc(key):
    return key if isinstance(key, int) else None


def _fracarg_enc(fr):
    if fr["t"] == "frac":
        return dict(t="frac", x=qstr(Q(fr["x"][0], fr["x"][1])))
    if fr["t"] == "pair":
        return dict(t="pair", a=_enc(fr["a"]), b=_enc(fr["b"]))
    return dict(t=fr["t"])


def _fracarg_obj(fr):
    return {"frac": lambda: _fr(fr["x"]), "pair": lambda: (_obj(fr["a"]), _obj(fr["b"])), "badlen": lambda: (1, 2, 3),
            "bad": lambda: [1, 2]}[fr["t"]]()


def _number_enc(spec):
    return qstr(exact(_obj(spec))) if _fin(spec) else "bad"


def _mut_enc(m):
    t = m["t"]
    if t in ("setnum", "setden"):
        return dict(t=t, v=_pynum_enc(m["v"]))
    if t == "setitem":
        return dict(t=t, key=_key_enc(m["key"]), v=_pynum_enc(m["v"]))
    if t == "reduce":
        return dict(t=t)
    if t == "setnumber":
        return dict(t=t, n=_number_enc(m["n"]))
    if t == "setfraction":
        return dict(t=t, fr=_fracarg_enc(m["fr"]))
    raise ValueError(t)


def _pow_enc(e):
    k = e[0]
    if k in ("i", "f"):
        return "%s:%d" % (k, e[1])
    if k in ("inf", "-inf", "frac"):
        return k
    return "bad"


def _pow_obj(e):
    k = e[0]
    if k == "i":
        return e[1]
    if k == "f":
        return float(e[1])
    if k == "frac":
        return _fr([1, 2])
    return _obj(e)


def c_frac_pow(x, e):
    return dict(op="frac_pow", x=qstr(Q(x[0], x[1])), e=_pow_enc(e), _t=dict(x=x, e=e))


def c_frac_set(x, m):
    return dict(op="frac_set", x=qstr(Q(x[0], x[1])), m=_mut_enc(m), _t=dict(x=x, m=m))


def c_frac_seq(f, x, key=None):
    c = dict(op="frac_seq", f=f, x=qstr(Q(x[0], x[1])), _t=dict(x=x))
    if f == "getitem":
        c["key"] = _key_enc(key)
        c["_t"]["key"] = key
    return c


SET_INTS = [1, 2, 3, 4, 5, 7, 8, 16, -1, -3, 10, 64, 100]
SET_FLOATS = [0.5, 0.25, 1.5, 2.0, -0.5, 0.1, 2.5, 0.125, 3.0, 1e-3, 12.5]


def g_setval(rng, zero=0.06, odd=0.12):
    """the value handed to a setter: ints, short-decimal floats, and the special ones"""
    r = rng.random()
    if r < zero:
        return rng.choice([_I(0), _F(0.0)])
    if r < zero + odd:
        return rng.choice([["inf"], ["-inf"], ["none"], ["str"]])
    if r < 0.7:
        return _I(rng.choice(SET_INTS) if rng.random() < 0.7 else rng.randint(-999, 999))
    return _F(rng.choice(SET_FLOATS) if rng.random() < 0.7 else float("%de-%d" % (rng.randrange(1, 10 ** 4), rng.randint(1, 4))))


def g_key(rng):
    return rng.choice([0, 1, 0, 1, -1, -2, 2, -3, 5, "none"])


def g_fracarg(rng, bad=0.1):
    r = rng.random()
    if r < bad:
        return rng.choice([dict(t="badlen"), dict(t="bad"), dict(t="pair", a=_I(1), b=_I(0)), dict(t="pair", a=["inf"], b=_I(2)),
                           dict(t="pair", a=_I(1), b=["str"])])
    if r < 0.5:
        return dict(t="frac", x=g_pair(rng))
    d = rng.randint(1, 64)
    a = _I(rng.randint(-3 * d, 3 * d)) if rng.random() < 0.8 else _F(rng.choice(SET_FLOATS))
    return dict(t="pair", a=a, b=_I(d * rng.choice((1, 1, 1, -1))))


def g_frac_mut(rng):
    r = rng.random()
    if r < 0.35:
        return dict(t="setnum", v=g_setval(rng))
    if r < 0.65:
        return dict(t="setden", v=g_setval(rng))
    if r < 0.92:
        return dict(t="setitem", key=g_key(rng), v=g_setval(rng))
    return dict(t="reduce")


def g_pow(rng):
    r = rng.random()
    if r < 0.55:
        return ["i", rng.randint(-6, 6)]
    if r < 0.85:
        return ["f", rng.randint(-5, 5)]
    return rng.choice([["inf"], ["-inf"], ["str"], ["none"], ["frac"]])


def g_small_pair(rng):
    d = rng.randint(1, 30)
    n = rng.randint(-30, 30)
    if rng.random() < 0.1:
        n = rng.choice([0, d, -d])
    return [n, d]


def s_frac_more(rng, n):
    """`**`, the in-place setters and the sequence protocol of one Fraction"""
    for _ in range(n):
        r = rng.random()
        if r < 0.3:
            yield c_frac_pow(g_small_pair(rng), g_pow(rng))
        elif r < 0.8:
            yield c_frac_set(g_pair(rng), g_frac_mut(rng))
        else:
            f = rng.choice(["len", "iter", "getitem", "getitem"])
            yield c_frac_seq(f, g_pair(rng), g_key(rng))


def s_fv_more(rng, n):
    """the localized texts, CreateFromString without the locale, CreateFromFloat's other exits"""
    for _ in range(n):
        r = rng.random()
        if r < 0.3:
            v = g_fv_printable(rng) if rng.random() < 0.7 else g_fv(rng, ["int", "short", "dyadic", "zero"])
            if rng.random() < 0.3:
                v["x"] = [0, 1]
            yield c_fv1(rng.choice(["fv_lstr", "fv_lfrac", "fv_lparse"]), v)
        elif r < 0.6:
            v = g_fv_printable(rng)
            text = rng.choice(["%s", "%s", " %s ", "%s\n"]) % _py_text(v)
            if rng.random() < 0.2:
                text = rng.choice(["", "1/0", "5 3/4x", "1,5 1/2", "2.5", "3/4", "-0.5 -1/4", "1e5", "5  3  /  4", "1.25.5/4", "7,5"])
            yield c_parse(text, cl=False)
        else:
            q = rng.random()
            if q < 0.1:
                yield c_cff(["none"])
            elif q < 0.3:  # two successive convergents print alike (the loop's second exit), values next to an integer
                x = rng.choice([0.051798867, 0.055685333, 0.99999999, 1.9999999, 5.999999, 1.0000001, 3.00000001, 0.00999999, 12.000001,
                                0.33333333, 0.66666667, 0.14285714, 0.11111111, 2.7182818, 3.1415927, 1.4142136, 0.70710678])
                yield c_cff(_F(x * rng.choice((1, -1))))
            elif q < 0.7:  # quotients of small integers, cut to 8 significant digits (longer inputs: see the finding `cff-long-float`)
                a, b = rng.randint(1, 400), rng.randint(2, 400)
                yield c_cff(_F(rng.choice((1, -1)) * float("%.8g" % (rng.randint(0, 30) + a / b))))
            else:
                yield c_cff(_F(rng.choice((1, -1)) * (rng.randint(0, 9) + 1 - 10.0 ** -rng.randint(2, 7))))


def _py_text(v):
    """str() of a FractionValue spec, by Python's own '%g' (used only to build input texts)"""
    n = "%g" % _obj(v["n"])
    x = Q(v["x"][0], v["x"][1])
    return n if x == 0 else "%s %d/%d" % (n, x.numerator, x.denominator)


# ------------------------------------------------------------------------------------------ programs over a pool of objects
HIST_NUMBERS = [0, 1, 2, 3, 4, 5, 7, 10, 12, -3, -1, 100, 2.5, 0.5, 0.25, 1.5, -2.5, 0.1, 7.0, 3.0, 0.0, 100.25, 273.15, 32.0]


def g_hist_number(rng):
    x = rng.choice(HIST_NUMBERS) if rng.random() < 0.8 else rng.randint(-999, 999)
    return _I(x) if isinstance(x, int) else _F(x)


class _Tracker:
    """what the generator expects the pool to look like (only to aim later statements well; a wrong guess makes a
    reference hit another member, which is still a program both sides run)"""

    def __init__(self):
        self.kinds = []
        self.nz = []          # fractions: "nz" / "zero" / "unk"

    def of(self, kind):
        return [i for i, k in enumerate(self.kinds) if k == kind]

    def add(self, kind, nz="unk"):
        self.kinds.append(kind)
        self.nz.append(nz)


def _g_ctor(ctx, rng, tr, dbname, focus):
    """one constructing statement; returns (ctor spec, predicted kind or None, nz)"""
    fr, fv, fs = tr.of("frac"), tr.of("fv"), tr.of("fs")
    forms = ["fv_n", "fv_n", "fv_0", "fv_pair", "fv_frac", "fv_kw", "cff", "cff_int", "parse", "frac_new", "fs_num", "fs_fv"]
    if focus:
        forms = ["fv_n", "fv_n", "fv_0", "cff_int", "fs_num", "fv_kw", "fv_pair"]
    else:
        if fv:
            forms += ["fv_copy", "fv_copy", "fv_convert"]
        if fr:
            forms += ["frac_un", "frac_bin", "frac_bin", "frac_pow"]
        if fs:
            forms += ["fs_get", "fs_get"]
        if rng.random() < 0.08:
            forms = ["bad"]
    f = rng.choice(forms)
    qt, cat, units = _hist_quantity(ctx, rng, dbname)
    if f == "fv_n":
        return dict(t="fv_new", form="n", number=g_hist_number(rng), fr=dict(t="default")), "fv", None
    if f == "fv_0":
        return dict(t="fv_new", form="0", number=_F(0.0), fr=dict(t="default")), "fv", None
    if f == "fv_kw":
        return dict(t="fv_new", form="kw", number=g_hist_number(rng), fr=dict(t="default")), "fv", None
    if f == "fv_pair":
        d = rng.choice([2, 4, 8, 16, 3, 5, 64, 10])
        return dict(t="fv_new", form="nf", number=g_hist_number(rng), fr=dict(t="pair", a=_I(rng.randint(-2 * d, 2 * d)), b=_I(d))), "fv", None
    if f == "fv_frac":
        return dict(t="fv_new", form=rng.choice(["nf", "kwf"]), number=g_hist_number(rng), fr=dict(t="frac", x=g_small_pair(rng))), "fv", None
    if f == "cff":
        a, b = rng.randint(1, 63), rng.choice([2, 4, 8, 16, 5, 10, 32, 64])
        return dict(t="cff", x=_F(rng.choice((1, -1)) * (rng.randint(0, 20) + a / b))), "fv", None
    if f == "cff_int":
        return dict(t="cff", x=rng.choice([_F(float(rng.randint(-50, 50))), _I(rng.randint(-50, 50))])), "fv", None
    if f == "parse":
        v = dict(n=_I(rng.randint(-99, 99)) if rng.random() < 0.6 else _F(rng.choice([2.5, 0.25, 12.5, 100.75])), x=g_small_pair(rng))
        return dict(t="fv_parse", text=_py_text(v), cl=rng.random() < 0.7), "fv", None
    if f == "frac_new":
        a = _I(rng.randint(-40, 40)) if rng.random() < 0.7 else _F(rng.choice(SET_FLOATS))
        b = rng.choice([None, _I(rng.randint(1, 40)), _I(-rng.randint(1, 9)), _F(0.5), _F(2.0)])
        return dict(t="frac_new", a=a, b=b), "frac", ("zero" if _obj(a) == 0 else "nz")
    if f == "fs_num":
        return dict(t="fs_new", cat=cat, unit=rng.choice(units), v=dict(t="num", v=g_hist_number(rng))), "fs", None
    if f == "fs_fv":
        return dict(t="fs_new", cat=cat, unit=rng.choice(units), v=dict(t="fv", v=dict(n=g_hist_number(rng), x=g_small_pair(rng)))), "fs", None
    if f == "fv_copy":
        return dict(t="fv_copy", k=rng.choice(fv)), "fv", None
    if f == "fv_convert":
        u, w = rng.choice(units), rng.choice(units)
        q = dict(t="qtype", s=qt) if rng.random() < 0.4 else dict(t="quantity", cat=cat, unit=rng.choice(units))
        return dict(t="fv_convert", k=rng.choice(fv), q=q, to=w, **{"from": u}), "fv", None
    if f == "frac_un":
        k = rng.choice(fr)
        g = rng.choice(["neg", "abs", "copy", "copy", "inv"])
        if g == "inv" and tr.nz[k] == "unk":
            g = "copy"
        ok = not (g == "inv" and tr.nz[k] == "zero")
        return dict(t="frac_un", f=g, k=k), ("frac" if ok else None), (tr.nz[k] if ok else None)
    if f == "frac_bin":
        k = rng.choice(fr)
        g = rng.choice(OPS_BIN)
        if rng.random() < 0.5 and len(fr) > 1:
            j = rng.choice(fr)
            o, onz = dict(t="ref", k=j), tr.nz[j]
        else:
            if rng.random() < 0.5:
                p = g_small_pair(rng)
                o, onz = dict(t="frac", x=p), ("zero" if p[0] == 0 else "nz")
            else:
                x = rng.choice([1, 2, 3, -2, 5, 0.5, 0.25, 1.5, 10, 0.1])
                o, onz = dict(t="num", v=(_I(x) if isinstance(x, int) else _F(x))), "nz"
            if rng.random() < 0.04:
                o, onz = dict(t="seq", kind=rng.choice(SEQ_KINDS)), "bad"
        if g in ("div", "mod") and onz == "unk":
            g = "mul"
        if g == "rdiv" and tr.nz[k] == "unk":
            g = "rmul"
        ok = onz != "bad" and not (g in ("div", "mod") and onz == "zero") and not (g == "rdiv" and tr.nz[k] == "zero")
        nz = "unk"
        if ok and g in ("mul", "rmul", "div", "rdiv"):
            a, b = tr.nz[k], onz
            nz = "zero" if "zero" in (a, b) and g in ("mul", "rmul") else ("nz" if a == b == "nz" else "unk")
            if g == "div" and a == "zero":
                nz = "zero"
            if g == "rdiv" and b == "zero":
                nz = "zero"
        return dict(t="frac_bin", f=g, k=k, o=o), ("frac" if ok else None), nz
    if f == "frac_pow":
        k = rng.choice(fr)
        e = g_pow(rng)
        if e[0] in ("i", "f") and abs(e[1]) > 4:
            e = [e[0], e[1] % 4]
        if e[0] in ("i", "f") and e[1] < 0 and tr.nz[k] != "nz":
            e = [e[0], -e[1]]
        ok = e[0] in ("i", "f")
        return dict(t="frac_pow", k=k, e=e), ("frac" if ok else None), (tr.nz[k] if ok and e[1] != 0 else "nz")
    if f == "fs_get":
        k = rng.choice(fs)
        return dict(t="fs_get", k=k, unit=rng.choice(tr.fs_units.get(k) or units)), "fv", None
    # statements that fail (nothing is built)
    bad = [dict(t="fv_new", form="n", number=["str"], fr=dict(t="default")), dict(t="fv_new", form="nf", number=_I(1), fr=dict(t="badlen")),
           dict(t="fv_new", form="nf", number=_I(1), fr=dict(t="bad")), dict(t="fv_new", form="nf", number=_I(1), fr=dict(t="pair", a=_I(1), b=_I(0))),
           dict(t="cff", x=["str"]), dict(t="cff", x=["none"]), dict(t="fv_parse", text="1/0", cl=True), dict(t="fv_parse", text="5 3/4x", cl=False),
           dict(t="frac_new", a=["inf"], b=None), dict(t="frac_new", a=_I(1), b=_I(0)), dict(t="fv_copy", k=len(tr.kinds) + 3),
           dict(t="frac_un", f="neg", k=len(tr.kinds))]
    return rng.choice(bad), None, None


def _hist_quantity(ctx, rng, dbname):
    if dbname == "lim":
        qt = rng.choice(["length", "length", "temperature"])
        return qt, qt, LIM_UNITS[qt]
    qt = rng.choice(ctx.hist_types)
    return qt, rng.choice(ctx.cats[qt]), ctx.units[qt]


def _g_mut(rng, kind):
    r = rng.random()
    if kind == "frac":
        if r < 0.04:
            return rng.choice([dict(t="setnumber", n=_I(3), via="method"), dict(t="setfraction", fr=dict(t="pair", a=_I(1), b=_I(2)), via="method")])
        return g_frac_mut(rng)
    if r < 0.55:
        return g_frac_mut(rng)
    if r < 0.8:
        n = g_hist_number(rng) if rng.random() < 0.9 else rng.choice([["none"], ["str"]])
        return dict(t="setnumber", n=n, via=rng.choice(["method", "prop"]))
    return dict(t="setfraction", fr=g_fracarg(rng), via=rng.choice(["method", "prop"]))


def g_program(ctx, rng):
    dbname = "lim" if (rng.random() < 0.7 or not ctx.hist_types) else "posc"
    tr = _Tracker()
    tr.fs_units = {}
    ops = []
    n_first = rng.randint(2, 4)
    total = rng.randint(5, 12)
    while len(ops) < total:
        first = len(ops) < n_first
        if not first and tr.kinds and rng.random() < 0.5:
            i = rng.randrange(len(tr.kinds)) if rng.random() < 0.97 else len(tr.kinds) + rng.randint(0, 2)
            kind = tr.kinds[i] if i < len(tr.kinds) else "fv"
            m = _g_mut(rng, kind)
            ops.append(dict(k="upd", i=i, m=m))
            if kind == "frac" and i < len(tr.kinds):
                tr.nz[i] = "unk"
                if m["t"] == "setnum" and m["v"][0] == "i":
                    tr.nz[i] = "zero" if m["v"][1] == 0 else "nz"
            continue
        c, kind, nz = _g_ctor(ctx, rng, tr, dbname, focus=first and rng.random() < 0.8)
        ops.append(dict(k="new", c=c))
        if kind is not None:
            if kind == "fs":
                tr.fs_units[len(tr.kinds)] = LIM_UNITS[c["cat"]] if dbname == "lim" else ctx.units[ctx.qtype_of_cat[c["cat"]]]
            tr.add(kind, nz or "unk")
    return dbname, ops


def _ctor_enc(c):
    t = c["t"]
    if t == "frac_new":
        return dict(t=t, a=_enc(c["a"]), b=(None if c["b"] is None else _enc(c["b"])))
    if t == "frac_un":
        return dict(t=t, f=c["f"], k=c["k"])
    if t == "frac_bin":
        o = c["o"]
        return dict(t=t, f=c["f"], k=c["k"], o=(dict(t="ref", k=o["k"]) if o["t"] == "ref" else _operand_enc(o)))
    if t == "frac_pow":
        return dict(t=t, k=c["k"], e=_pow_enc(c["e"]))
    if t == "fv_new":
        return dict(t=t, number=_number_enc(c["number"]), fr=_fracarg_enc(c["fr"]))
    if t == "cff":
        return dict(t=t, d=c_cff(c["x"])["d"])
    if t == "fv_parse":
        return dict(t=t, text=c["text"], cl=bool(c["cl"]))
    if t == "fv_copy":
        return dict(t=t, k=c["k"])
    if t == "fs_new":
        v = c["v"]
        ve = dict(t="num", q=qstr(exact(_obj(v["v"])))) if v["t"] == "num" else dict(t="fv", **_fv_enc(v["v"]))
        return dict(t=t, cat=str(sym(c["cat"])), unit=str(sym(c["unit"])), v=ve)
    if t == "fs_get":
        return dict(t=t, k=c["k"], unit=str(sym(c["unit"])))
    if t == "fv_convert":
        q = c["q"]
        qe = dict(t="qtype", s=str(sym(q["s"]))) if q["t"] == "qtype" else dict(t="quantity", cat=str(sym(q["cat"])), unit=str(sym(q["unit"])))
        return {"t": t, "k": c["k"], "q": qe, "from": str(sym(c["from"])), "to": str(sym(c["to"]))}
    raise ValueError(t)


def c_hist(dbname, ops):
    enc = [dict(k="new", c=_ctor_enc(o["c"])) if o["k"] == "new" else dict(k="upd", i=o["i"], m=_mut_enc(o["m"])) for o in ops]
    return dict(op="hist", db=dbname, ops=enc, _t=dict(db=dbname, ops=ops))


def s_hist(ctx, rng, n):
    for _ in range(n):
        dbname, ops = g_program(ctx, rng)
        yield c_hist(dbname, ops)


# ---- a program as Python text (evidence, replays)
def _lit(spec):
    return repr(_obj(spec)) if spec[0] != "str" else "'x'"


def _fracarg_text(fr):
    if fr["t"] == "frac":
        return "Fraction(%d, %d)" % tuple(fr["x"])
    if fr["t"] == "pair":
        return "(%s, %s)" % (_lit(fr["a"]), _lit(fr["b"]))
    return "(1, 2, 3)" if fr["t"] == "badlen" else "[1, 2]"


def _ctor_text(c):
    t = c["t"]
    if t == "frac_new":
        return "Fraction(%s)" % _lit(c["a"]) if c["b"] is None else "Fraction(%s, %s)" % (_lit(c["a"]), _lit(c["b"]))
    if t == "frac_un":
        return {"neg": "-p%d", "abs": "abs(p%d)", "inv": "p%d.inv()", "copy": "p%d.copy()"}[c["f"]] % c["k"]
    if t == "frac_bin":
        o = c["o"]
        ot = "p%d" % o["k"] if o["t"] == "ref" else ("Fraction(%d, %d)" % tuple(o["x"]) if o["t"] == "frac" else
                                                     (repr(_seq_obj(o["kind"])) if o["t"] == "seq" else _lit(o["v"])))
        sym_ = {"add": "+", "radd": "+", "sub": "-", "rsub": "-", "mul": "*", "rmul": "*", "div": "/", "rdiv": "/", "mod": "%"}[c["f"]]
        return "%s %s p%d" % (ot, sym_, c["k"]) if c["f"].startswith("r") else "p%d %s %s" % (c["k"], sym_, ot)
    if t == "frac_pow":
        e = c["e"]
        return "p%d ** %s" % (c["k"], "Fraction(1, 2)" if e[0] == "frac" else ("'x'" if e[0] == "str" else repr(_pow_obj(e))))
    if t == "fv_new":
        form = c["form"]
        if form == "0":
            return "FractionValue()"
        if form == "n":
            return "FractionValue(%s)" % _lit(c["number"])
        if form == "kw":
            return "FractionValue(number=%s)" % _lit(c["number"])
        if form == "kwf":
            return "FractionValue(number=%s, fraction=%s)" % (_lit(c["number"]), _fracarg_text(c["fr"]))
        return "FractionValue(%s, %s)" % (_lit(c["number"]), _fracarg_text(c["fr"]))
    if t == "cff":
        return "FractionValue.CreateFromFloat(%s)" % _lit(c["x"])
    if t == "fv_parse":
        return "FractionValue.CreateFromString(%r%s)" % (c["text"], "" if c["cl"] else ", consider_locale=False")
    if t == "fv_copy":
        return "copy.copy(p%d)" % c["k"]
    if t == "fs_new":
        v = c["v"]
        vt = _lit(v["v"]) if v["t"] == "num" else _show_val(v["v"])
        return "FractionScalar(%r, value=%s, unit=%r)" % (c["cat"], vt, c["unit"])
    if t == "fs_get":
        return "p%d.GetValue(%r)" % (c["k"], c["unit"])
    if t == "fv_convert":
        q = c["q"]
        qt = repr(q["s"]) if q["t"] == "qtype" else "ObtainQuantity(%r, %r)" % (q["unit"], q["cat"])
        return "FractionScalar.ConvertFractionValue(p%d, %s, %r, %r)" % (c["k"], qt, c["from"], c["to"])
    return str(c)


def _mut_text(i, m, kind="?"):
    path = {"frac": "p%d", "fv": "p%d.fraction", "fs": "p%d.GetValue().fraction"}.get(kind, "fraction_of(p%d)") % i
    own = {"fs": "p%d.GetValue()"}.get(kind, "p%d") % i
    t = m["t"]
    if t == "setnum":
        return "%s.numerator = %s" % (path, _lit(m["v"]))
    if t == "setden":
        return "%s.denominator = %s" % (path, _lit(m["v"]))
    if t == "setitem":
        return "%s[%s] = %s" % (path, "None" if m["key"] == "none" else m["key"], _lit(m["v"]))
    if t == "reduce":
        return "%s.reduce()" % path
    if t == "setnumber":
        return "%s.number = %s" % (own, _lit(m["n"])) if m.get("via") == "prop" else "%s.SetNumber(%s)" % (own, _lit(m["n"]))
    return "%s.fraction = %s" % (own, _fracarg_text(m["fr"])) if m.get("via") == "prop" else "%s.SetFraction(%s)" % (own, _fracarg_text(m["fr"]))


def _program_text(ops, kinds=None):
    """the statements; `pK` is the K-th object built so far (a failing construction builds none)"""
    out = []
    for o in ops:
        if o["k"] == "new":
            out.append("new: " + _ctor_text(o["c"]))
        else:
            out.append(_mut_text(o["i"], o["m"], (kinds or {}).get(o["i"], "?")))
    return out


# ---- running a program on the real code
class _WrongKind(RuntimeError):
    pass


def _member(pool, k, cls):
    if not (0 <= k < len(pool)) or not isinstance(pool[k], cls):
        raise _WrongKind("statement refers to an object that is not there")
    return pool[k]


def _build(c, pool):
    """run one constructing statement on the real code; the new object or None"""
    from barril.basic.fraction import Fraction, FractionValue
    from barril.units import FractionScalar, ObtainQuantity

    t = c["t"]
    if t == "frac_new":
        return Fraction(_obj(c["a"])) if c["b"] is None else Fraction(_obj(c["a"]), _obj(c["b"]))
    if t == "frac_un":
        x = _member(pool, c["k"], Fraction)
        return {"neg": lambda: -x, "abs": lambda: abs(x), "inv": x.inv, "copy": x.copy}[c["f"]]()
    if t == "frac_bin":
        x = _member(pool, c["k"], Fraction)
        o = c["o"]
        y = _member(pool, o["k"], Fraction) if o["t"] == "ref" else _operand_obj(o)
        r = {"add": lambda: x + y, "radd": lambda: y + x, "sub": lambda: x - y, "rsub": lambda: y - x, "mul": lambda: x * y,
             "rmul": lambda: y * x, "div": lambda: x / y, "rdiv": lambda: y / x, "mod": lambda: x % y}[c["f"]]()
        if not isinstance(r, Fraction):
            raise LookupError("result is %r" % type(r).__name__)
        return r
    if t == "frac_pow":
        return _member(pool, c["k"], Fraction) ** _pow_obj(c["e"])
    if t == "fv_new":
        form = c["form"]
        if form == "0":
            return FractionValue()
        if form == "n":
            return FractionValue(_obj(c["number"]))
        if form == "kw":
            return FractionValue(number=_obj(c["number"]))
        if form == "kwf":
            return FractionValue(number=_obj(c["number"]), fraction=_fracarg_obj(c["fr"]))
        return FractionValue(_obj(c["number"]), _fracarg_obj(c["fr"]))
    if t == "cff":
        return FractionValue.CreateFromFloat(_obj(c["x"]))
    if t == "fv_parse":
        return FractionValue.CreateFromString(c["text"]) if c["cl"] else FractionValue.CreateFromString(c["text"], consider_locale=False)
    if t == "fv_copy":
        return copy.copy(_member(pool, c["k"], FractionValue))
    if t == "fs_new":
        v = c["v"]
        return FractionScalar(c["cat"], value=(_obj(v["v"]) if v["t"] == "num" else _fv(v["v"])), unit=c["unit"])
    if t == "fs_get":
        return _member(pool, c["k"], FractionScalar).GetValue(c["unit"])
    if t == "fv_convert":
        q = c["q"]
        arg = q["s"] if q["t"] == "qtype" else ObtainQuantity(q["unit"], q["cat"])
        return FractionScalar.ConvertFractionValue(_member(pool, c["k"], FractionValue), arg, c["from"], c["to"])
    raise ValueError(t)


def _mutate(pool, i, m):
    """run one in-place statement on the real code"""
    from barril.basic.fraction import Fraction, FractionValue

    if not (0 <= i < len(pool)):
        raise _WrongKind("statement refers to an object that is not there")
    o = pool[i]
    t = m["t"]
    if t in ("setnumber", "setfraction"):
        own = o if isinstance(o, (Fraction, FractionValue)) else o.GetValue()
        arg = _obj(m["n"]) if t == "setnumber" else _fracarg_obj(m["fr"])
        if m.get("via") == "prop" and not isinstance(own, Fraction):
            if t == "setnumber":
                own.number = arg
            else:
                own.fraction = arg
        elif t == "setnumber":
            own.SetNumber(arg)
        else:
            own.SetFraction(arg)
        return
    f = o if isinstance(o, Fraction) else (o.fraction if isinstance(o, FractionValue) else o.GetValue().fraction)
    if t == "setnum":
        f.numerator = _obj(m["v"])
    elif t == "setden":
        f.denominator = _obj(m["v"])
    elif t == "setitem":
        f[_key_obj(m["key"])] = _obj(m["v"])
    elif t == "reduce":
        f.reduce()
    else:
        raise ValueError(t)


def _kind_of(o):
    from barril.basic.fraction import Fraction, FractionValue

    return "frac" if isinstance(o, Fraction) else ("fv" if isinstance(o, FractionValue) else "fs")


def _snap(o):
    """everything an object shows: float(), str(), parts (for a FractionScalar of its value, plus category and unit)"""
    k = _kind_of(o)
    if k == "frac":
        return dict(k=k, x=qstr(o.x), s=str(o), f=float(o).hex(), parts=[o.numerator, o.denominator], seq=[len(o), list(o), o[0], o[1]])
    v = o if k == "fv" else o.GetValue()
    d = dict(k=k, n=qstr(exact(v.number)), x=qstr(v.fraction.x), s=str(v), f=float(v).hex(),
             parts=[v.GetNumber(), v.GetFraction().numerator, v.GetFraction().denominator])
    if v.number == 0 and math.copysign(1.0, v.number) < 0:
        d["negzero"] = True      # the float -0.0 prints as '-0'; the rational model has one zero
    if k == "fs":
        d["cat"] = str(sym(o.GetQuantity().GetCategory()))
        d["unit"] = str(sym(o.GetUnit()))
    return d


def _run_program(ops, on_step=None):
    """the program on the real code: after every statement what it did and what every object shows"""
    pool, trace = [], []
    for idx, o in enumerate(ops):
        try:
            if o["k"] == "new":
                r = _build(o["c"], pool)
                if r is not None:
                    pool.append(r)
            else:
                _mutate(pool, o["i"], o["m"])
            res = "ok"
        except _WrongKind:
            res = "runtime"
        except Exception as e:
            res = err_kind(e)
        trace.append(dict(r=res, pool=[_snap(p) for p in pool]))
        if on_step is not None:
            on_step(idx, o, res, pool)
    return trace


SIZES = {
    "quick": dict(frac_new=8000, frac_ops=16000, fv=8000, str=12000, parse=16000, cff=12000, per_type=25, nvals=1, misc=8000, cfv=8000,
                  frac_more=6000, fv_more=4000, hist=2500),
    "thorough": dict(frac_new=30000, frac_ops=60000, fv=30000, str=50000, parse=60000, cff=60000, per_type=None, nvals=2, misc=25000,
                     cfv=50000, frac_more=30000, fv_more=20000, hist=20000),
}


def setup(ctx):
    import translate
    from barril.units.unit_database import _LEGACY_TO_CURRENT

    db = translate.build_db("posc")
    ctx.db = db
    ctx.types = list(db.quantity_types)
    ctx.units = {qt: [i.unit for i in infos] for qt, infos in db.quantity_types.items()}
    cats = {}
    ctx.qtype_of_cat = {}
    for name, ci in db.categories_to_quantity_types.items():
        cats.setdefault(ci.quantity_type, []).append(name)
        ctx.qtype_of_cat[name] = ci.quantity_type
    ctx.cats = cats
    ctx.types_with_cat = [qt for qt in ctx.types if cats.get(qt)]
    ctx.lim = build_lim_db()
    aff = set()
    for qt, infos in db.quantity_types.items():
        for i in infos:
            try:
                if i.tobase(0.0) != 0.0:
                    aff.add(i.unit)
            except Exception:
                pass
    ctx.affine = aff
    leg = []
    for qt, us in ctx.units.items():
        for u in us:
            for old, new in _LEGACY_TO_CURRENT:
                if new in u:
                    s = u.replace(new, old)
                    if s not in db.unit_to_unit_info:
                        leg.append((qt, s))
    ctx.legacy = sorted(set(leg))
    ctx.hist_types = [qt for qt in ("length", "temperature", "pressure", "volume", "time", "mass") if cats.get(qt) and qt in ctx.units]


def _streams(ctx, salt, z):
    yield from s_frac_new(ctx.fresh_rng("C18new" + salt), z["frac_new"])
    yield from s_frac_ops(ctx.fresh_rng("C18ops" + salt), z["frac_ops"])
    yield from s_fv(ctx.fresh_rng("C18fv" + salt), z["fv"])
    yield from s_str(ctx.fresh_rng("C18str" + salt), z["str"])
    yield from s_parse(ctx.fresh_rng("C18parse" + salt), z["parse"])
    yield from s_cff(ctx.fresh_rng("C18cff" + salt), z["cff"])
    yield from s_fs_pairs(ctx, ctx.fresh_rng("C18pairs" + salt), z["per_type"], z["nvals"])
    yield from s_fs_misc(ctx, ctx.fresh_rng("C18misc" + salt), z["misc"])
    yield from s_cfv(ctx, ctx.fresh_rng("C18cfv" + salt), z["cfv"])
    yield from s_frac_more(ctx.fresh_rng("C18fracmore" + salt), z["frac_more"])
    yield from s_fv_more(ctx.fresh_rng("C18fvmore" + salt), z["fv_more"])
    yield from s_hist(ctx, ctx.fresh_rng("C18hist" + salt), z["hist"])


def cases(ctx):
    yield from _streams(ctx, "corr", SIZES[ctx.tier])


def model_line(c):
    return {k: v for k, v in c.items() if k != "_t"}


def case_key(c):
    return model_line(c)


def show(c):
    t = c["_t"]
    out = dict(op=c["op"])
    if "f" in c:
        out["f"] = c["f"]
    if c["op"] in ("fv_parse", "fv_match"):
        out["text"] = c["text"]
    if c["op"] == "hist":
        out["db"] = t["db"]
        out["program"] = _program_text(t["ops"])
        return out
    for k, v in t.items():
        out[k] = _show_val(v)
    return out


def _show_val(v):
    if isinstance(v, list) and v and v[0] in ("i", "f", "inf", "-inf", "none", "str"):
        o = _obj(v)
        return repr(o)
    if isinstance(v, dict):
        if set(v) == {"n", "x"}:
            return "FractionValue(%r, Fraction(%d, %d))" % (_obj(v["n"]), v["x"][0], v["x"][1])
        return {k: _show_val(w) for k, w in v.items()}
    if isinstance(v, list) and len(v) == 2 and all(isinstance(i, int) for i in v):
        return "Fraction(%d, %d)" % (v[0], v[1])
    return v


# ------------------------------------------------------------------------------------------ the real code
def _mk_fs(ctx, s):
    from barril.units import FractionScalar, ObtainQuantity

    return FractionScalar.CreateWithQuantity(ObtainQuantity(s["unit"], s["cat"]), _fv(s["v"]))


def _pyop(f, a, b):
    if f == "eq":
        return a == b
    if f == "ne":
        return a != b
    if f == "lt":
        return a < b
    if f == "le":
        return a <= b
    if f == "gt":
        return a > b
    return a >= b


def _run(c, ctx):
    from barril.basic.fraction import Fraction, FractionValue
    from barril.units import FractionScalar, ObtainQuantity

    op, t = c["op"], c["_t"]
    if op == "frac_new":
        f = Fraction(_obj(t["a"])) if t["b"] is None else Fraction(_obj(t["a"]), _obj(t["b"]))
        return dict(ok=qstr(f.x))
    if op == "frac_un":
        x = _fr(t["x"])
        f = c["f"]
        if f == "float":
            return dict(ok=qstr(exact(float(x))))
        if f == "str":
            return dict(ok=str(x))
        r = {"neg": lambda: -x, "abs": lambda: abs(x), "inv": x.inv, "copy": x.copy}[f]()
        if f == "copy" and r is x:
            return dict(err="other", detail="copy returned the same object")
        return dict(ok=qstr(r.x))
    if op == "frac_bin":
        x, o = _fr(t["x"]), _operand_obj(t["o"])
        f = c["f"]
        r = {"add": lambda: x + o, "radd": lambda: o + x, "sub": lambda: x - o, "rsub": lambda: o - x, "mul": lambda: x * o,
             "rmul": lambda: o * x, "div": lambda: x / o, "rdiv": lambda: o / x, "mod": lambda: x % o}[f]()
        if not isinstance(r, Fraction):
            return dict(err="other", detail="result is %r" % type(r).__name__)
        return dict(ok=qstr(r.x))
    if op == "frac_cmp":
        x, o = _fr(t["x"]), _operand_obj(t["o"])
        r = _pyop(c["f"], o, x) if c["refl"] else _pyop(c["f"], x, o)
        return dict(ok=bool(r))
    if op == "fv_new":
        fr = t["fr"]
        if fr["t"] == "default":
            r = FractionValue(_obj(t["number"]))
        else:
            arg = {"frac": lambda: _fr(fr["x"]), "pair": lambda: (_obj(fr["a"]), _obj(fr["b"])), "badlen": lambda: (1, 2, 3),
                   "bad": lambda: [1, 2]}[fr["t"]]()
            r = FractionValue(_obj(t["number"]), arg)
        return dict(ok=_fv_out(r))
    if op == "fv_float":
        return dict(ok=float(_fv(t["v"])).hex())
    if op == "fv_copy":
        v = _fv(t["v"])
        r = copy.copy(v)
        if r is v or r.fraction is v.fraction:
            return dict(err="other", detail="copy shares an object with the original")
        return dict(ok=_fv_out(r))
    if op == "fv_cmp":
        a = _fv(t["a"])
        b = _fv(t["b"]) if "x" in t["b"] else _obj(t["b"]["num"])
        return dict(ok=bool(_pyop(c["f"], a, b)))
    if op == "fv_str":
        return dict(ok=str(_fv(t["v"])))
    if op == "fv_parse":
        if c.get("cl") is False:
            return dict(ok=_fv_out(FractionValue.CreateFromString(c["text"], consider_locale=False)))
        return dict(ok=_fv_out(FractionValue.CreateFromString(c["text"])))
    if op == "fv_match":
        FractionValue.MatchFractionPart(c["text"])
        return dict(ok=None)
    if op == "fv_strparse":
        return dict(ok=_fv_out(FractionValue.CreateFromString(str(_fv(t["v"])))))
    if op == "cff":
        r = FractionValue.CreateFromFloat(_obj(t["x"]))
        if r is None:
            return dict(ok=None)
        return dict(ok=_fv_out(r))
    if op == "fs_convert":
        s = _mk_fs(ctx, dict(cat=t["cat"], unit=t["from"], v=t["v"]))
        return dict(ok=_fv_out(s.GetValue(t["to"])))
    if op == "fs_order":
        a, b = _mk_fs(ctx, t["a"]), _mk_fs(ctx, t["b"])
        return dict(ok=bool(_pyop(c["f"], a, b)))
    if op == "fs_eq":
        a, b = _mk_fs(ctx, t["a"]), _mk_fs(ctx, t["b"])
        return dict(ok=bool(a == b), ne=bool(a != b))
    if op == "fs_valid":
        a = _mk_fs(ctx, t["a"])
        a.CheckValidity()
        return dict(ok=None)
    if op == "cfv":
        q = t["q"]
        arg = q["s"] if q["t"] == "qtype" else ObtainQuantity(q["unit"], q["cat"])
        return dict(ok=_fv_out(FractionScalar.ConvertFractionValue(_fv(t["v"]), arg, t["from"], t["to"])))
    if op == "db_convert":
        r = _db(c, ctx).Convert(t["cq"], t["from"], t["to"], _fv(t["v"]))
        if not isinstance(r, FractionValue):
            return dict(err="other", detail="result is %r" % type(r).__name__)
        return dict(ok=_fv_out(r))
    if op == "frac_pow":
        r = _fr(t["x"]) ** _pow_obj(t["e"])
        if not isinstance(r, Fraction):
            return dict(err="other", detail="result is %r" % type(r).__name__)
        return dict(ok=qstr(r.x))
    if op == "frac_set":
        x = _fr(t["x"])
        _mutate([x], 0, t["m"])
        return dict(ok=qstr(x.x))
    if op == "frac_seq":
        x = _fr(t["x"])
        if c["f"] == "len":
            return dict(ok=len(x))
        if c["f"] == "iter":
            a, b = x            # unpacking iterates
            return dict(ok=[str(i) for i in x] if [a, b] == list(x) else "unpacking and list() differ")
        return dict(ok=str(x[_key_obj(t["key"])]))
    if op == "fv_lstr":
        return dict(ok=_fv(t["v"]).GetLocalizedString())
    if op == "fv_lfrac":
        return dict(ok=_fv(t["v"]).GetLocalizedFraction())
    if op == "fv_lparse":
        return dict(ok=_fv_out(FractionValue.CreateFromString(_fv(t["v"]).GetLocalizedString())))
    if op == "hist":
        return dict(ok=_run_program(t["ops"]))
    raise ValueError(op)


def _db(c, ctx):
    return ctx.lim if c["_t"].get("db") == "lim" else ctx.db


def impl(c, ctx):
    from barril.units.unit_database import UnitDatabase

    push = c["op"].startswith(("fs_", "db_", "cfv", "hist"))
    if push:
        UnitDatabase.PushSingleton(_db(c, ctx))
    try:
        out = _run(c, ctx)
    except Exception as e:
        out = dict(err=err_kind(e))
    finally:
        if push:
            UnitDatabase.PopSingleton()
    n = ctx.notes.setdefault("branches", {})
    key = c["op"] + ("." + c["f"] if "f" in c else "") + ("/" + out["err"] if "err" in out else "/ok")
    n[key] = n.get(key, 0) + 1
    if c["op"] == "hist" and "ok" in out:
        h = ctx.notes.setdefault("program statements", {})
        for o, st in zip(c["_t"]["ops"], out["ok"]):
            key = (o["c"]["t"] + ("." + o["c"]["form"] if "form" in o["c"] else "") if o["k"] == "new" else "in place:" + o["m"]["t"]) + "/" + st["r"]
            h[key] = h.get(key, 0) + 1
    elif c["op"] in ("frac_pow", "frac_set"):
        h = ctx.notes.setdefault("branches", {})
        key = c["op"] + ":" + (c["_t"]["e"][0] if c["op"] == "frac_pow" else c["_t"]["m"]["t"] + ":" + c["_t"]["m"].get("v", ["-"])[0]) + \
            ("/" + out["err"] if "err" in out else "/ok")
        h[key] = h.get(key, 0) + 1
    return out


# ------------------------------------------------------------------------------------------ comparison
def _note(ctx, key):
    n = ctx.notes.setdefault("comparison", {})
    n[key] = n.get(key, 0) + 1


def _cmp_fv(io, mo, exact_x, mn, mf, ctx, tag, den=None):
    """FractionValue results: number by float rounding of the model's number, fraction exactly or by value"""
    ni, xi = qparse(io["n"]), qparse(io["x"])
    nm, xm = qparse(mo["n"]), qparse(mo["x"])
    if ni != nm and not qclose(ni, nm, mn):
        return "number part differs: impl %s model %s" % (float(ni), float(nm))
    if xi == xm:
        _note(ctx, tag + ":fraction identical")
        return None
    if exact_x:
        return "fraction part differs: impl %s model %s" % (xi, xm)
    if qclose(xi, xm, mf):
        _note(ctx, tag + ":fraction equal by value")
        return None
    if den is not None and Q(99, 10 ** 10) <= abs(xi - xm) * den <= Q(101, 10 ** 10):
        # the converted numerator lies within rounding of the SMALL = 1e-8 snapping threshold: either verdict
        _note(ctx, tag + ":numerator at the SMALL threshold")
        return None
    return "fraction part differs beyond rounding: impl %s model %s" % (float(xi), float(xm))


def _agree_inner(c, io, mo, ctx):
    if "err" in io or "err" in mo:
        if ("err" in io) != ("err" in mo):
            return "one side fails: impl=%s model=%s" % (io, mo)
        return None if io["err"] == mo["err"] else "error kinds differ: impl=%s model=%s" % (io["err"], mo["err"])
    op, t = c["op"], c["_t"]
    a, b = io["ok"], mo["ok"]
    if op == "frac_new":
        xi, xm = qparse(a), qparse(b)
        if xi == xm:
            _note(ctx, "frac_new:identical")
            return None
        bb = t["b"]
        if _short(t["a"]) and (bb is None or _dyadic(bb)):
            return "Fraction of a short decimal differs: impl %s model %s" % (xi, xm)
        if qclose(xi, xm, xm):
            _note(ctx, "frac_new:equal by value")
            return None
        return "Fraction differs beyond rounding: impl %s model %s" % (float(xi), float(xm))
    if op in ("frac_un", "frac_bin"):
        if c.get("f") == "str":
            return None if a == b else "str differs: %r / %r" % (a, b)
        xi, xm = qparse(a), qparse(b)
        if xi == xm:
            return None
        if c.get("f") == "float":
            return None if qclose(xi, xm, xm, k=1) else "float(Fraction) differs: impl %s model %s" % (xi, xm)
        o = t.get("o")
        if o is not None and o["t"] == "num" and not _short(o["v"]):
            if qclose(xi, xm, max(abs(xm), abs(Q(t["x"][0], t["x"][1])))):
                _note(ctx, "frac_bin:equal by value")
                return None
        return "result differs: impl %s model %s" % (xi, xm)
    if op == "frac_cmp":
        if a == b:
            return None
        o = t["o"]
        if o["t"] == "num" and _fin(o["v"]) and not _short(o["v"]):
            # a float that is not a short decimal is normalised by float rounding: a near-tie is don't care
            x = Q(t["x"][0], t["x"][1])
            if qclose(x, exact(_obj(o["v"])), x, k=1 << 30):
                _note(ctx, "frac_cmp:near tie")
                return None
        return "comparison differs: impl %s model %s" % (a, b)
    if op in ("fv_new", "fv_copy"):
        ex = True
        if op == "fv_new" and t["fr"]["t"] == "pair":
            ex = _short(t["fr"]["a"]) and _dyadic(t["fr"]["b"])
        return _cmp_fv(a, b, ex, 0, qparse(b["x"]), ctx, op)
    if op == "fv_float":
        return None if qclose(exact(float.fromhex(a)), qparse(b), qparse(b)) else "float() differs"
    if op == "fv_cmp":
        if a == b:
            return None
        if c["f"] in ("eq", "ne"):
            return "== differs: impl %s model %s" % (a, b)
        va = _fv_q(t["a"])
        vb = _fv_q(t["b"]) if "x" in t["b"] else exact(_obj(t["b"]["num"]))
        fe = _fexact(t["a"]) and (_fexact(t["b"]) if "x" in t["b"] else True)
        if not fe and qclose(va, vb, max(abs(exact(_obj(t["a"]["n"]))), abs(va))):
            _note(ctx, "fv_cmp:near tie")
            return None
        return "order differs: impl %s model %s" % (a, b)
    if op in ("fv_str", "fv_lstr", "fv_lfrac"):
        return None if a == b else "str differs: impl %r model %r" % (a, b)
    if op in ("frac_pow", "frac_set"):
        return None if qparse(a) == qparse(b) else "result differs: impl %s model %s" % (a, b)
    if op == "frac_seq":
        return None if a == b else "len / iteration / indexing differ: impl %r model %r" % (a, b)
    if op == "hist":
        return _agree_hist(c, a, b, ctx)
    if op == "fv_match":
        return None
    if op in ("fv_parse", "fv_strparse", "fv_lparse"):
        ni, nm = qparse(a["n"]), qparse(b["n"])
        if ni != exact(float(nm)):
            return "number differs: impl %s model %s" % (float(ni), float(nm))
        xi, xm = qparse(a["x"]), qparse(b["x"])
        if xi == xm:
            return None
        if qclose(xi, xm, xm):
            _note(ctx, op + ":fraction equal by value")
            return None
        return "fraction differs: impl %s model %s" % (xi, xm)
    if op == "cff":
        if a == b:
            _note(ctx, "cff:identical")
            return None
        if a is None or b is None:
            return "CreateFromFloat differs: impl %s model %s" % (a, b)
        vi = qparse(a["n"]) + qparse(a["x"])
        vm = qparse(b["n"]) + qparse(b["x"])
        x = _obj(t["x"])
        digs = len(str(abs(Q(repr(x)).numerator)).rstrip("0")) if isinstance(x, float) else 0
        if digs >= 7 and abs(vi - vm) <= Q(1, 10 ** 11) * abs(vm):
            _note(ctx, "cff:equal by value (float drift of the loop)")
            return None
        return "CreateFromFloat differs: impl %s model %s" % (a, b)
    if op in ("fs_convert", "db_convert", "cfv"):
        if t.get("to") is None:
            return _cmp_fv(a, b, True, 0, 0, ctx, op)
        return _cmp_fv(a, b, False, qparse(mo.get("Mn", "0/1")), qparse(mo.get("Mf", "0/1")), ctx, op,
                       den=Q(t["v"]["x"][0], t["v"]["x"][1]).denominator)
    if op == "fs_order":
        if a == b:
            return None
        lhs, rhs, m = qparse(mo["lhs"]), qparse(mo["rhs"]), qparse(mo["M"])
        fe = t["a"]["unit"] == t["b"]["unit"] and _fexact(t["a"]["v"]) and _fexact(t["b"]["v"])
        if not fe and qclose(lhs, rhs, m, k=4 * K):
            _note(ctx, "fs_order:near tie")
            return None
        return "order differs: impl %s model %s" % (a, b)
    if op == "fs_eq":
        if io.get("ne") == a:
            return "== and != of the real code agree with each other"
        return None if a == b else "== differs: impl %s model %s" % (a, b)
    if op == "fs_valid":
        return None
    return "unknown op"


def _agree_valid(c, io, mo, ctx):
    """validity: errors must coincide unless the amount is within rounding of a limit"""
    t = c["_t"]["a"]
    db = _db(c, ctx)
    ci = db.GetCategoryInfo(t["cat"])
    try:
        y = db.Convert(ci.quantity_type, t["unit"], ci.default_unit, float(_fv_q(t["v"])))
    except Exception:
        return False
    exact_case = _fexact(t["v"]) and t["unit"] == ci.default_unit
    for b in (ci.min_value, ci.max_value):
        if b is not None and abs(y - b) <= 1e-9 * max(1.0, abs(b), abs(y)):
            if not (exact_case and exact(b).denominator <= 1024):
                return True
    return False


def agree(c, io, mo, ctx):
    if c["op"] == "fs_valid":
        if mo.get("asScalar") is False:
            return "model: FractionScalar validity differs from the Scalar on float(value)"
        ei, em = io.get("err"), mo.get("err")
        if ei == em:
            return None
        if {ei, em} <= {None, "value"} and _agree_valid(c, io, mo, ctx):
            _note(ctx, "fs_valid:near limit")
            return None
        return "validity differs: impl=%s model=%s" % (io, mo)
    return _agree_inner(c, io, mo, ctx)


def nontrivial(c, io):
    return "ok" in io


# ------------------------------------------------------------------------------------------ the property itself
def _rel(a, b, scale):
    return abs(a - b) <= 1e-9 * max(abs(scale), abs(a), abs(b)) + 1e-300


def _dec(spec):
    """the number an int / float literal denotes"""
    x = _obj(spec)
    return Q(x) if isinstance(x, int) else Q(repr(x))


def _in_fraction_domain(spec):
    """ints below 10^7 and decimals with at most 6 significant digits, at least 1e-6 in magnitude (longer ones are
    normalised by float rounding; the SMALL = 1e-8 snapping of the Fraction class swallows anything below 1e-8, see
    the finding `tiny-increment`)"""
    return _fin(spec) and _short(spec)


def _printable(q):
    """%g prints q exactly and without exponent: at most 6 significant digits, 1e-4 <= |q| < 1e6 (or 0)"""
    q = Q(q)
    if q == 0:
        return True
    if not (Q(1, 10 ** 4) <= abs(q) < 10 ** 6):
        return False
    e = 0
    a = abs(q)
    while a >= 10:
        a /= 10
        e += 1
    while a < 1:
        a *= 10
        e -= 1
    return (abs(q) * Q(10) ** (5 - e)).denominator == 1


# Input classes on which the UNCHANGED code violates C18 (reported to the maintainer of known_findings.json with exact
# failing inputs; see FINDING_CASES).  The oracle does not report them again as new violations; `replay_finding`
# replays one witness of each for the KNOWN-FINDING lines.
KNOWN_CLASSES = ("tiny-increment", "g-exponent", "repr-exponent")


_FRESH = r"""
import sys, json
sys.path.insert(0, %r); sys.path.insert(0, %r)
import common, engine
common.load_barril()
prop = engine.load_prop("C18")
req = json.load(sys.stdin)
ctx = engine.Ctx("quick", 0, {})
prop.setup(ctx)
print("RESULT " + json.dumps(prop._oracle_pushed(prop.c_hist(req["db"], req["ops"]), ctx)))
"""


def _fresh_oracle(c, f_here):
    """a program is judged in a fresh interpreter, so that nothing an earlier program left behind in the library is part
    of the failing input (a replay must fail when run on its own)"""
    import json
    import os
    import subprocess
    import sys

    here = os.path.dirname(os.path.abspath(__file__))
    try:
        r = subprocess.run([sys.executable, "-c", _FRESH % (os.path.dirname(here), here)], input=json.dumps(dict(db=c["_t"]["db"], ops=c["_t"]["ops"])),
                           capture_output=True, text=True, timeout=300, env=dict(os.environ))
        line = [l for l in r.stdout.splitlines() if l.startswith("RESULT ")]
        if r.returncode == 0 and line:
            return json.loads(line[-1][len("RESULT "):])
    except Exception:
        pass
    f_here = dict(f_here)
    f_here["note"] = "could not be re-run in a fresh interpreter"
    return f_here


def oracle(c, ctx, report_known=False):
    f = _oracle_pushed(c, ctx)
    if f and c["op"] == "hist":
        f = _fresh_oracle(c, f)
    if f and not report_known and f.get("known_class") in KNOWN_CLASSES:
        return None
    return f


def _oracle_pushed(c, ctx):
    from barril.units.unit_database import UnitDatabase

    push = c["op"].startswith(("fs_", "db_", "cfv", "hist"))
    if push:
        UnitDatabase.PushSingleton(_db(c, ctx))
    try:
        return _oracle(c, ctx)
    finally:
        if push:
            UnitDatabase.PopSingleton()


def _oracle(c, ctx):
    from barril.basic.fraction import Fraction, FractionValue
    from barril.units import FractionScalar, ObtainQuantity, Scalar

    op, t = c["op"], c["_t"]
    try:
        if op == "frac_new":
            a, b = t["a"], t["b"]
            if not _fin(a) or (b is not None and (not _fin(b) or _obj(b) == 0)):
                return None
            want = _dec(a) / (1 if b is None else _dec(b))
            got = (Fraction(_obj(a)) if b is None else Fraction(_obj(a), _obj(b))).x
            if _in_fraction_domain(a) and (b is None or isinstance(_obj(b), int)):
                if got != want:
                    return dict(clause="Fraction(a, b) denotes a/b", a=_obj(a), b=None if b is None else _obj(b), got=str(got), want=str(want))
            elif abs(got - want) > Q(1, 10 ** 7) * abs(want):
                kc = "tiny-increment" if abs(_dec(a)) <= Q(1, 10 ** 8) * 2 else None
                return dict(clause="Fraction(a, b) denotes a/b to rounding", a=_obj(a), b=None if b is None else _obj(b), got=float(got),
                            want=float(want), known_class=kc)
            return None
        if op == "frac_un":
            x = Q(t["x"][0], t["x"][1])
            f = c["f"]
            if f in ("str",):
                return None
            if f == "inv" and x == 0:
                return None
            fx = _fr(t["x"])
            got = {"neg": lambda: (-fx).x, "abs": lambda: abs(fx).x, "inv": lambda: fx.inv().x, "copy": lambda: fx.copy().x,
                   "float": lambda: Q(float(fx))}[f]()
            want = {"neg": -x, "abs": abs(x), "inv": (1 / x if x else None), "copy": x, "float": x}[f]
            okk = _rel(float(got), float(want), float(want)) if f == "float" else got == want
            return None if okk else dict(clause="Fraction %s agrees with exact rational arithmetic" % f, x=str(x), got=str(got), want=str(want))
        if op == "hist":
            return _oracle_hist(c, ctx)
        if op in ("frac_pow", "frac_set", "frac_seq"):
            return _oracle_more(c, ctx)
        if op in ("frac_bin", "frac_cmp"):
            x = Q(t["x"][0], t["x"][1])
            o = t["o"]
            if o["t"] == "seq":
                return None
            if o["t"] == "frac":
                y = Q(o["x"][0], o["x"][1])
            elif _in_fraction_domain(o["v"]):
                y = _dec(o["v"])
            else:
                return None
            fx, fo = _fr(t["x"]), _operand_obj(o)
            f = c["f"]
            if op == "frac_cmp":
                got = _pyop(f, fo, fx) if c["refl"] else _pyop(f, fx, fo)
                want = _pyop(f, y, x) if c["refl"] else _pyop(f, x, y)
                return None if bool(got) == bool(want) else dict(clause="Fraction comparison agrees with the rationals", f=f, x=str(x), other=str(y),
                                                                 reflected=c["refl"], got=bool(got), want=bool(want))
            if (f in ("div", "mod") and y == 0) or (f == "rdiv" and x == 0):
                return None
            want = {"add": x + y, "radd": y + x, "sub": x - y, "rsub": y - x, "mul": x * y, "rmul": y * x, "div": (x / y if y else None),
                    "rdiv": (y / x if x else None), "mod": (x % y if y else None)}[f]
            got = {"add": lambda: fx + fo, "radd": lambda: fo + fx, "sub": lambda: fx - fo, "rsub": lambda: fo - fx, "mul": lambda: fx * fo,
                   "rmul": lambda: fo * fx, "div": lambda: fx / fo, "rdiv": lambda: fo / fx, "mod": lambda: fx % fo}[f]().x
            return None if got == want else dict(clause="Fraction arithmetic agrees with exact rational arithmetic", f=f, x=str(x), other=str(y),
                                                 got=str(got), want=str(want))
        if op in ("fv_float", "fv_copy", "fv_cmp"):
            v = t["v"] if "v" in t else t["a"]
            fv = _fv(v)
            want = _fv_q(v)
            if not _rel(float(fv), float(want), float(exact(_obj(v["n"])))):
                return dict(clause="float(fv) = number + numerator/denominator", fv=_show_val(v), got=float(fv), want=float(want))
            if op == "fv_copy":
                cp = copy.copy(fv)
                if not (cp == fv) or cp is fv or float(cp) != float(fv):
                    return dict(clause="copy preserves the amount", fv=_show_val(v), got=str(cp))
            if op == "fv_cmp" and c["f"] in ("eq", "ne") and "x" in t["b"]:
                b = t["b"]
                wb = _fv_q(b)
                fb = _fv(b)
                if (fv == fb) and abs(want - wb) > Q(1, 10 ** 9) * max(abs(want), abs(wb), abs(exact(_obj(v["n"])))):
                    return dict(clause="FractionValues that compare equal denote the same amount", a=_show_val(v), b=_show_val(b),
                                float_a=float(fv), float_b=float(fb))
                if (fv != fb) == (fv == fb):
                    return dict(clause="!= is the negation of ==", a=_show_val(v), b=_show_val(b))
            if op == "fv_cmp" and c["f"] in OPS_ORD:
                b = t["b"]
                wb = _fv_q(b) if "x" in b else exact(_obj(b["num"]))
                ob = _fv(b) if "x" in b else _obj(b["num"])
                fe = _fexact(v) and (_fexact(b) if "x" in b else _dyadic(b["num"]))
                if fe or abs(want - wb) > Q(1, 10 ** 9) * max(abs(want), abs(wb), abs(exact(_obj(v["n"])))):
                    got = _pyop(c["f"], fv, ob)
                    if bool(got) != _pyop(c["f"], want, wb):
                        return dict(clause="order of FractionValues is the order of their amounts", f=c["f"], a=_show_val(v), b=_show_val(b), got=bool(got))
            return None
        if op in ("fv_str", "fv_strparse", "fv_lparse"):
            v = t["v"]
            n = exact(_obj(v["n"]))
            x = Q(v["x"][0], v["x"][1])
            inside = _printable(n) and abs(x.numerator) < 10 ** 6 and x.denominator < 10 ** 6
            fv = _fv(v)
            try:
                back = FractionValue.CreateFromString(fv.GetLocalizedString() if op == "fv_lparse" else str(fv))
            except Exception as e:
                return dict(clause="format followed by parse gives the value back", fv=_show_val(v), text=str(fv), error=repr(e),
                            known_class=None if inside else "g-exponent")
            if not (back == fv) or Q(back.number) != n or back.fraction.x != x:
                return dict(clause="format followed by parse gives the value back", fv=_show_val(v), text=str(fv),
                            got="FractionValue(%r, %s)" % (back.number, back.fraction.x), known_class=None if inside else "g-exponent")
            return None
        if op == "cff":
            if not _fin(t["x"]):
                return None
            x = _obj(t["x"])
            if isinstance(x, float) and not math.isfinite(x):
                return None
            d = _dec(t["x"])
            digs = len(str(abs(d.numerator)).rstrip("0"))
            if digs > 8 and isinstance(x, float) and d.denominator != 1:
                return None
            r = FractionValue.CreateFromFloat(x)
            if not _rel(float(r), float(x), float(x)):
                kc = "repr-exponent" if 0 < abs(x) < 1e-4 else None
                return dict(clause="CreateFromFloat(x) denotes x", x=x, got="FractionValue(%r, %s)" % (r.number, r.fraction.x), value=float(r), known_class=kc)
            return None
        if op in ("fs_convert", "db_convert"):
            if t.get("to") is None:
                return None
            fv = _fv(t["v"])
            if op == "fs_convert":
                q = ObtainQuantity(t["from"], t["cat"])
                s = FractionScalar.CreateWithQuantity(q, fv)
                ref = Scalar.CreateWithQuantity(q, float(fv))
                if _db(c, ctx).GetQuantityType(t["to"]) != q.GetQuantityType():
                    return None
                want = ref.GetValue(t["to"])
                zero = Scalar.CreateWithQuantity(q, 0.0).GetValue(t["to"])
                got = s.GetValue(t["to"])
                unit_step = Scalar.CreateWithQuantity(q, 1.0).GetValue(t["to"]) - zero
            else:
                dbx = _db(c, ctx)
                want = dbx.Convert(t["cq"], t["from"], t["to"], float(fv))
                zero = dbx.Convert(t["cq"], t["from"], t["to"], 0.0)
                got = dbx.Convert(t["cq"], t["from"], t["to"], fv)
                unit_step = dbx.Convert(t["cq"], t["from"], t["to"], 1.0) - zero
            g = float(got)
            parts = abs(unit_step) * (abs(float(fv.number)) + abs(float(fv.fraction)))
            if abs(g - want) > 1e-7 * (abs(want) + abs(zero) + abs(want - zero) + parts):
                num = abs(fv.fraction.numerator * unit_step)
                kc = "tiny-increment" if num <= 2e-8 else None
                return dict(clause="a FractionScalar converts like a Scalar holding float(value)", category=t.get("cat") or t.get("cq"),
                            value=_show_val(t["v"]), frm=t["from"], to=t["to"], got=g, want=want, known_class=kc)
            return None
        if op == "cfv":
            q = t["q"]
            dbx = _db(c, ctx)
            try:
                cat = q["cat"] if q["t"] == "quantity" else dbx.GetDefaultCategory(t["from"])
                src = ObtainQuantity(t["from"], cat)
                arg = q["s"] if q["t"] == "qtype" else ObtainQuantity(q["unit"], q["cat"])
                if dbx.GetQuantityType(t["to"]) != src.GetQuantityType():
                    return None
            except Exception:
                return None  # not a conversion inside one quantity type
            fv = _fv(t["v"])
            want = Scalar.CreateWithQuantity(src, float(fv)).GetValue(t["to"])
            zero = Scalar.CreateWithQuantity(src, 0.0).GetValue(t["to"])
            unit_step = Scalar.CreateWithQuantity(src, 1.0).GetValue(t["to"]) - zero
            try:
                g = float(FractionScalar.ConvertFractionValue(fv, arg, t["from"], t["to"]))
            except Exception as e:
                return dict(clause="ConvertFractionValue raised on units of one quantity type", quantity=q, value=_show_val(t["v"]), frm=t["from"],
                            to=t["to"], error=repr(e))
            parts = abs(unit_step) * (abs(float(fv.number)) + abs(float(fv.fraction)))
            if abs(g - want) > 1e-7 * (abs(want) + abs(zero) + abs(want - zero) + parts):
                num = abs(fv.fraction.numerator * unit_step)
                kc = "tiny-increment" if num <= 2e-8 else None
                return dict(clause="ConvertFractionValue(value, quantity, from_unit, to_unit) converts from from_unit like a Scalar holding "
                                   "float(value), whatever form or unit the quantity argument has", quantity=q, value=_show_val(t["v"]),
                            frm=t["from"], to=t["to"], got=g, want=want, known_class=kc)
            return None
        if op == "fs_order":
            a, b = t["a"], t["b"]
            qa, qb = ObtainQuantity(a["unit"], a["cat"]), ObtainQuantity(b["unit"], b["cat"])
            if qa.GetQuantityType() != qb.GetQuantityType():
                return None
            fa, fb = FractionScalar.CreateWithQuantity(qa, _fv(a["v"])), FractionScalar.CreateWithQuantity(qb, _fv(b["v"]))
            sa, sb = Scalar.CreateWithQuantity(qa, float(_fv(a["v"]))), Scalar.CreateWithQuantity(qb, float(_fv(b["v"])))
            l, r = sa.GetValue(), sb.GetValue(a["unit"])
            z = Scalar.CreateWithQuantity(qb, 0.0).GetValue(a["unit"])
            fe = a["unit"] == b["unit"] and _fexact(a["v"]) and _fexact(b["v"])
            if not fe and abs(l - r) <= 1e-7 * (abs(l) + abs(r) + abs(z)):
                return None
            got, want = _pyop(c["f"], fa, fb), _pyop(c["f"], sa, sb)
            return None if bool(got) == bool(want) else dict(clause="FractionScalars compare like Scalars holding float(value)", f=c["f"], a=_show_val(a),
                                                             b=_show_val(b), got=bool(got), want=bool(want))
        if op == "fs_eq":
            a, b = t["a"], t["b"]
            qa, qb = ObtainQuantity(a["unit"], a["cat"]), ObtainQuantity(b["unit"], b["cat"])
            fa, fb = FractionScalar.CreateWithQuantity(qa, _fv(a["v"])), FractionScalar.CreateWithQuantity(qb, _fv(b["v"]))
            if fa == fb:
                wa, wb = _fv_q(a["v"]), _fv_q(b["v"])
                if a["unit"] != b["unit"] or abs(wa - wb) > Q(1, 10 ** 9) * max(abs(wa), abs(wb), abs(exact(_obj(a["v"]["n"])))):
                    return dict(clause="FractionScalars that compare equal denote the same amount in the same unit", a=_show_val(a), b=_show_val(b))
            return None
        if op == "fs_valid":
            a = t["a"]
            q = ObtainQuantity(a["unit"], a["cat"])
            fa = FractionScalar.CreateWithQuantity(q, _fv(a["v"]))
            sa = Scalar.CreateWithQuantity(q, float(_fv(a["v"])))

            def verdict(o):
                try:
                    o.CheckValidity()
                    return "valid"
                except ValueError:
                    return "invalid"

            g, w = verdict(fa), verdict(sa)
            return None if g == w else dict(clause="a FractionScalar validates like a Scalar holding float(value)", a=_show_val(a), got=g, want=w)
    except Exception as e:
        if op in ("fs_convert", "db_convert", "fs_order", "fs_valid"):
            try:
                ObtainQuantity(t.get("from") or t["a"]["unit"], t.get("cat") or (t.get("a") or {}).get("cat"))
            except Exception:
                return None
        if op in ("frac_bin", "frac_un", "frac_cmp", "fv_float", "fv_copy", "fv_cmp", "cff", "fs_convert", "fs_order", "fs_valid", "frac_new"):
            return dict(clause="operation inside the property's domain raised", op=op, case=show(c), error=repr(e))
    return None


# ------------------------------------------------------------------------------------------ programs: comparison and property
def _stmt_text(ops, k):
    try:
        return _program_text(ops[k:k + 1])[0]
    except Exception:
        return str(ops[k])


def _agree_hist(c, ti, tm, ctx):
    """every statement's outcome and, after every statement, every object of the pool: kind, parts, str(), float(), and for a
    Fraction what len / iteration / indexing show"""
    ops = c["_t"]["ops"]
    if len(ti) != len(tm) or len(ti) != len(ops):
        return "traces have different lengths: impl %d model %d" % (len(ti), len(tm))
    smax = Q(1)
    approx = False           # a unit conversion has produced float-rounded numbers
    for k, (si, sm) in enumerate(zip(ti, tm)):
        where = "after statement %d `%s`" % (k, _stmt_text(ops, k))
        if si["r"] != sm["r"]:
            return "%s: outcome differs: impl %s model %s" % (where, si["r"], sm["r"])
        if len(si["pool"]) != len(sm["pool"]):
            return "%s: number of objects differs: impl %d model %d" % (where, len(si["pool"]), len(sm["pool"]))
        o = ops[k]
        conv = o["k"] == "new" and o["c"]["t"] in ("fs_get", "fv_convert") and si["r"] == "ok"
        if conv:
            approx = True
        last = len(si["pool"]) - 1
        for j, (oi, om) in enumerate(zip(si["pool"], sm["pool"])):
            who = "%s: object p%d" % (where, j)
            if oi["k"] != om["k"]:
                return "%s: kind differs: impl %s model %s" % (who, oi["k"], om["k"])
            xi, xm = qparse(oi["x"]), qparse(om["x"])
            fi = exact(float.fromhex(oi["f"]))
            if oi["k"] == "frac":
                if xi != xm:
                    if (j == last and o["k"] == "new" and o["c"]["t"] == "frac_pow" and o["c"]["e"][0] == "f" and si["r"] == "ok"
                            and max(abs(xm.numerator), xm.denominator) >= 2 ** 53 and abs(xi - xm) <= Q(1, 10 ** 12) * abs(xm)):
                        # `n ** 2.0` is a float power: beyond 2**53 it is rounded, and later statements see other integers
                        _note(ctx, "hist:stopped at a float power beyond 2**53")
                        return None
                    return "%s: Fraction differs: impl %s model %s" % (who, xi, xm)
                if oi["s"] != om["s"]:
                    return "%s: str differs: impl %r model %r" % (who, oi["s"], om["s"])
                if not qclose(fi, xm, xm, k=1):
                    return "%s: float differs: impl %s model %s" % (who, float(fi), float(xm))
                nd = [xm.numerator, xm.denominator]
                if oi["parts"] != nd or oi["seq"] != [2, nd, nd[0], nd[1]]:
                    return "%s: numerator/denominator, len, iteration or indexing differ: impl %s %s model %s" % (who, oi["parts"], oi["seq"], nd)
                continue
            ni, nm = qparse(oi["n"]), qparse(om["n"])
            smax = max(smax, abs(nm), abs(xm))
            if oi["k"] == "fs" and (oi["cat"] != om["cat"] or oi["unit"] != om["unit"]):
                return "%s: category/unit differ" % who
            if ni != nm:
                if not approx or abs(ni - nm) > Q(1, 10 ** 9) * max(smax, abs(ni)):
                    return "%s: number part differs: impl %s model %s" % (who, float(ni), float(nm))
                _note(ctx, "hist:number equal by value (converted)")
            if xi != xm:
                if conv and j == last and (abs(xi - xm) <= Q(101, 10 ** 10) or abs(xi - xm) <= Q(1, 10 ** 9) * abs(xm)):
                    # the converted numerator went through float arithmetic and the SMALL snapping: later statements would
                    # act on different denominators, so the comparison of this program ends here
                    _note(ctx, "hist:stopped at a float-rounded converted fraction")
                    return None
                return "%s: fraction part differs: impl %s model %s" % (who, xi, xm)
            vm = nm + xm
            if ni == nm:
                if oi.get("negzero"):
                    _note(ctx, "hist:number is the float -0.0 (text not compared)")
                elif oi["s"] != om["s"]:
                    return "%s: str differs: impl %r model %r" % (who, oi["s"], om["s"])
                if not qclose(fi, vm, max(abs(nm), abs(xm)), k=4):
                    return "%s: float differs: impl %s model %s" % (who, float(fi), float(vm))
            elif abs(fi - vm) > Q(1, 10 ** 9) * max(smax, abs(fi)):
                return "%s: float differs: impl %s model %s" % (who, float(fi), float(vm))
            pn, pa, pb = oi["parts"]
            if exact(pn) != ni or [pa, pb] != [xi.numerator, xi.denominator]:
                return "%s: GetNumber/GetFraction show other parts than number/fraction" % who
    _note(ctx, "hist:compared to the end")
    return None


def _brief(sn):
    d = dict(kind=sn["k"], float=float.fromhex(sn["f"]), str=sn["s"], fraction=sn["x"])
    if "n" in sn:
        d["number"] = float(qparse(sn["n"]))
    return d


def _dec_ok(spec):
    return _fin(spec) and (_short(spec) or spec[0] == "i")


def _operand_q(o, before):
    """exact value of the other operand of a Fraction operator, or None when the property does not fix it"""
    if o["t"] == "ref":
        return qparse(before[o["k"]]["x"]) if o["k"] < len(before) and before[o["k"]]["k"] == "frac" else None
    if o["t"] == "frac":
        return Q(o["x"][0], o["x"][1])
    if o["t"] == "num" and _in_fraction_domain(o["v"]):
        return _dec(o["v"])
    return None


def _fracarg_q(fr):
    if fr["t"] == "frac":
        return Q(fr["x"][0], fr["x"][1])
    if fr["t"] == "pair" and _fin(fr["a"]) and _fin(fr["b"]) and _in_fraction_domain(fr["a"]) and fr["b"][0] == "i" and fr["b"][1] != 0:
        return _dec(fr["a"]) / fr["b"][1]
    if fr["t"] == "default":
        return Q(0)
    return None


def _new_denotes(c, new, before):
    """what a freshly built object must denote (None: no demand, or it holds)"""
    t = c["t"]
    sn = _snap(new)
    x = qparse(sn["x"])
    val = exact(float.fromhex(sn["f"]))

    def bad(clause, want):
        return dict(clause=clause, built=_ctor_text(c), got=_brief(sn), want=str(want))

    if t == "fv_new":
        if not _fin(c["number"]):
            return None
        n = exact(_obj(c["number"]))
        fx = _fracarg_q(c["fr"])
        if fx is None:
            return None
        if qparse(sn["n"]) != n or x != fx:
            return bad("FractionValue(number, fraction) denotes number + numerator/denominator", "%s + %s" % (n, fx))
        if not _rel(float(val), float(n + fx), float(n)):
            return bad("float(FractionValue) = number + numerator/denominator", float(n + fx))
        return None
    if t == "cff":
        if not _fin(c["x"]):
            return None
        v = _obj(c["x"])
        if not _rel(float(val), float(v), float(v)):
            return bad("CreateFromFloat(x) denotes x", v)
        return None
    if t == "fs_new":
        v = c["v"]
        if v["t"] == "num":
            n = exact(_obj(v["v"]))
            if qparse(sn["n"]) != n or x != 0 or val != n:
                return bad("a FractionScalar built from a plain float holds that float", n)
        elif qparse(sn["n"]) != exact(_obj(v["v"]["n"])) or x != Q(v["v"]["x"][0], v["v"]["x"][1]):
            return bad("a FractionScalar holds the FractionValue it was built from", _show_val(v["v"]))
        return None
    if t == "fv_copy":
        src = before[c["k"]]
        if any(sn[k] != src[k] for k in ("n", "x", "s", "f")):
            return bad("a copy denotes what the original denotes", _brief(src))
        return None
    if t in ("frac_un", "frac_bin", "frac_pow"):
        a = qparse(before[c["k"]]["x"])
        want = None
        if t == "frac_un":
            want = {"neg": -a, "abs": abs(a), "inv": (1 / a if a else None), "copy": a}[c["f"]]
        elif t == "frac_pow":
            e = c["e"]
            if e[0] in ("i", "f") and (a != 0 or e[1] >= 0):
                want = a ** e[1]
                if e[0] == "f" and max(abs(want.numerator), want.denominator) >= 2 ** 53:
                    want = None      # a float power beyond 2**53 is rounded
        else:
            b = _operand_q(c["o"], before)
            f = c["f"]
            if b is not None and not ((f in ("div", "mod") and b == 0) or (f == "rdiv" and a == 0)):
                want = {"add": lambda: a + b, "radd": lambda: b + a, "sub": lambda: a - b, "rsub": lambda: b - a, "mul": lambda: a * b,
                        "rmul": lambda: b * a, "div": lambda: a / b, "rdiv": lambda: b / a, "mod": lambda: a % b}[f]()
        if want is not None and x != want:
            return bad("Fraction arithmetic agrees with exact rational arithmetic", want)
        return None
    if t == "frac_new":
        a, b = c["a"], c["b"]
        if _in_fraction_domain(a) and (b is None or (b[0] == "i" and b[1] != 0)):
            want = _dec(a) / (1 if b is None else b[1])
            if x != want:
                return bad("Fraction(a, b) denotes a/b", want)
    return None


def _upd_denotes(m, b4, now, text):
    """an in-place statement that succeeded changes the part it names, to the value given, and nothing else"""
    t = m["t"]
    x0, x1 = qparse(b4["x"]), qparse(now["x"])
    want_x, want_n = x0, b4.get("n")
    if t in ("setnum", "setden", "setitem"):
        v = m["v"]
        if not _in_fraction_domain(v):
            return None
        q = _dec(v)
        num = t == "setnum" or (t == "setitem" and m["key"] in (0, -2))
        if not num and q == 0:
            return None
        want_x = q / x0.denominator if num else Q(x0.numerator) / q
    elif t == "setnumber":
        want_n = qstr(exact(_obj(m["n"])))
    elif t == "setfraction":
        want_x = _fracarg_q(m["fr"])
        if want_x is None:
            return None
    if x1 != want_x or now.get("n") != want_n:
        return dict(clause="an in-place change sets the part it names and leaves the other part", statement=text, before=_brief(b4), after=_brief(now),
                    want_fraction=str(want_x))
    return None


def _oracle_hist(c, ctx):
    """C18 on a program, on the real code alone: a statement aimed at one object (or building a new one) leaves what every
    OTHER object shows - float(), str(), number, fraction, unit - exactly as it was; what is built denotes what it was built from"""
    ops = c["_t"]["ops"]
    pool = []
    for idx, o in enumerate(ops):
        before = [_snap(p) for p in pool]
        nb = len(pool)
        try:
            if o["k"] == "new":
                r = _build(o["c"], pool)
                if r is not None:
                    pool.append(r)
            else:
                _mutate(pool, o["i"], o["m"])
            ok = True
        except Exception:
            ok = False
        after = [_snap(p) for p in pool]
        kinds = {j: s["k"] for j, s in enumerate(after)}
        target = o["i"] if o["k"] == "upd" else None
        text = _program_text([o], kinds)[0]
        for j in range(nb):
            if j != target and before[j] != after[j]:
                return dict(clause="whatever is done to one object, every other Fraction / FractionValue / FractionScalar keeps denoting its amount",
                            program=_program_text(ops[:idx + 1], kinds), statement=idx, statement_text=text, changed_object="p%d" % j,
                            before=_brief(before[j]), after=_brief(after[j]))
        for j, sn in enumerate(after):
            if sn["k"] != "frac":
                want = qparse(sn["n"]) + qparse(sn["x"])
                if not _rel(float.fromhex(sn["f"]), float(want), float(qparse(sn["n"]))):
                    return dict(clause="float(value) = number + numerator/denominator", program=_program_text(ops[:idx + 1], kinds), statement=idx,
                                object="p%d" % j, shows=_brief(sn))
        if not ok:
            continue
        f = None
        if o["k"] == "new" and len(pool) > nb:
            f = _new_denotes(o["c"], pool[-1], before)
        elif o["k"] == "upd" and target is not None and target < nb:
            f = _upd_denotes(o["m"], before[target], after[target], text)
        if f:
            f.update(program=_program_text(ops[:idx + 1], kinds), statement=idx)
            return f
    return None


def _oracle_more(c, ctx):
    """`**` with an integer exponent, the in-place setters and the sequence protocol of one Fraction"""
    op, t = c["op"], c["_t"]
    x = Q(t["x"][0], t["x"][1])
    fx = _fr(t["x"])
    if op == "frac_pow":
        e = t["e"]
        if e[0] not in ("i", "f") or (x == 0 and e[1] < 0):
            return None
        got = (fx ** _pow_obj(e)).x
        want = x ** e[1]
        if e[0] == "f" and max(abs(want.numerator), want.denominator) >= 2 ** 53:
            return None
        return None if got == want else dict(clause="Fraction ** integer agrees with exact rational arithmetic", x=str(x), exponent=_pow_obj(e),
                                             got=str(got), want=str(want))
    if op == "frac_set":
        b4 = _snap(fx)
        try:
            _mutate([fx], 0, t["m"])
        except Exception:
            return None
        return _upd_denotes(t["m"], b4, _snap(fx), _mut_text(0, t["m"], "frac"))
    n, d = len(fx), list(fx)
    if n != 2 or d != [x.numerator, x.denominator] or (fx[0], fx[1], fx[-2], fx[-1]) != (d[0], d[1], d[0], d[1]):
        return dict(clause="len / iteration / indexing of a Fraction show its numerator and denominator", x=str(x), len=n, items=[str(i) for i in d])
    return None


def _refs(o):
    """pool indices a statement reads or changes"""
    if o["k"] == "upd":
        return [o["i"]]
    c = o["c"]
    r = [c["k"]] if "k" in c else []
    if c["t"] == "frac_bin" and c["o"]["t"] == "ref":
        r.append(c["o"]["k"])
    return r


def _renumber(o, q):
    o = copy.deepcopy(o)
    if o["k"] == "upd":
        if o["i"] > q:
            o["i"] -= 1
        return o
    c = o["c"]
    if "k" in c and c["k"] > q:
        c["k"] -= 1
    if c["t"] == "frac_bin" and c["o"]["t"] == "ref" and c["o"]["k"] > q:
        c["o"]["k"] -= 1
    return o


def _drop_stmt(ops, idx):
    """the program without statement idx (later references renumbered), or None when something refers to what it builds"""
    o = ops[idx]
    if o["k"] == "upd":
        return ops[:idx] + ops[idx + 1:]
    n0 = len(_run_program(ops[:idx])[-1]["pool"]) if idx else 0
    n1 = len(_run_program(ops[:idx + 1])[-1]["pool"])
    if n1 == n0:
        return ops[:idx] + ops[idx + 1:]
    q = n0
    if any(q in _refs(p) for p in ops[idx + 1:]):
        return None
    return ops[:idx] + [_renumber(p, q) for p in ops[idx + 1:]]


def _shrink_hist(case, failure, ctx):
    db, ops = case["_t"]["db"], case["_t"]["ops"]
    if isinstance(failure.get("statement"), int):
        ops = ops[:failure["statement"] + 1]
    best = (c_hist(db, ops), failure)
    f0 = oracle(best[0], ctx)
    if not f0:
        return case, failure
    best = (best[0], f0)
    progress = True
    while progress:
        progress = False
        ops = best[0]["_t"]["ops"]
        for idx in range(len(ops) - 2, -1, -1):
            cand = _drop_stmt(ops, idx)
            if cand is None:
                continue
            c2 = c_hist(db, cand)
            f2 = oracle(c2, ctx)
            if f2 and f2.get("clause") == best[1].get("clause"):
                best = (c2, f2)
                progress = True
                break
    return best


SEARCH_SIZES = {
    "quick": dict(frac_new=3000, frac_ops=6000, fv=3000, str=0, parse=0, cff=0, per_type=12, nvals=1, misc=3000, cfv=6000,
                  frac_more=3000, fv_more=2000, hist=3000),
    "thorough": dict(frac_new=30000, frac_ops=60000, fv=30000, str=0, parse=0, cff=0, per_type=None, nvals=1, misc=30000, cfv=40000,
                     frac_more=20000, fv_more=10000, hist=30000),
}


def search(ctx):
    """the oracle's own sweep: like the correspondence streams, restricted to the inputs on which the unchanged
    code satisfies C18 (the three known input classes are replayed separately)"""
    z = SEARCH_SIZES[ctx.tier]
    n = 4000 if ctx.tier == "quick" else 40000
    rng = ctx.fresh_rng("C18search-str")
    for _ in range(n):
        yield c_fv1("fv_strparse", g_fv_printable(rng))
    rng = ctx.fresh_rng("C18search-cff")
    for _ in range(n):
        sd = rng.randint(1, 8)
        m = rng.randrange(1, 10 ** sd)
        e = rng.randint(-min(sd + 3, 8), 4)
        x = float("%de%d" % (m, e)) * rng.choice((1, -1))
        if abs(x) >= 1e-4 or x == 0:
            yield c_cff(_F(x))
    for c in _streams(ctx, "search", z):
        yield c


SIMPLE_FV = [dict(n=_I(5), x=[1, 2]), dict(n=_I(0), x=[1, 2]), dict(n=_I(-5), x=[-1, 2]), dict(n=_I(2), x=[3, 4]), dict(n=_F(2.5), x=[1, 8])]
SIMPLE_PAIRS = [[1, 2], [-1, 2], [3, 4], [0, 1], [5, 3], [-7, 8]]


def _simpler(c):
    """simpler variants of a failing case, most drastic first"""
    op, t = c["op"], c["_t"]
    if op in ("fs_convert", "db_convert"):
        for v in SIMPLE_FV:
            kw = {k: w for k, w in t.items() if k != "db"}
            kw["v"] = v
            yield c_fs(op, db=t.get("db", "posc"), **kw)
    elif op == "cfv":
        for v in [dict(n=_I(2), x=[1, 2])] + SIMPLE_FV:
            yield c_cfv(t["q"], t["from"], t["to"], v, db=t.get("db", "posc"))
    elif op in ("fs_order", "fs_valid", "fs_eq"):
        for va in SIMPLE_FV:
            for vb in SIMPLE_FV[:3]:
                kw = copy.deepcopy({k: w for k, w in t.items() if k != "db"})
                kw["a"]["v"] = va
                if "b" in kw:
                    kw["b"]["v"] = vb
                if "f" in c:
                    kw["f"] = c["f"]
                yield c_fs(op, db=t.get("db", "posc"), **kw)
    elif op == "cff" and _fin(t["x"]):
        x = _obj(t["x"])
        for x2 in (0.5, -0.5, 2.75, -2.75, 0.375):
            yield c_cff(_F(x2))
        if isinstance(x, float):
            for d in range(1, 9):
                yield c_cff(_F(float("%.*g" % (d, x))))
    elif op in ("fv_str", "fv_strparse", "fv_float", "fv_copy"):
        for v in SIMPLE_FV:
            yield c_fv1(op, v)
        v = copy.deepcopy(t["v"])
        yield c_fv1(op, dict(n=v["n"], x=[1, 2]))
        yield c_fv1(op, dict(n=_I(5), x=v["x"]))
    elif op == "fv_cmp":
        for va in SIMPLE_FV:
            for vb in SIMPLE_FV:
                yield c_fv_cmp(c["f"], va, vb)
    elif op == "frac_bin":
        for x in SIMPLE_PAIRS:
            for y in SIMPLE_PAIRS:
                yield c_frac_bin(c["f"], x, dict(t="frac", x=y))
            yield c_frac_bin(c["f"], x, t["o"])
    elif op == "frac_cmp":
        for x in SIMPLE_PAIRS:
            for y in SIMPLE_PAIRS:
                yield c_frac_cmp(c["f"], x, dict(t="frac", x=y), False)
            yield c_frac_cmp(c["f"], x, t["o"], c["refl"])
    elif op == "frac_un":
        for x in SIMPLE_PAIRS:
            yield c_frac_un(c["f"], x)
    elif op == "frac_pow":
        for x in SIMPLE_PAIRS:
            for e in (["i", 2], ["i", -1], ["i", 3], ["f", 2], t["e"]):
                yield c_frac_pow(x, e)
    elif op == "frac_set":
        for x in SIMPLE_PAIRS:
            yield c_frac_set(x, t["m"])
    elif op == "frac_seq":
        for x in SIMPLE_PAIRS:
            yield c_frac_seq(c["f"], x, t.get("key"))
    elif op == "frac_new":
        for a in (_I(1), _I(3), _F(0.5), _F(1.5), _F(0.25)):
            for b in (None, _I(2), _I(-4)):
                yield c_frac_new(a, b)


def shrink(case, failure, ctx):
    if case["op"] == "hist":
        from barril.units.unit_database import UnitDatabase

        UnitDatabase.PushSingleton(_db(case, ctx))
        try:
            return _shrink_hist(case, failure, ctx)
        except Exception:
            return case, failure
        finally:
            UnitDatabase.PopSingleton()
    try:
        for c2 in _simpler(case):
            f2 = oracle(c2, ctx)
            if f2:
                return c2, f2
    except Exception:
        pass
    return case, failure


def _entry_class(entry):
    return (entry.get("matcher") or {}).get("class") or entry.get("class")


def matches_known(entry, case, failure):
    return bool(_entry_class(entry)) and failure.get("known_class") == _entry_class(entry)


FINDING_CASES = {
    "tiny-increment": lambda: c_fs("fs_convert", cat="length", to="km", v=dict(n=_I(0), x=[1, 2]), **{"from": "um"}),
    "g-exponent": lambda: c_fv1("fv_strparse", dict(n=_I(1000000), x=[0, 1])),
    "repr-exponent": lambda: c_cff(_F(1.5e-7)),
}


def replay_finding(entry, ctx):
    mk = FINDING_CASES.get(_entry_class(entry))
    if mk is None:
        return None
    return oracle(mk(), ctx, report_known=True)
