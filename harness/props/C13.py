"""C13 - operations never mutate their operands; copies and pickles are equal.

Decided by Barril/Props/C13.lean: frame theorems over the heap model Barril/Model/Heap.lean (every cell,
quantity and pool member that existed before an operation is unchanged after it, for all heaps and all
operation sequences; hence every pool member's snapshot is stable) and equality theorems for copy /
deepcopy / CreateCopy() / pickle.  Tie: histories over pools of Scalar / Array (list, tuple, ndarray) /
FixedArray / FractionScalar objects run on the real code (private POSC database pushed as the singleton)
and on the model (`drv_heap`); on the real side EVERY pool member is snapshotted before and after EVERY step
(values, container identity and contents, unit, category, dimension, the `[unit, exp]` lists of its
quantity, FractionValue/Fraction parts); new objects, returned containers, sharing (which pool member
holds the same container), error kinds and the final pool are compared with the model's heap."""
import copy
import operator
import pickle
from fractions import Fraction as F

from common import close, err_kind, exact, qparse, qstr, sym, unsym

ID = "C13"
LEAN_MODULES = ["Barril.Props.C13"]
DRIVERS = ["drv_heap"]
DRIVER_EXE = "drv_heap"
RULE = ("seeded histories (quick 500 x ~45 steps, thorough 6500 x ~50) over a pool that starts with objects of "
        "every class and container kind (Scalar; Array/FixedArray over list, tuple, ndarray; FractionScalar; "
        "empty, unknown-caption and - through * and / - derived quantities; two Arrays over one list) and grows "
        "with every result: + - * / // between pool members and with plain numbers on either side, == and <, "
        "GetValue(s)(unit) incl. the own unit (returns the internal container), CreateCopy(), "
        "CreateCopy(unit[, category]), copy/deepcopy/Copy, pickle round trips, IsValid, str/repr/GetFormatted, "
        "ChangingIndex (number / Scalar, both unit modes, negative and out-of-range indices), IndexAsScalar, value "
        "objects built with CreateWithQuantity on hand-made composing maps holding two units of one quantity type "
        "(both orders) with + and - applied to them on the LEFT (succeeding and failing) and * / on either side, powers of "
        "one amount in two units combined (exponent-aware unit matching on whole containers), "
        "the public ValidateValues(values, quantity) with foreign values / quantities before and after the verdict "
        "is cached, probes of every other public read-only entry point of the four classes and of Quantity (__ne__, "
        "hash, AlmostEqual, <= > >=, **, len/[]/iter, GetValueAndUnit, GetFormatted*(unit), GetUnitName, GetValidUnits, "
        "CheckValues, IndexAsScalar(i, quantity), FromScalars, ConvertFractionValue, Quantity getters / copies / "
        "Convert / CheckValue / arithmetic), "
        "IsValid / CheckValidity / ValidateValues (twice: cached verdict) on Scalars, FractionScalars and unsorted "
        "Arrays / FixedArrays of six categories WITH limits (accepted and rejected), a caller scribbling (edit, append, "
        "clear) into containers returned by GetValues(other unit) followed by GetValues / CreateCopy(unit) again, "
        "x ** e on every class (Scalar.__pow__ as repeated Multiply; e < 2 returns x itself), ndarray containers of "
        "every dtype in use (float64, int64, int32 in the general stream with a wrap-around guard; float32 in a closing "
        "pattern judged in single precision), units drawn by the SHAPE of their table row (each coefficient of the "
        "to-base formula classed 0 / 1 / -1 / other, read from the table on every run: two shapes join every history "
        "and a pattern makes an ndarray-backed Array / FixedArray in such a unit the operand of GetValues(unit), "
        "CreateCopy(unit), IndexAsScalar, ChangingIndex (also its (value, unit[, category]) form) and of + - * / // on "
        "either side), hash() of every class, "
        "plus a malformed stream (class mixes, foreign units, bad dimensions, zero divisors), a stateless stream "
        "(quick 1500, thorough 20000) validating list / tuple / float64 / float32 containers with NaNs and a stateless "
        "stream (quick 300, thorough 3000) of tuple-of-tuples Arrays (GetValues(unit), IsValid, str, CreateCopy, ==); distinct = "
        "distinct history; non-trivial = some step involved an object that shares a container, a FractionValue "
        "or an interned quantity with an earlier pool member and at least one step allocated cells")
EXHAUSTIVE = {"quick": False, "thorough": False}
ASSUMPTIONS = [
    "aliasing is a hand-modelled heap (cells = lists/tuples/ndarrays, [unit, exp] lists, Fraction, FractionValue); "
    "a missed copy in the real code is caught by the per-step operand snapshots of the correspondence, the "
    "theorems are about the model",
    "the caller does not write into containers / FractionValues it handed to a value object (the objects keep "
    "references by design); object attributes outside value/unit/category/dimension/container (Array's "
    "validity memo) are not part of the property",
    "numpy elementwise semantics = map/zipWith over exact rationals; values are finite, NaN-free floats, compared "
    "within 2**20 eps * M plus the distance inherited from the operands (accuracy itself is C01-C04's business); "
    "tuple-of-tuples Arrays only in a stateless stream (conversion / validation / formatting / copy of one Array, "
    "numbers and verdict compared with the model of the flattened list)",
    "Fraction's 1e-8 numerator rounding (Fraction.__init__ loop) is C18's; the model keeps exact rationals and "
    "fraction parts are compared within 2e-8",
    "the memo table of CheckCategoryUnit and the identity of interned quantities are C05/C07's; the model interns "
    "by the same keys but identities are not compared here",
    "validation: the private database registers six categories with limits on top of POSC (POSC has none); "
    "NaN and float32 containers are validated in a stateless stream (the history model has exact rationals only); "
    "the Array's cached verdict is modelled as a memo table outside the heap and is not compared",
    "a caller writes only into containers returned for ANOTHER unit (new objects); it never writes into the "
    "container GetValues() hands out for the own unit, which is the Array's internal one by design",
]

CORE = {
    "length": (["m", "cm", "km", "ft", "in"], ["length", "depth", "diameter"]),
    "time": (["s", "min", "h"], ["time"]),
    "temperature": (["K", "degC", "degF"], ["temperature"]),
    "mass": (["kg", "g", "lbm"], ["mass"]),
    "pressure": (["Pa", "psi", "bar"], ["pressure"]),
}
VALUES = [0.0, 1.0, -2.5, 3.75, 100.0, 0.1, 7.0, -13.2, 1e-3, 2500.0]
NZ_VALUES = [1.0, -2.5, 3.75, 100.0, 0.1, 7.0, -13.2, 2500.0]
F32_VALUES = [1.0, -2.5, 3.75, 100.0, 0.5, 7.0, -13.25, 2500.0]       # exactly representable in float32
KINDS = ["list", "tuple", "ndarray"]
BINOPS = {"add": operator.add, "sub": operator.sub, "mul": operator.mul, "div": operator.truediv,
          "floordiv": operator.floordiv}
MAX_POOL = 40
# categories WITH limits registered on top of POSC in the private database (POSC itself has none): inclusive and
# exclusive bounds, one-sided and two-sided, default unit not always the base unit; the bounds are "odd" numbers so
# that no generated value lands on one after a conversion
LIMITED = [
    dict(name="c13 bounded length", qtype="length", unit="m", min=0.0, max=123.456, minExcl=False, maxExcl=False, default=1.0),
    dict(name="c13 positive length", qtype="length", unit="cm", min=-0.517, max=None, minExcl=True, maxExcl=False, default=1.0),
    dict(name="c13 temperature", qtype="temperature", unit="degC", min=-41.3, max=411.7, minExcl=False, maxExcl=True, default=20.0),
    dict(name="c13 short time", qtype="time", unit="s", min=None, max=1234.5, minExcl=False, maxExcl=True, default=1.0),
    dict(name="c13 pressure", qtype="pressure", unit="Pa", min=-1.53, max=None, minExcl=False, maxExcl=False, default=0.0),
    dict(name="c13 mass", qtype="mass", unit="kg", min=0.0123, max=3333.3, minExcl=True, maxExcl=False, default=1.0),
]
_EXTRA_CATS = []
MAX_EXP = 6


# ------------------------------------------------------------------------------------------ real side
DTYPES = ["float64", "int64", "int32", "float32"]      # the ndarray dtypes in use (library tests: all four)


def _container(kind, xs, dt=None):
    import numpy

    if kind == "list":
        return list(xs)
    if kind == "tuple":
        return tuple(xs)
    return numpy.array(xs, dtype=getattr(numpy, dt or "float64"))


def _dt(v):
    """dtype of an ndarray container; "float32" for a number / list / tuple that holds numpy.float32 items"""
    import numpy

    if isinstance(v, numpy.ndarray):
        return str(v.dtype)
    if isinstance(v, (list, tuple)):
        return "float32" if any(isinstance(x, numpy.float32) for x in v) else None
    return "float32" if isinstance(v, numpy.float32) else None


def _kind_of(v):
    import numpy

    if isinstance(v, numpy.ndarray):
        return "ndarray"
    return type(v).__name__


def _hex(x):
    return float(x).hex()


def _qsnap(q):
    items = [(c, ue[0], int(ue[1])) for c, ue in q.GetCategoryToUnitAndExps().items()]
    if q.IsDerived():
        comp = [(c, u, int(e)) for c, (u, e) in zip(q.GetComposingCategories(), q.GetComposingUnits())]
    else:
        comp = [(q.GetComposingCategories(), q.GetComposingUnits(), 1)]
    return dict(items=items, comp=comp, cap=q.GetUnknownCaption() or "", derived=bool(q.IsDerived()), unit=q.GetUnit(),
                category=q.GetCategory(), qtype=q.GetQuantityType(), qid=id(q))


def _snap(o):
    """Everything the property speaks about, read through public getters (plus identities)."""
    from barril.units import Array, FixedArray, FractionScalar, Scalar

    q = _qsnap(o.GetQuantity())
    if isinstance(o, Scalar):
        d = dict(cls="scalar", v=_hex(o.GetValue()), q=q)
        if _dt(o.GetValue()):
            d["dt"] = _dt(o.GetValue())
        return d
    if isinstance(o, FractionScalar):
        v = o.GetValue()
        fr = v.GetFraction()
        return dict(cls="fscalar", n=_hex(v.GetNumber()), num=int(fr.numerator), den=int(fr.denominator),
                    vid=id(v), fid=id(fr), q=q)
    if isinstance(o, Array):
        vals = o.GetValues()
        d = dict(cls="fixed" if isinstance(o, FixedArray) else "array", kind=_kind_of(vals),
                 xs=[_hex(x) for x in vals], cid=id(vals), q=q)
        if _dt(vals):
            d["dt"] = _dt(vals)
        if isinstance(o, FixedArray):
            d["dim"] = int(o.GetDimension())
        return d
    return dict(cls="?")


def _inner(o):
    """the container / FractionValue object a pool member holds (for the sharing relation)"""
    from barril.units import Array, FractionScalar

    if isinstance(o, (Array, FractionScalar)):
        return o.GetAbstractValue()
    return None


def _no_identity(inner):
    """CPython has a single empty tuple object: its identity says nothing about sharing"""
    return inner is None or (isinstance(inner, tuple) and len(inner) == 0)


def _alias(pool, o):
    inner = _inner(o)
    if _no_identity(inner):
        return None
    for i, p in enumerate(pool):
        if _inner(p) is inner:
            return i
    return len(pool)


def _public(s):
    """the part of a snapshot that is compared with the model"""
    q = s["q"]
    d = dict(cls=s["cls"], items=[list(t) for t in q["items"]], comp=[list(t) for t in q["comp"]], cap=q["cap"],
             derived=q["derived"], unit=q["unit"])
    for k in ("v", "kind", "xs", "dim", "n", "num", "den", "dt"):
        if k in s:
            d[k] = s[k]
    return d


def _operand(pool, a):
    return pool[a["i"]] if "i" in a else a["n"]


def _run_op(db, pool, op):
    """One public operation on the real code.  Returns (canonical outcome, new pool member or None)."""
    import numpy

    from barril.basic.fraction import FractionValue
    from barril.units import Array, FixedArray, FractionScalar, ObtainQuantity, Scalar

    k = op["k"]
    try:
        with numpy.errstate(all="raise"):
            if k == "mkScalar":
                r = Scalar(op["v"], op["u"], op["c"])
            elif k == "mkEmptyScalar":
                r = Scalar.CreateEmptyScalar(op["v"])
            elif k == "mkCaptionScalar":
                r = Scalar(ObtainQuantity(op["u"], None, op["cap"]), op["v"])
            elif k == "mkArray":
                r = Array(_container(op["kind"], op["xs"], op.get("dt")), op["u"], op["c"])
            elif k == "mkArrayFrom":
                r = Array(pool[op["i"]].GetValues(), op["u"], op["c"])
            elif k == "mkEmptyArray":
                r = Array.CreateEmptyArray(_container(op["kind"], op["xs"], op.get("dt")))
            elif k == "mkFixed":
                r = FixedArray(op["dim"], _container(op["kind"], op["xs"], op.get("dt")), op["u"], op["c"])
            elif k == "mkFScalar":
                r = FractionScalar(FractionValue(op["n"], (op["num"], op["den"])), op["u"], op["c"])
            elif k == "mkDerived":
                from collections import OrderedDict

                from barril.units import Quantity

                q = Quantity.CreateDerived(OrderedDict((c, [u, e]) for c, u, e in op["items"]))
                if op["cls"] == "scalar":
                    r = Scalar.CreateWithQuantity(q, op["v"])
                elif op["cls"] == "array":
                    r = Array.CreateWithQuantity(q, _container(op["kind"], op["xs"], op.get("dt")))
                else:
                    r = FixedArray.CreateWithQuantity(q, _container(op["kind"], op["xs"], op.get("dt")))
            elif k == "arith":
                r = BINOPS[op["f"]](_operand(pool, op["a"]), _operand(pool, op["b"]))
            elif k == "pow":
                r = pool[op["i"]] ** op["e"]          # Scalar.__pow__; `self` itself for an exponent below 2
            elif k == "eq":
                a, b = pool[op["i"]], pool[op["j"]]
                return dict(ok=dict(t="bool", b=bool(a == b), near=_near(a, b))), None
            elif k == "lt":
                a, b = pool[op["i"]], pool[op["j"]]
                res = bool(a < b)
                return dict(ok=dict(t="bool", b=res, near=_tie(a, b))), None
            elif k == "getValue":
                o = pool[op["i"]]
                r = o.GetAbstractValue(op.get("u"))
                if isinstance(o, Scalar):
                    return dict(ok=dict(t="num", x=_hex(r), dt=_dt(r))), None
                if isinstance(o, FractionScalar):
                    fr = r.GetFraction()
                    return dict(ok=dict(t="fval", shared=r is o.GetAbstractValue(), n=_hex(r.GetNumber()),
                                        num=int(fr.numerator), den=int(fr.denominator))), None
                return dict(ok=dict(t="cont", shared=None if _no_identity(r) else r is o.GetAbstractValue(),
                                    kind=_kind_of(r), xs=[_hex(x) for x in r], dt=_dt(r))), None
            elif k == "createCopy":
                r = pool[op["i"]].CreateCopy(unit=op.get("u"), category=op.get("c"))
            elif k == "copy":
                o = pool[op["i"]]
                r = copy.copy(o) if op["how"] == "copy" else copy.deepcopy(o) if op["how"] == "deepcopy" else o.Copy()
            elif k == "pickle":
                r = pickle.loads(pickle.dumps(pool[op["i"]]))
            elif k == "isValid":
                o = pool[op["i"]]
                return dict(ok=dict(t="bool", b=bool(o.IsValid()), near=_near_limit(o)), near=_near_limit(o)), None
            elif k == "checkValidity":
                o = pool[op["i"]]
                near = _near_limit(o)
                try:
                    if op["how"] == "ValidateValues":
                        o.ValidateValues(o.GetValues(), o.GetQuantity())
                    else:
                        o.CheckValidity()
                except Exception as e:
                    return dict(err=err_kind(e), near=near), None
                return dict(ok=dict(t="unit"), near=near), None
            elif k == "validateWith":
                o = pool[op["i"]]
                src = op["src"]
                vals = (pool[src["j"]].GetValues() if "j" in src else _container(src["kind"], src["xs"], src.get("dt")) if "kind" in src
                        else o.GetValues())
                q = o.GetQuantity() if op.get("qk") is None else pool[op["qk"]].GetQuantity()
                near = _near_limit_vals(vals, q)
                try:
                    o.ValidateValues(vals, q)          # the public entry point, with ANY values and quantity
                except Exception as e:
                    return dict(err=err_kind(e), near=near), None
                return dict(ok=dict(t="unit"), near=near), None
            elif k == "probe":
                _probe(pool, op)
                return dict(ok=dict(t="unit")), None
            elif k == "scribble":
                o = pool[op["i"]]
                r = o.GetValues(op.get("u"))
                own = o.GetValues()
                shared = None if _no_identity(r) else r is own
                if r is not own and not isinstance(r, tuple):
                    _scribble(r, op["how"])          # the CALLER writes into what it was handed
                return dict(ok=dict(t="cont", shared=shared, kind=_kind_of(r), xs=[_hex(x) for x in r], dt=_dt(r))), None
            elif k == "format":
                o = pool[op["i"]]
                if op["how"] == "str":
                    str(o)
                elif op["how"] == "repr":
                    repr(o)
                else:
                    o.GetFormatted()
                return dict(ok=dict(t="unit")), None
            elif k == "changingIndex":
                r = pool[op["i"]].ChangingIndex(op["idx"], _operand(pool, op["v"]), op["uvu"])
            elif k == "indexAsScalar":
                r = pool[op["i"]].IndexAsScalar(op["idx"])
            else:
                return dict(err="other"), None
    except Exception as e:
        return dict(err=err_kind(e)), None
    for i, p in enumerate(pool):
        if p is r:
            return dict(ok=dict(t="obj", i=i, fresh=False, snap=_public(_snap(r)), alias=_alias(pool, r))), None
    try:
        out = dict(ok=dict(t="obj", i=len(pool), fresh=True, snap=_public(_snap(r)), alias=_alias(pool, r)))
    except Exception as e:      # a result that cannot even be read
        return dict(err="unreadable result: " + err_kind(e)), None
    return out, r


def _scribble(r, how):
    import numpy

    if isinstance(r, numpy.ndarray):
        r[...] = 777.0
    elif how == "append":
        r.append(777.0)
    elif how == "clear":
        r.clear()
    else:
        r[:] = [777.0] * len(r)


def _near_limit_vals(vals, q):
    try:
        if q.IsDerived():
            return False
        ci = q.GetCategoryInfo()
        if (ci.min_value is None and ci.max_value is None) or q.GetUnit() == ci.default_unit:
            return False
        for v in vals:
            w = q.ConvertScalarValue(float(v), ci.default_unit)
            for lim in (ci.min_value, ci.max_value):
                if lim is not None and abs(w - lim) <= 1e-9 * max(abs(lim), abs(w)):
                    return True
    except Exception:
        pass
    return False


PROBES = {
    "any": ["ne", "unitname", "validunits", "hascategory", "suffix", "getters", "qcopy", "qhash", "qmakecopy", "qcaption",
            "qconvert", "qcheckvalue", "qarith", "qpow", "createcopyinstance", "objhash"],
    "Scalar": ["hash", "almostequal", "valueandunit", "formattedvalue", "formatted", "order", "pow", "value"],
    "FractionScalar": ["valueandunit", "formattedvalue", "formatted", "order", "convertfraction", "value"],
    "Array": ["len", "getitem", "slice", "iter", "values", "fromscalars"],
    "FixedArray": ["len", "getitem", "slice", "iter", "values", "dimension", "checkvalues", "indexq", "changeindex"],
}


def _probe(pool, op):
    """public read-only entry points of the value classes and of Quantity that no other operation of the
    histories calls; results and exceptions are ignored (what matters is that the operands stay as they are)"""
    from barril.units import Array, FractionScalar, Scalar

    o = pool[op["i"]]
    o2 = pool[op["j"]] if op.get("j") is not None and op["j"] < len(pool) else o
    u = op.get("u")
    q, q2 = o.GetQuantity(), o2.GetQuantity()
    w = op["what"]
    try:
        if w == "ne":
            o != o2
        elif w == "unitname":
            o.GetUnitName(), q.GetUnitName()
        elif w == "validunits":
            o.GetValidUnits(), q.GetValidUnits()
        elif w == "hascategory":
            o.HasCategory(), o.GetUnitDatabase()
        elif w == "suffix":
            o.GetFormattedSuffix(), o.GetFormattedSuffix(u), o.GetFormattedSuffixFormat()
        elif w == "getters":
            (o.GetCategory(), o.category, o.GetQuantityType(), o.quantity_type, o.GetUnit(), o.unit, o.GetAbstractValue(),
             q.GetCategoryInfo(), q.GetComposingCategories(), q.GetComposingUnits(), q.GetComposingUnitsJoiningExponents(),
             q.IsDerived(), repr(q))
        elif w == "qcopy":
            q.GetCategoryToUnitAndExpsCopy(), q.GetCategoryToUnitAndExps()
        elif w == "qhash":
            hash(q), q == q2, q != q2, abs(q)
        elif w == "qmakecopy":
            q.MakeCopy(), q.Copy(), q.CreateCopyInstance(), q.MakeCopy(q.GetCategoryToUnitAndExpsCopy())
        elif w == "qcaption":
            q.GetUnitCaption(), q.GetUnknownCaption()
        elif w == "qconvert":
            q.Convert(o.GetAbstractValue(), u) if isinstance(o, (Array, Scalar)) else q.ConvertScalarValue(1.5, u)
        elif w == "qcheckvalue":
            q.CheckValue(_floats(o)[0] if _floats(o) else 0.0), q.CheckValue(1.0, use_literals=True)
        elif w == "qarith":
            q * q2, q / q2, 2 * q, q + q2 if op.get("same") else q - q
        elif w == "qpow":
            q ** 2
        elif w == "createcopyinstance":
            o.CreateCopyInstance(), o.__copy__(), o.__deepcopy__({})
        elif w == "hash":
            hash(o)
        elif w == "objhash":
            hash(o)          # Array / FixedArray / FractionScalar: NotImplementedError
        elif w == "almostequal":
            o.AlmostEqual(o2, 3)
        elif w == "valueandunit":
            o.GetValueAndUnit()
        elif w == "formattedvalue":
            o.GetFormattedValue(), o.GetFormattedValue(u), o.GetFormattedValueFormat()
        elif w == "formatted":
            o.GetFormatted(), o.GetFormatted(u), str(o)
        elif w == "order":
            o <= o2, o > o2, o >= o2
        elif w == "pow":
            o ** 2, o ** 3
        elif w == "value":
            o.value, o.GetValue(), o.GetValue(u)
        elif w == "convertfraction":
            FractionScalar.ConvertFractionValue(o.GetValue(), q, o.GetUnit(), u)
            FractionScalar.ConvertFractionValue(o.GetValue(), o.GetQuantityType(), o.GetUnit(), u)
        elif w == "len":
            len(o)
        elif w == "getitem":
            o[0], o[-1]
        elif w == "slice":
            o[:], o[1:]
        elif w == "iter":
            list(iter(o)), [x for x in o]
        elif w == "values":
            o.values, o.GetValues(), o.GetValues(u)
        elif w == "fromscalars":
            Array.FromScalars([Scalar(float(x), o.GetUnit(), o.GetCategory()) for x in o.GetValues()][:3] or
                              [Scalar(1.0, "m")], unit=u)
        elif w == "dimension":
            o.GetDimension(), o.dimension
        elif w == "checkvalues":
            o.CheckValues(o.GetValues()), o.CheckValues(o.GetValues(), o.GetDimension())
        elif w == "indexq":
            o.IndexAsScalar(0, q2), o.IndexAsScalar(-1)
        elif w == "changeindex":
            idx, uvu = op.get("idx", 0), op.get("uvu", False)
            o.IndexAsScalar(idx)
            o.ChangingIndex(idx, _operand(pool, op.get("v", dict(n=1.5))), uvu)
            # the tuple form `(value, unit[, category])`: Scalar(own quantity, values[index]).CreateCopy(*value)
            o.ChangingIndex(idx, (1.5, o.GetUnit()), uvu)
            o.ChangingIndex(idx, (None, u), not uvu)
            o.ChangingIndex(idx, (2.5, u, o.GetCategory()), uvu)
    except Exception:
        pass


def _near_limit(o):
    """a value that sits on a limit of its category after a unit conversion: the verdict is float rounding"""
    try:
        q = o.GetQuantity()
        if q.IsDerived():
            return False
        ci = q.GetCategoryInfo()
        if (ci.min_value is None and ci.max_value is None) or q.GetUnit() == ci.default_unit:
            return False
        for v in _floats(o)[:1] if type(o).__name__ == "FractionScalar" else _floats(o):
            if type(o).__name__ == "FractionScalar":
                v = float(o.GetValue())
            w = q.ConvertScalarValue(v, ci.default_unit)
            for lim in (ci.min_value, ci.max_value):
                if lim is not None and abs(w - lim) <= 1e-9 * max(abs(lim), abs(w)):
                    return True
    except Exception:
        pass
    return False


def _floats(o):
    s = _snap(o)
    if s["cls"] == "scalar":
        return [float.fromhex(s["v"])]
    if s["cls"] == "fscalar":
        return [float.fromhex(s["n"]), s["num"] / s["den"]]
    return [float.fromhex(x) for x in s.get("xs", [])]


def _near(a, b):
    """class, quantity and dimension equal and the values equal up to rounding: the verdict of == then hangs
    on float rounding alone (the exact model may see a difference the floats do not, or the reverse)"""
    try:
        if type(a) is not type(b) or not (a.GetQuantity() == b.GetQuantity()):
            return False
        x, y = _floats(a), _floats(b)
        if len(x) != len(y):
            return False
        return all(abs(p - q) <= 1e-9 * max(abs(p), abs(q), 1e-300) for p, q in zip(x, y))
    except Exception:
        return False


def _tie(a, b):
    try:
        u = a.GetUnit()
        v1, v2 = float(a.GetValue(u)), float(b.GetValue(u))
        return abs(v1 - v2) <= 1e-9 * max(abs(v1), abs(v2), 1e-300) and v1 != v2 or (v1 == v2)
    except Exception:
        return False


def _fresh_db(ctx):
    db = ctx.db
    db.quantities_cache.clear()
    db._category_unit_valid.clear()
    return db


def run_history(ctx, ops, stop_at_change=False):
    """Run a history on the real code with before/after snapshots of every pool member at every step."""
    from barril.units.unit_database import UnitDatabase

    db = _fresh_db(ctx)
    UnitDatabase.PushSingleton(db)
    pool, outs = [], []
    near_memo = set()
    try:
        for step, op in enumerate(ops):
            before = [_snap(o) for o in pool]
            try:
                out, new = _run_op(db, pool, op)
            except IndexError:      # operand index beyond the pool (only after an earlier divergence)
                out, new = dict(err="index"), None
            if op["k"] in ("isValid", "checkValidity", "validateWith"):
                # a verdict decided on a near tie is cached by the Array: later verdicts of that object inherit it
                if out.get("near"):
                    near_memo.add(op["i"])
                elif op["i"] in near_memo:
                    out["near"] = True
            after = [_snap(o) for o in pool]
            changed = [i for i in range(len(pool)) if before[i] != after[i]]
            out["changed"] = changed
            if changed:
                out["change"] = dict(member=changed[0], before=before[changed[0]], after=after[changed[0]])
            if new is not None:
                pool.append(new)
            outs.append(out)
            if changed and stop_at_change:
                break
        final = [_public(_snap(o)) for o in pool]
        aliases = [_alias(pool[:i], o) for i, o in enumerate(pool)]
    finally:
        UnitDatabase.PopSingleton()
    return outs, final, aliases, pool


# ------------------------------------------------------------------------------------------ generators
class Gen:
    """Type-directed history generator; it runs the real code while generating so that it knows the class,
    unit and quantity type of every pool member."""

    def __init__(self, ctx, rng):
        self.ctx, self.rng = ctx, rng
        self.db = ctx.db
        self.pool, self.ops = [], []
        extra = rng.sample(ctx.other_types, 1) if ctx.other_types else []
        self.types = {qt: (list(us), list(cs) + [c["name"] for c in LIMITED if c["qtype"] == qt])
                      for qt, (us, cs) in CORE.items()}
        for qt in extra:
            us = ctx.units[qt]
            self.types[qt] = (rng.sample(us, min(4, len(us))), ctx.cats.get(qt) or [qt])
        # two units drawn by the SHAPE of their table row join the unit lists of this history
        for key in rng.sample(ctx.shape_keys, min(2, len(ctx.shape_keys))):
            self.add_unit(*rng.choice(ctx.shapes[key]))
        self.lowprec = set()        # pool members that hold / came from float32 numbers

    def add_unit(self, qt, u):
        """make `u` (and two more units of its quantity type) available to this history"""
        rng = self.rng
        if qt not in self.types:
            us = self.ctx.units[qt]
            self.types[qt] = (rng.sample(us, min(2, len(us))), self.ctx.cats.get(qt) or [qt])
        if u not in self.types[qt][0]:
            self.types[qt][0].append(u)

    def qt_units(self, qt):
        return self.types[qt]

    def unit_cat(self, qt=None):
        rng = self.rng
        qt = qt or rng.choice(sorted(self.types))
        us, cs = self.types[qt]
        return rng.choice(us), rng.choice(cs + [None])

    def values(self, n, nz=False):
        return [self.rng.choice(NZ_VALUES if nz else VALUES) for _ in range(n)]

    def push(self, op):
        op = self.int_guard(self.dtyped(op))
        out, new = _run_op(self.db, self.pool, op)
        self.ops.append(op)
        if new is not None:
            self.pool.append(new)
        return out

    def dtyped(self, op):
        """an ndarray container gets one of the dtypes in use (int64 / int32 with integral values; float32 only in
        `pattern_f32`, at the end of a history)"""
        rng = self.rng
        tgt = op.get("src") if op["k"] == "validateWith" else op
        if not isinstance(tgt, dict) or tgt.get("kind") != "ndarray" or "dt" in tgt or "xs" not in tgt:
            return op
        if op["k"] not in ("mkArray", "mkFixed", "mkEmptyArray", "mkDerived", "validateWith") or rng.random() < 0.6:
            return op
        dt = rng.choice(["int64", "int32"])
        xs = [float(round(x)) if round(x) != 0 or x == 0 else (1.0 if x > 0 else -1.0) for x in tgt["xs"]]
        tgt = dict(tgt, dt=dt, xs=xs)
        return dict(op, src=tgt) if op["k"] == "validateWith" else tgt

    def int_guard(self, op):
        """numpy integer arithmetic wraps around silently: an integer result that would leave its dtype is
        computed with `/` (a float result) instead"""
        import numpy

        if op["k"] in ("changingIndex", "indexAsScalar") and op["i"] < len(self.pool):
            # list(ndarray) of an int / float32 array holds numpy scalars that are no Python float: a list / tuple /
            # Scalar built from them makes UnitDatabase.Convert raise TypeError when unit matching hands it one
            # (`isinstance(value, (float, int))` fails, the number is iterated) - reported; element types inside
            # lists are not modelled, so these two calls are made as probes (result dropped) on such arrays
            v = _inner(self.pool[op["i"]])
            if isinstance(v, numpy.ndarray) and v.dtype != numpy.float64:
                return dict(k="probe", i=op["i"], j=None, what="changeindex", u=None, idx=op["idx"],
                            v=op.get("v", dict(n=1.5)), uvu=op.get("uvu", False))
            return op
        if op["k"] != "arith" or op["f"] not in ("add", "sub", "mul") or "i" not in op["a"] or "i" not in op["b"]:
            return op
        try:
            va, vb = (_inner(self.pool[op[k]["i"]]) for k in ("a", "b"))
            if not all(isinstance(v, numpy.ndarray) and v.dtype.kind == "i" for v in (va, vb)):
                return op
            ma, mb = (max([abs(int(x)) for x in v] or [0]) for v in (va, vb))
            bits = 31 if va.dtype.itemsize == 4 and vb.dtype.itemsize == 4 else 62
            if (ma * mb if op["f"] == "mul" else ma + mb) >= 2 ** bits:
                return dict(op, f="div")
        except Exception:
            pass
        return op

    def of_class(self, *names):
        return [i for i, o in enumerate(self.pool) if type(o).__name__ in names]

    def unit_for(self, i, foreign=0.1):
        """a unit of the member's quantity type (sometimes its own unit, sometimes a foreign one)"""
        rng = self.rng
        o = self.pool[i]
        r = rng.random()
        if r < 0.25:
            return o.GetUnit()
        if r < 0.25 + foreign:
            return rng.choice(["m", "s", "kg", "zzz", "m2", "m/s"])
        qt = o.GetQuantityType()
        if qt in self.types:
            return rng.choice(self.types[qt][0])
        if qt in self.ctx.units:
            return rng.choice(self.ctx.units[qt])
        return rng.choice([o.GetUnit(), "m", "m2", "1/s"])

    def too_big(self, *idx):
        for i in idx:
            q = self.pool[i].GetQuantity()
            if any(abs(int(ue[1])) >= MAX_EXP for ue in q.GetCategoryToUnitAndExps().values()):
                return True
            if any(abs(x) > 1e40 or (x != 0 and abs(x) < 1e-40) for x in _floats(self.pool[i])):
                return True
        return False

    def no_floor_tie(self, op, strict=False):
        """`//` whose true quotient is (nearly) an integer is decided by float rounding: use `/` instead; a sum or
        difference that cancels (result below 1e-6 of an operand) is float noise on the real side and an exact
        zero in the model, and everything computed from it would be incomparable: use `*` instead"""
        import numpy

        if op["f"] in ("add", "sub"):
            try:
                a, b = _operand(self.pool, op["a"]), _operand(self.pool, op["b"])
                with numpy.errstate(all="raise"):
                    r = BINOPS[op["f"]](a, b)
                ref = _floats(a) if not isinstance(a, float) else _floats(b)
                if any(x != 0 and abs(y) <= (1e-2 if strict else 1e-6) * abs(x) for x, y in zip(ref, _floats(r))):
                    return dict(op, f="mul")
            except Exception:
                pass
            return op
        if op["f"] != "floordiv":
            return op

        try:
            with numpy.errstate(all="raise"):
                q = operator.truediv(_operand(self.pool, op["a"]), _operand(self.pool, op["b"]))
            if any(abs(x - round(x)) < (1e-3 if strict else 1e-6) * max(1.0, abs(x)) for x in _floats(q)):
                return dict(op, f="div")
        except Exception:
            pass
        return op

    def seed_pool(self):
        rng = self.rng
        u, c = self.unit_cat()
        self.push(dict(k="mkScalar", v=rng.choice(VALUES), u=u, c=c))
        u, c = self.unit_cat()
        self.push(dict(k="mkScalar", v=rng.choice(NZ_VALUES), u=u, c=c))
        for kind in rng.sample(KINDS, 3):
            u, c = self.unit_cat()
            self.push(dict(k="mkArray", kind=kind, xs=self.values(rng.choice([0, 1, 2, 3, 3])), u=u, c=c))
        arrs = self.of_class("Array")
        if arrs:
            u, c = self.unit_cat()
            self.push(dict(k="mkArrayFrom", i=rng.choice(arrs), u=u, c=c))
        n = rng.choice([2, 3])
        u, c = self.unit_cat()
        self.push(dict(k="mkFixed", dim=n, kind=rng.choice(KINDS), xs=self.values(n, nz=True), u=u, c=c))
        u, c = self.unit_cat()
        self.push(dict(k="mkFScalar", n=float(rng.choice([0, 1, 5, -2])), num=rng.choice([0, 1, 3, -1]),
                       den=rng.choice([2, 4, 8, 3]), u=u, c=c))
        r = rng.random()
        if r < 0.4:
            self.push(dict(k="mkEmptyScalar", v=rng.choice(VALUES)))
        elif r < 0.7:
            self.push(dict(k="mkCaptionScalar", v=rng.choice(VALUES), u="<unknown>", cap=rng.choice(["cap", "other cap"])))
        else:
            self.push(dict(k="mkEmptyArray", kind=rng.choice(KINDS), xs=self.values(rng.choice([0, 2, 3]))))

    def gen_create(self):
        rng = self.rng
        r = rng.random()
        u, c = self.unit_cat()
        if r < 0.2:
            return dict(k="mkScalar", v=rng.choice(VALUES), u=u, c=c)
        if r < 0.45:
            return dict(k="mkArray", kind=rng.choice(KINDS), xs=self.values(rng.choice([0, 1, 2, 3, 4])), u=u, c=c)
        if r < 0.55 and self.of_class("Array", "FixedArray"):
            return dict(k="mkArrayFrom", i=rng.choice(self.of_class("Array", "FixedArray")), u=u, c=c)
        if r < 0.7:
            n = rng.choice([2, 3, 4])
            return dict(k="mkFixed", dim=n, kind=rng.choice(KINDS), xs=self.values(n, nz=True), u=u, c=c)
        if r < 0.82:
            return dict(k="mkFScalar", n=float(rng.choice([0, 1, 5, -2, 12])), num=rng.choice([0, 1, 3, 5, -1]),
                        den=rng.choice([2, 4, 8, 3, 16]), u=u, c=c)
        if r < 0.86:
            return self.mk_derived_op(self.two_unit_items(reverse=rng.random() < 0.5, unify=rng.random() < 0.2))
        if r < 0.9:
            return dict(k="mkEmptyScalar", v=rng.choice(VALUES))
        if r < 0.94:
            return dict(k="mkCaptionScalar", v=rng.choice(VALUES), u="<unknown>", cap=rng.choice(["cap", "other cap"]))
        return dict(k="mkEmptyArray", kind=rng.choice(KINDS), xs=self.values(rng.choice([0, 1, 2, 3])))

    def gen_malformed(self):
        rng = self.rng
        n = len(self.pool)
        r = rng.random()
        if r < 0.12:
            return dict(k="mkFixed", dim=rng.choice([0, 1, 3]), kind=rng.choice(KINDS), xs=self.values(2), u="m", c="length")
        if r < 0.2:
            return dict(k="mkScalar", v=1.0, u=rng.choice(["zzz", "s", "m"]), c=rng.choice(["length", "no such category"]))
        if r < 0.23:
            return dict(k="mkFScalar", n=1.0, num=1, den=0, u="in", c="length")
        if r < 0.26:
            return dict(k="mkDerived", cls=rng.choice(["scalar", "array", "fixed"]),
                        items=rng.choice([[["length", "m", 1], ["depth", "s", 1]], [["no such category", "m", 1], ["depth", "cm", 2]],
                                          [["length", "m", 1]], [["length", "cm", 2]], []]),
                        v=1.0, kind=rng.choice(KINDS), xs=self.values(rng.choice([1, 2])))
        if r < 0.45:       # class mixes (a FractionScalar only with another one or with a number: Python's
            # reflected-operator fallback would otherwise run Scalar/Array code on a FractionScalar)
            i, j = rng.randrange(n), rng.randrange(n)
            fi, fj = (type(self.pool[x]).__name__ == "FractionScalar" for x in (i, j))
            if fi != fj:
                num = dict(n=rng.choice(NZ_VALUES))
                a, b = (dict(i=i), num) if fi else (num, dict(i=j))
                if rng.random() < 0.5:
                    a, b = b, a
                return dict(k="arith", f=rng.choice(sorted(BINOPS)), a=a, b=b)
            if self.too_big(i, j):
                return self.gen_create()
            return self.no_floor_tie(dict(k="arith", f=rng.choice(sorted(BINOPS)), a=dict(i=i), b=dict(i=j)))
        if r < 0.55:
            arrs = self.of_class("Array", "FixedArray")
            if len(arrs) >= 1:
                return dict(k="lt", i=rng.choice(arrs), j=rng.choice(arrs))
        if r < 0.65:
            return dict(k="pickle", i=rng.randrange(n))
        if r < 0.75:
            return dict(k="changingIndex", i=rng.randrange(n), idx=rng.choice([0, 1, 5, -7]),
                        v=rng.choice([dict(n=2.5), dict(i=rng.randrange(n))]), uvu=rng.random() < 0.5)
        if r < 0.82:
            return dict(k="indexAsScalar", i=rng.randrange(n), idx=rng.choice([0, 9, -9]))
        if r < 0.9:
            return dict(k="createCopy", i=rng.randrange(n), u=None, c="length")
        if r < 0.95:
            return dict(k="mkArrayFrom", i=rng.randrange(n), u="m", c=None)
        return dict(k="arith", f=rng.choice(["div", "floordiv"]), a=dict(i=rng.randrange(n)), b=dict(n=0.0))

    def gen_op(self):
        rng = self.rng
        n = len(self.pool)
        r = rng.random()
        if r < 0.08 or n == 0:
            return self.gen_create()
        if r < 0.16:
            return self.gen_malformed()
        if r < 0.42:        # arithmetic between members of one family / with numbers
            f = rng.choice(["add", "sub", "mul", "div", "floordiv", "mul", "div", "add"])
            scal, arrs = self.of_class("Scalar"), self.of_class("Array", "FixedArray")
            fam = scal if (rng.random() < 0.45 and scal) or not arrs else arrs
            i = rng.choice(fam)
            rr = rng.random()
            if rr < 0.22:
                return self.no_floor_tie(dict(k="arith", f=f, a=dict(i=i), b=dict(n=rng.choice(NZ_VALUES))))
            if rr < 0.4:
                return self.no_floor_tie(dict(k="arith", f=f, a=dict(n=rng.choice(NZ_VALUES)), b=dict(i=i)))
            if fam is arrs:
                same = [j for j in arrs if len(self.pool[j]) == len(self.pool[i])]
                j = rng.choice(same if rng.random() < 0.9 else arrs)
            else:
                j = rng.choice(fam)
            if f in ("add", "sub") and rng.random() < 0.75:
                # mostly dimensionally compatible operands
                qa = self.pool[i].GetQuantityType()
                comp = [x for x in fam if self.pool[x].GetQuantityType() == qa and
                        (fam is scal or len(self.pool[x]) == len(self.pool[i]))]
                j = rng.choice(comp)
            if self.too_big(i, j):
                return self.gen_create()
            return self.no_floor_tie(dict(k="arith", f=f, a=dict(i=i), b=dict(i=j)))
        if r < 0.5:
            i = rng.randrange(n)
            same = [j for j in range(n) if type(self.pool[j]) is type(self.pool[i])]
            return dict(k="eq", i=i, j=rng.choice(same if rng.random() < 0.85 else list(range(n))))
        if r < 0.56:
            cmpb = self.of_class("Scalar", "FractionScalar")
            if cmpb:
                i = rng.choice(cmpb)
                same = [j for j in cmpb if self.pool[j].GetQuantityType() == self.pool[i].GetQuantityType()]
                return dict(k="lt", i=i, j=rng.choice(same if rng.random() < 0.85 else cmpb))
        if r < 0.66:
            i = rng.randrange(n)
            if rng.random() < 0.15 and type(self.pool[i]).__name__ in ("Array", "FixedArray"):
                return dict(k="scribble", i=i, u=None if rng.random() < 0.1 else self.unit_for(i),
                            how=rng.choice(["edit", "append", "clear"]))
            return dict(k="getValue", i=i, u=None if rng.random() < 0.25 else self.unit_for(i))
        if r < 0.76:
            i = rng.randrange(n)
            rr = rng.random()
            if rr < 0.4:
                return dict(k="createCopy", i=i, u=None, c=None)
            u = self.unit_for(i, foreign=0.05)
            c = None
            if rr > 0.8:
                qt = self.pool[i].GetQuantityType()
                c = rng.choice(self.types[qt][1]) if qt in self.types else rng.choice(["length", None])
            return dict(k="createCopy", i=i, u=u, c=c)
        if r < 0.81:
            return dict(k="copy", i=rng.randrange(n), how=rng.choice(["copy", "deepcopy", "Copy"]))
        if r < 0.87:
            pk = self.of_class("Scalar", "FixedArray")
            if pk:
                return dict(k="pickle", i=rng.choice(pk))
        if r < 0.9:
            i = rng.randrange(n)
            if rng.random() < 0.5:
                return dict(k="isValid", i=i)
            arr = type(self.pool[i]).__name__ in ("Array", "FixedArray")
            return dict(k="checkValidity", i=i, how=rng.choice(["CheckValidity", "ValidateValues"] if arr else ["CheckValidity"]))
        if r < 0.94:
            i = rng.randrange(n)
            hows = ["str", "repr"] + (["GetFormatted"] if type(self.pool[i]).__name__ in ("Scalar", "FractionScalar") else [])
            return dict(k="format", i=i, how=rng.choice(hows))
        fx = self.of_class("FixedArray")
        if fx:
            i = rng.choice(fx)
            d = self.pool[i].GetDimension()
            if rng.random() < 0.7:
                sc = [j for j in self.of_class("Scalar")
                      if self.pool[j].GetQuantityType() == self.pool[i].GetQuantityType()] or self.of_class("Scalar")
                v = dict(i=rng.choice(sc)) if sc and rng.random() < 0.6 else dict(n=rng.choice(VALUES))
                return dict(k="changingIndex", i=i, idx=rng.choice(list(range(-d, d)) + [d, -d - 1]), v=v,
                            uvu=rng.random() < 0.6)
            return dict(k="indexAsScalar", i=i, idx=rng.choice(list(range(-d, d)) + [d]))
        return self.gen_create()

    def two_unit_items(self, reverse=False, unify=False):
        """a composing map with two categories of ONE quantity type in two DIFFERENT units (what Multiply /
        Divide never produce: they unify the units), optionally with a third factor of another type"""
        rng = self.rng
        multi = sorted(qt for qt, (us, cs) in self.types.items() if len(us) >= 2 and len(cs) >= 2)
        qt = rng.choice(multi + ["length"] * 3)
        us, cs = self.types[qt]
        u1, u2 = rng.sample(us, 2)
        c1, c2 = rng.sample(cs, 2)
        e1, e2 = rng.choice([(1, 1), (1, 1), (1, 1), (2, 1), (1, -1), (1, 2)])
        items = [[c1, u1, e1], [c2, u1 if unify else u2, e2]]
        if rng.random() < 0.25 and qt != "time":
            items.append(["time", rng.choice(["s", "min"]), rng.choice([-1, 1])])
        if reverse:
            items[0], items[1] = items[1], items[0]
        return items

    def mk_derived_op(self, items, cls=None, n=None, kind=None):
        rng = self.rng
        cls = cls or rng.choice(["scalar", "array", "array", "fixed"])
        n = n if n is not None else rng.choice([2, 3])
        return dict(k="mkDerived", cls=cls, items=[list(t) for t in items], v=rng.choice(NZ_VALUES),
                    kind=kind or rng.choice(KINDS), xs=self.values(n, nz=True) if cls != "scalar" else [])

    def pattern_two_units(self):
        """value objects on hand-made composing maps holding two units of one quantity type, then + and - with
        them on the LEFT: with the same map in the other order (succeeds: the matching rewrites the COPIED
        `[unit, exp]` lists of the left operand), with another dimension (fails: InvalidOperationError), and
        * / with them on either side"""
        rng = self.rng
        items = self.two_unit_items()
        n0 = len(self.pool)
        op = self.mk_derived_op(items)
        self.push(op)
        if len(self.pool) == n0:
            return
        d = n0
        cls, n, kind = op["cls"], len(op["xs"]), op["kind"]
        # same dimension: the same factors in the other order / with the units already unified
        partner = [list(t) for t in items]
        r = rng.random()
        if r < 0.4:
            partner[0], partner[1] = partner[1], partner[0]
        elif r < 0.7:
            partner[1][1] = partner[0][1]
        self.push(self.mk_derived_op(partner, cls=cls, n=n, kind=rng.choice([kind, rng.choice(KINDS)])))
        p = len(self.pool) - 1 if len(self.pool) == n0 + 2 else None
        # another dimension, same class and length
        u, c = self.unit_cat()
        if cls == "scalar":
            self.push(dict(k="mkScalar", v=rng.choice(NZ_VALUES), u=u, c=c))
        else:
            self.push(dict(k="mkArray", kind=rng.choice(KINDS), xs=self.values(n, nz=True), u=u, c=c))
        other = len(self.pool) - 1
        for f in rng.sample(["add", "sub"], 2):
            if p is not None:
                self.push(self.no_floor_tie(dict(k="arith", f=f, a=dict(i=d), b=dict(i=p))))
            self.push(dict(k="arith", f=f, a=dict(i=d), b=dict(i=other)))
        if p is not None and rng.random() < 0.5:
            self.push(self.no_floor_tie(dict(k="arith", f=rng.choice(["add", "sub"]), a=dict(i=p), b=dict(i=d))))
        if not self.too_big(d, other):
            a, b = (d, other) if rng.random() < 0.5 else (other, d)
            self.push(dict(k="arith", f=rng.choice(["mul", "div"]), a=dict(i=a), b=dict(i=b)))
        self.push(dict(k="eq", i=d, j=p if p is not None else d))

    def pattern_limits(self):
        """value objects of a category WITH limits (unsorted containers of every kind; some values inside, some
        outside the limits), then IsValid / CheckValidity / ValidateValues on them, twice (the second time the
        Array answers from its cached verdict), then a look at the values"""
        rng = self.rng
        lim = rng.choice(LIMITED)
        us = self.types[lim["qtype"]][0]
        made = []
        for _ in range(rng.choice([1, 2, 3])):
            n0 = len(self.pool)
            u = rng.choice(us + [lim["unit"]])
            r = rng.random()
            xs = self.values(rng.choice([2, 3, 4, 5]))
            if r < 0.55:
                self.push(dict(k="mkArray", kind=rng.choice(KINDS + ["ndarray"]), xs=xs, u=u, c=lim["name"]))
            elif r < 0.75:
                self.push(dict(k="mkFixed", dim=len(xs), kind=rng.choice(KINDS + ["ndarray"]), xs=xs, u=u, c=lim["name"]))
            elif r < 0.9:
                self.push(dict(k="mkScalar", v=rng.choice(VALUES), u=u, c=lim["name"]))
            else:
                self.push(dict(k="mkFScalar", n=float(rng.choice([0, 1, 5, -2, 120])), num=rng.choice([0, 1, 3]),
                               den=rng.choice([2, 4, 8]), u=u, c=lim["name"]))
            if len(self.pool) > n0:
                made.append(n0)
        for i in made:
            arr = type(self.pool[i]).__name__ in ("Array", "FixedArray")
            for _ in range(2):
                how = rng.choice(["IsValid", "CheckValidity"] + (["ValidateValues"] if arr else []))
                self.push(dict(k="isValid", i=i) if how == "IsValid" else dict(k="checkValidity", i=i, how=how))
            self.push(dict(k="getValue", i=i, u=None))

    def gen_validate_with(self, i=None):
        """the public `x.ValidateValues(values, quantity)` with foreign values (another Array's container of the same
        or another length / kind, a new container) and the own or a foreign quantity (simple or derived)"""
        rng = self.rng
        arrs = self.of_class("Array", "FixedArray")
        if not arrs:
            return self.gen_create()
        i = rng.choice(arrs) if i is None else i
        r = rng.random()
        if r < 0.2:
            src = dict(own=True)
        elif r < 0.6:
            src = dict(j=rng.choice(arrs))
        else:
            src = dict(kind=rng.choice(KINDS), xs=self.values(rng.choice([0, 1, 2, 3, 4])))
        qk = None if rng.random() < 0.3 else rng.randrange(len(self.pool))
        return dict(k="validateWith", i=i, src=src, qk=qk)

    def gen_probe(self):
        rng = self.rng
        i = rng.randrange(len(self.pool))
        cls = type(self.pool[i]).__name__
        what = rng.choice(PROBES["any"] + PROBES.get(cls, []) * 2)
        same = [j for j in range(len(self.pool)) if self.pool[j].GetQuantityType() == self.pool[i].GetQuantityType()]
        j = rng.choice(same) if rng.random() < 0.7 else rng.randrange(len(self.pool))
        return dict(k="probe", i=i, j=j, what=what, u=self.unit_for(i), same=j in same)

    def pattern_foreign_validation(self):
        """a NEW Array / FixedArray (no cached verdict yet) is asked to validate foreign data, then its own, then
        foreign data again (now answered from the cached verdict); in between it is looked at and used"""
        rng = self.rng
        n0 = len(self.pool)
        u, c = self.unit_cat()
        n = rng.choice([2, 3, 4])
        if rng.random() < 0.5:
            self.push(dict(k="mkArray", kind=rng.choice(KINDS), xs=self.values(n), u=u, c=c))
        else:
            self.push(dict(k="mkFixed", dim=n, kind=rng.choice(KINDS), xs=self.values(n, nz=True), u=u, c=c))
        if len(self.pool) == n0:
            return
        i = n0
        steps = [self.gen_validate_with(i), rng.choice([dict(k="isValid", i=i), dict(k="checkValidity", i=i, how="CheckValidity")]),
                 self.gen_validate_with(i), dict(k="getValue", i=i, u=None)]
        if rng.random() < 0.3:
            steps[0], steps[1] = steps[1], steps[0]
        for st in steps:
            self.push(st)
        self.push(self.no_floor_tie(dict(k="arith", f=rng.choice(["add", "mul"]), a=dict(i=i), b=dict(i=i))))

    def pattern_scribble(self):
        """the caller asks an Array for its values in another unit, writes into the container it got, and asks
        again (GetValues, CreateCopy(unit=...)): the amounts must be the original ones"""
        rng = self.rng
        cands = [i for i in self.of_class("Array", "FixedArray")
                 if not self.pool[i].GetQuantity().IsDerived() and self.pool[i].GetQuantityType() in self.types
                 and len(self.pool[i]) > 0]
        if not cands:
            return
        i = rng.choice(cands)
        others = [u for u in self.types[self.pool[i].GetQuantityType()][0] if u != self.pool[i].GetUnit()]
        if not others:
            return
        u = rng.choice(others)
        if rng.random() < 0.4:
            self.push(dict(k="getValue", i=i, u=u))
        self.push(dict(k="scribble", i=i, u=u, how=rng.choice(["edit", "append", "clear"])))
        for k in rng.sample(["getValue", "createCopy", "scribble", "getValue"], 3):
            if k == "getValue":
                self.push(dict(k="getValue", i=i, u=u))
            elif k == "createCopy":
                self.push(dict(k="createCopy", i=i, u=u, c=None))
            else:
                self.push(dict(k="scribble", i=i, u=u, how=rng.choice(["edit", "append", "clear"])))

    def pattern_powers(self):
        """x**e and (the same amount in another unit)**e, then + - * / between the two: the unit matching of the
        arithmetic then converts a whole operand value with an exponent (the `ratio ** exp` path)"""
        rng = self.rng
        cands = [i for i in self.of_class("Array", "FixedArray", "Scalar")
                 if not self.pool[i].GetQuantity().IsDerived() and self.pool[i].GetQuantityType() in self.types]
        if not cands:
            return
        i = rng.choice(cands)
        others = [u for u in self.types[self.pool[i].GetQuantityType()][0] if u != self.pool[i].GetUnit()]
        if not others:
            return
        n0 = len(self.pool)
        self.push(dict(k="createCopy", i=i, u=rng.choice(others), c=None))
        if len(self.pool) == n0:
            return
        e = rng.choice([2, 2, 3])
        tops = []
        for base in (i, n0):
            a = base
            for _ in range(e - 1):
                n1 = len(self.pool)
                self.push(dict(k="arith", f="mul", a=dict(i=a), b=dict(i=base)))
                if len(self.pool) == n1:
                    return
                a = n1
            tops.append(a)
        if rng.random() < 0.5:
            tops.reverse()
        self.push(self.no_floor_tie(dict(k="arith", f=rng.choice(["add", "sub", "mul", "div"]), a=dict(i=tops[0]),
                                         b=dict(i=tops[1]))))

    def gen_pow(self):
        """`x ** e` (Scalar.__pow__: repeated `*`; `x` itself for e < 2), also on the classes without `__pow__`"""
        rng = self.rng
        sc = [i for i in self.of_class("Scalar") if not self.too_big(i) and all(
            abs(int(ue[1])) <= 2 for ue in self.pool[i].GetQuantity().GetCategoryToUnitAndExps().values())
            and all(abs(x) < 1e8 for x in _floats(self.pool[i]))]
        if sc and rng.random() < 0.85:
            return dict(k="pow", i=rng.choice(sc), e=rng.choice([2, 2, 3, 3, 1, 0, -1]))
        return dict(k="pow", i=rng.randrange(len(self.pool)), e=rng.choice([1, 2]))

    def pattern_shapes(self, dt=None):
        """an ndarray-backed Array / FixedArray in a unit drawn by the SHAPE of its table row (every distinct
        coefficient pattern of the to-base formula, read from the table), then every conversion-like read of it
        (GetValues(unit), CreateCopy(unit), IndexAsScalar, being the operand that unit matching converts: on the
        right AND on the left of + - * / //), then a look at its own values"""
        rng = self.rng
        ctx = self.ctx
        qt, u = rng.choice(ctx.shapes[rng.choice(ctx.shape_keys)])
        if dt == "float32" and not self.moderate(qt, u):
            return
        self.add_unit(qt, u)
        us, cs = self.types[qt]
        others = [x for x in us if x != u and (dt != "float32" or self.moderate(qt, x))] or [u]
        n = rng.choice([2, 3])
        n0 = len(self.pool)
        vals = F32_VALUES if dt == "float32" else NZ_VALUES
        xs = [rng.choice(vals) for _ in range(n)]
        c = rng.choice(cs + [None])
        if rng.random() < 0.6:
            op = dict(k="mkArray", kind="ndarray", xs=xs, u=u, c=c)
        else:
            op = dict(k="mkFixed", dim=n, kind="ndarray", xs=xs, u=u, c=c)
        if dt:
            op["dt"] = dt
        self.push(op)
        if len(self.pool) == n0:
            return
        i = n0
        v = rng.choice(others)
        p = len(self.pool)
        pk = rng.choice(KINDS)
        pop = dict(k="mkArray", kind=pk, xs=self.values(n, nz=True), u=v, c=rng.choice(cs + [None]))
        if type(self.pool[i]).__name__ == "FixedArray":
            pop.update(k="mkFixed", dim=n)
        if dt:
            pop["dt"] = "float64"
        self.push(pop)
        partner = p if len(self.pool) == p + 1 else None
        steps = [dict(k="getValue", i=i, u=v), dict(k="createCopy", i=i, u=v, c=None), dict(k="getValue", i=i, u=None)]
        if type(self.pool[i]).__name__ == "FixedArray":
            steps.append(dict(k="indexAsScalar", i=i, idx=rng.randrange(-n, n)))
            steps.append(dict(k="changingIndex", i=i, idx=rng.randrange(n), v=dict(n=rng.choice(VALUES)), uvu=False))
        if partner is not None:
            for f in rng.sample(["add", "sub", "mul", "div", "floordiv"], 3):
                a, b = (partner, i) if rng.random() < 0.6 else (i, partner)
                steps.append(dict(k="arith", f=f, a=dict(i=a), b=dict(i=b)))
        num = dict(n=rng.choice(NZ_VALUES))
        for f in rng.sample(["add", "sub", "mul", "div", "floordiv"], 2):
            steps.append(dict(k="arith", f=f, a=dict(i=i), b=num) if rng.random() < 0.5 else
                         dict(k="arith", f=f, a=num, b=dict(i=i)))
        rng.shuffle(steps)
        for st in steps[:rng.choice([3, 4, 6])] if not dt else steps:
            if st["k"] == "arith":
                st = self.no_floor_tie(st, strict=bool(dt))
            self.push(st)
        self.push(dict(k="getValue", i=i, u=None))

    def moderate(self, qt, u):
        """single precision overflows at 3.4e38 and underflows at 1e-38 (both raise under errstate): float32
        containers only meet units whose formula coefficients and factor to the base unit are within 1e+-12"""
        try:
            info = self.db.GetInfo(qt, u)
            for n in "abcd":
                x = getattr(info.tobase, "__%s__" % n, 1.0)
                if x != 0 and not (1e-12 < abs(x) < 1e12):
                    return False
            f = abs(info.tobase(1.0) - info.tobase(0.0))
            return 1e-12 < f < 1e12
        except Exception:
            return False

    def pattern_f32(self):
        """float32 containers: the same scenario on a float32 ndarray (values exactly representable), at the END of
        a history - what comes out of it is computed in single precision and nothing else is derived from it"""
        self.pattern_shapes(dt="float32")

    def history(self, steps):
        from barril.units.unit_database import UnitDatabase

        db = _fresh_db(self.ctx)
        UnitDatabase.PushSingleton(db)
        try:
            self.seed_pool()
            for _ in range(steps):
                if len(self.pool) >= MAX_POOL:
                    break
                x = self.rng.random()
                if x < 0.03:
                    self.pattern_shapes()
                elif x < 0.05:
                    self.push(self.gen_pow())
                elif x < 0.08:
                    self.pattern_powers()
                elif x < 0.11:
                    self.pattern_two_units()
                elif x < 0.14:
                    self.pattern_limits()
                elif x < 0.165:
                    self.pattern_scribble()
                elif x < 0.19:
                    self.pattern_foreign_validation()
                elif x < 0.25:
                    self.push(self.gen_probe())
                elif x < 0.27:
                    self.push(self.gen_validate_with())
                else:
                    self.push(self.gen_op())
            if self.rng.random() < 0.3 and len(self.pool) < MAX_POOL + 4:
                self.pattern_f32()
        finally:
            UnitDatabase.PopSingleton()
        return self.ops


def _enc_operand(a):
    return dict(i=a["i"]) if "i" in a else dict(n=qstr(exact(a["n"])))


def _encode(op):
    o = dict(k=op["k"])
    if op["k"] == "probe":          # for the model a probe is a read of the operand (its values and quantity)
        return dict(k="format", i=op["i"])
    if op["k"] == "validateWith":
        src = op["src"]
        o["i"] = op["i"]
        o["src"] = (dict(j=src["j"]) if "j" in src else dict(kind=src["kind"], xs=[qstr(exact(x)) for x in src["xs"]])
                    if "kind" in src else dict(own=True))
        if op.get("qk") is not None:
            o["qk"] = op["qk"]
        return o
    for key, v in op.items():
        if key == "k" or key == "dt" or (key == "how" and op["k"] != "scribble"):
            continue
        if op["k"] == "probe":
            continue
        if isinstance(v, dict):
            o[key] = _enc_operand(v)
        elif key in ("u", "c", "cap"):
            if v is None:
                if op["k"] in ("getValue", "createCopy", "scribble"):
                    continue          # absent = None
                o[key] = "0"
            else:
                o[key] = str(sym(v))
        elif key in ("v", "n"):
            o[key] = qstr(exact(v))
        elif key == "xs":
            o[key] = [qstr(exact(x)) for x in v]
        elif key == "items":
            o[key] = [[str(sym(c)), str(sym(u)), e] for c, u, e in v]
        else:
            o[key] = v
    return o


def _history(ops):
    return dict(op="history", cats=_EXTRA_CATS, ops=[_encode(o) for o in ops], _t=dict(ops=ops))


def _enc_cat(c):
    d = dict(name=str(sym(c["name"])), qtype=str(sym(c["qtype"])), unit=str(sym(c["unit"])),
             default=qstr(exact(c["default"])), minExcl=c["minExcl"], maxExcl=c["maxExcl"])
    if c["min"] is not None:
        d["min"] = qstr(exact(c["min"]))
    if c["max"] is not None:
        d["max"] = qstr(exact(c["max"]))
    return d


def setup(ctx):
    from barril.units.unit_database import UnitDatabase

    db = UnitDatabase()
    UnitDatabase.FillUnitDatabaseWithPosc(db)
    for c in LIMITED:
        db.AddCategory(c["name"], c["qtype"], default_unit=c["unit"], default_value=c["default"], min_value=c["min"],
                       max_value=c["max"], is_min_exclusive=c["minExcl"], is_max_exclusive=c["maxExcl"])
    _EXTRA_CATS[:] = [_enc_cat(c) for c in LIMITED]
    ctx.db = db
    ctx.units = {qt: [i.unit for i in infos] for qt, infos in db.quantity_types.items()}
    cats = {}
    for name, ci in db.categories_to_quantity_types.items():
        if not name.startswith("c13 "):
            cats.setdefault(ci.quantity_type, []).append(name)
    ctx.cats = cats
    for qt, (us, cs) in CORE.items():
        for u in us:
            assert db.GetQuantityType(u) == qt, (u, qt)
        for c in cs:
            assert db.GetCategoryInfo(c).quantity_type == qt, (c, qt)
    ctx.other_types = sorted(qt for qt in ctx.units if qt not in CORE and len(ctx.units[qt]) >= 2 and qt in cats
                             and qt != "Unknown")
    # every distinct SHAPE of table row, read from the table: each coefficient of the to-base formula
    # (A + B x) / (C + D x) classified as 0 / 1 / -1 / other ("none" = a row without formula coefficients: a base
    # unit); the generators draw units per shape, so a formula specialised for one shape is always exercised
    shapes = {}
    for qt in sorted(ctx.units):
        if qt == "Unknown" or len(ctx.units[qt]) < 2 or qt not in cats:
            continue
        for info in db.quantity_types[qt]:
            shapes.setdefault(_shape(info), []).append((qt, info.unit))
    ctx.shapes = {k: sorted(v) for k, v in shapes.items()}
    ctx.shape_keys = sorted(ctx.shapes)
    ctx.notes["table row shapes (A,B,C,D of the to-base formula)"] = {k: len(v) for k, v in sorted(ctx.shapes.items())}


def _coef_class(x):
    return "0" if x == 0 else "1" if x == 1 else "-1" if x == -1 else "x"


def _shape(info):
    f = info.tobase
    try:
        return "/".join(_coef_class(getattr(f, "__%s__" % n)) for n in "abcd")
    except AttributeError:
        return "none"


def _gen(ctx, salt, n, steps):
    for h in range(n):
        rng = ctx.fresh_rng("C13/%s/%d" % (salt, h))
        g = Gen(ctx, rng)
        try:
            ops = g.history(steps + rng.randrange(10))
        except Exception:      # the generator itself broke on a damaged tree: keep what was generated
            ops = g.ops
        if ops:
            yield _history(ops)


NAN = float("nan")


def _gen_validate(ctx, salt, n):
    """stateless: an Array / FixedArray over a container that may hold NaNs (list, tuple, float64 and float32
    ndarray, unsorted) in a category with limits; IsValid / CheckValidity / ValidateValues must give the verdict
    of the NaN-skipping scan and leave the container as it was"""
    import numpy

    rng = ctx.fresh_rng("C13/validate/" + salt)
    for _ in range(n):
        lim = rng.choice(LIMITED)
        us, _cs = CORE[lim["qtype"]]
        kind = rng.choice(["list", "tuple", "ndarray", "ndarray", "ndarray32"])
        m = rng.choice([0, 1, 2, 3, 5, 8])
        xs = [NAN if rng.random() < 0.25 else rng.choice(VALUES + [50.0, -100.0, 5000.0, 20.0]) for _ in range(m)]
        if kind == "ndarray32":
            xs = [float(numpy.float32(x)) for x in xs]
        u = rng.choice(us)
        yield dict(op="validate", cats=_EXTRA_CATS, c=str(sym(lim["name"])), u=str(sym(u)),
                   xs=["nan" if x != x else qstr(exact(x)) for x in xs],
                   _t=dict(c=lim["name"], u=u, kind=kind, xs=xs, cls=rng.choice(["array", "fixed"]) if m >= 2 else "array",
                           how=rng.choice(["IsValid", "CheckValidity", "ValidateValues"]), twice=rng.random() < 0.3))


def _nan_hex(v):
    return ["nan" if x != x else float(x).hex() for x in v]


def _run_validate(ctx, t):
    """-> (verdict dict, container before, container after, near)"""
    import numpy

    from barril.units import Array, FixedArray
    from barril.units.unit_database import UnitDatabase

    db = _fresh_db(ctx)
    UnitDatabase.PushSingleton(db)
    try:
        if t["kind"] == "ndarray32":
            cont = numpy.array(t["xs"], dtype=numpy.float32)
        else:
            cont = _container(t["kind"], t["xs"])
        a = (FixedArray(len(t["xs"]), cont, t["u"], t["c"]) if t["cls"] == "fixed" else Array(cont, t["u"], t["c"]))
        before = (_kind_of(cont), _nan_hex(cont), _nan_hex(a.GetValues()), id(a.GetValues()))
        ci = a.GetQuantity().GetCategoryInfo()
        near = False
        for x in t["xs"]:
            if x == x and t["u"] != ci.default_unit:
                w = a.GetQuantity().ConvertScalarValue(x, ci.default_unit)
                near = near or any(lim is not None and abs(w - lim) <= 1e-9 * max(abs(lim), abs(w))
                                   for lim in (ci.min_value, ci.max_value))
        out = None
        for _ in range(2 if t["twice"] else 1):
            try:
                with numpy.errstate(all="raise"):
                    if t["how"] == "IsValid":
                        out = dict(ok=bool(a.IsValid()))
                    elif t["how"] == "CheckValidity":
                        a.CheckValidity()
                        out = dict(ok=True)
                    else:
                        a.ValidateValues(a.GetValues(), a.GetQuantity())
                        out = dict(ok=True)
            except Exception as e:
                out = dict(ok=False) if err_kind(e) == "value" else dict(err=err_kind(e))
        after = (_kind_of(cont), _nan_hex(cont), _nan_hex(a.GetValues()), id(a.GetValues()))
    finally:
        UnitDatabase.PopSingleton()
    return out, before, after, near


def _gen_tuples(ctx, salt, n):
    """stateless: an Array whose container is a list / tuple of TUPLES of numbers (the form `GetValues(unit)`,
    `_DoValidateValues` and `__str__` treat separately): conversion to another unit, validation in a category with
    limits, formatting, CreateCopy(unit) and == leave the nested container as it was; the converted numbers and the
    verdict are those the model gives for the flattened list"""
    rng = ctx.fresh_rng("C13/tuples/" + salt)
    for _ in range(n):
        qt = rng.choice(sorted(CORE))
        us, cs = CORE[qt]
        lims = [c["name"] for c in LIMITED if c["qtype"] == qt]
        c = rng.choice(cs + lims * 2 + [None])
        u = rng.choice(us)
        v = rng.choice(us + [u]) if rng.random() < 0.9 else rng.choice(["m", "s", "zzz"])
        rows = [[rng.choice(VALUES + [50.0, 20.0]) for _ in range(rng.choice([1, 2, 3]))] for _ in range(rng.choice([1, 2, 3]))]
        flat = [x for r in rows for x in r]
        ops = [dict(k="mkArray", kind="list", xs=flat, u=u, c=c), dict(k="getValue", i=0, u=v), dict(k="isValid", i=0)]
        yield dict(op="history", cats=_EXTRA_CATS, ops=[_encode(o) for o in ops],
                   _t=dict(tuples=True, rows=rows, outer=rng.choice(["list", "tuple"]), u=u, c=c, v=v, ops=ops))


def _run_tuples(ctx, t):
    import numpy

    from barril.units import Array
    from barril.units.unit_database import UnitDatabase

    db = _fresh_db(ctx)
    UnitDatabase.PushSingleton(db)
    try:
        values = (list if t["outer"] == "list" else tuple)(tuple(r) for r in t["rows"])
        a = Array(values, t["u"], t["c"])
        look = lambda: (type(a.GetValues()).__name__, [[_hex(x) for x in r] for r in a.GetValues()], id(a.GetValues()),
                        [id(r) for r in a.GetValues()], a.GetUnit(), a.GetCategory())
        before = look()
        out = {}
        with numpy.errstate(all="raise"):
            try:
                r = a.GetValues(t["v"])
                out["conv"] = dict(ok=[_hex(x) for row in r for x in row], shared=r is a.GetValues(),
                                   nested=all(isinstance(row, tuple) for row in r) and type(r) is type(values))
            except Exception as e:
                out["conv"] = dict(err=err_kind(e))
            try:
                out["valid"] = dict(ok=bool(a.IsValid()))
            except Exception as e:
                out["valid"] = dict(err=err_kind(e))
            for f in (lambda: str(a), lambda: repr(a), lambda: a.CheckValidity(), lambda: a.CreateCopy(unit=t["v"]),
                      lambda: a.ValidateValues(a.GetValues(), a.GetQuantity()), lambda: a * 2.0, lambda: a + a):
                try:
                    f()
                except Exception:
                    pass
            try:
                cp = a.CreateCopy()
                out["copy_eq"] = bool(cp == a) and not (cp != a)
            except Exception as e:
                out["copy_eq"] = "err:" + err_kind(e)
        out["changed"] = before != look()
        out["near"] = _near_limit_vals([x for r in t["rows"] for x in r], a.GetQuantity())
    finally:
        UnitDatabase.PopSingleton()
    return out


def _agree_tuples(c, io, mo):
    if "err" in io:
        return "harness: " + io["err"]
    if io["changed"]:
        return "an operation changed the nested container of the Array"
    if io["copy_eq"] is not True:
        return "CreateCopy() of a tuple-of-tuples Array is not equal to it: %s" % io["copy_eq"]
    outs = mo.get("outs", [])
    if len(outs) != 3 or "ok" not in outs[0]:
        return "model could not build the flattened Array: %s" % str(outs)[:200]
    conv, m = io["conv"], outs[1]
    if ("err" in conv) != ("err" in m):
        return "GetValues(unit): one side fails: impl=%s model=%s" % (str(conv)[:200], str(m)[:200])
    if "err" in conv:
        if conv["err"] != m["err"]:
            return "GetValues(unit): error kinds differ: impl=%s model=%s" % (conv["err"], m["err"])
    else:
        if len(conv["ok"]) != len(m["ok"]["xs"]) or not conv["nested"] or conv["shared"] != m["ok"]["shared"]:
            return "GetValues(unit): shape / sharing differ: impl=%s model=%s" % (str(conv)[:200], str(m["ok"])[:200])
        for x, y in zip(conv["ok"], m["ok"]["xs"]):
            if not _num_ok(x, y, qparse(m["M"])):
                return "GetValues(unit): element %r vs %s" % (float.fromhex(x), float(qparse(y)))
    val, m = io["valid"], outs[2]
    if not io["near"]:
        real = val.get("ok", val.get("err"))
        model = m["ok"]["b"] if "ok" in m else m.get("err")
        if real != model:
            return "IsValid(): impl=%s model=%s" % (real, model)
    return None


def cases(ctx):
    if ctx.tier == "quick":
        yield from _gen_validate(ctx, "q", 1500)
        yield from _gen_tuples(ctx, "q", 300)
        yield from _gen(ctx, "q", 500, 36)
    else:
        yield from _gen_validate(ctx, "t", 20000)
        yield from _gen_tuples(ctx, "t", 3000)
        yield from _gen(ctx, "t", 6500, 42)


def model_line(c):
    return {k: v for k, v in c.items() if k != "_t"}


def case_key(c):
    return model_line(c)


def show(c):
    if c["op"] == "validate" or c["_t"].get("tuples"):
        return c["_t"]
    return c["_t"]["ops"][:8]


def impl(c, ctx):
    if c["op"] == "validate":
        try:
            out, before, after, near = _run_validate(ctx, c["_t"])
        except Exception as e:
            return dict(err="harness:" + type(e).__name__ + ":" + str(e)[:120])
        n = ctx.notes.setdefault("validate", {})
        t = c["_t"]
        key = "%s/%s/%s%s -> %s" % (t["cls"], t["kind"], t["how"], "/nan" if any(x != x for x in t["xs"]) else "",
                                   out.get("ok", out.get("err")))
        n[key] = n.get(key, 0) + 1
        return dict(out, changed=before != after, near=near)
    if c["_t"].get("tuples"):
        try:
            out = _run_tuples(ctx, c["_t"])
        except Exception as e:
            return dict(err="harness:" + type(e).__name__ + ":" + str(e)[:120])
        n = ctx.notes.setdefault("tuple-of-tuples", {})
        key = "GetValues(unit) -> %s, IsValid -> %s" % ("ok" if "ok" in out["conv"] else out["conv"]["err"],
                                                        out["valid"].get("ok", out["valid"].get("err")))
        n[key] = n.get(key, 0) + 1
        return out
    ops = c["_t"]["ops"]
    try:
        outs, final, aliases, _pool = run_history(ctx, ops)
    except Exception as e:     # snapshots themselves failed: report as an outcome, never raise
        return dict(outs=[dict(err="harness:" + type(e).__name__ + ":" + str(e)[:120])], pool=[], aliases=[])
    n = ctx.notes.setdefault("operations", {})
    for op, o in zip(ops, outs):
        key = op["k"] + ("/" + o["err"] if "err" in o else "/ok")
        n[key] = n.get(key, 0) + 1
    m = ctx.notes.setdefault("pool", {})
    for s, a, i in zip(final, aliases, range(len(final))):
        key = s["cls"] + ("/" + s["kind"] if "kind" in s else "") + ("/" + s["dt"] if s.get("dt") not in (None, "float64") else "")
        key += "/derived" if s["derived"] and s["items"] else "/empty" if s["derived"] else "/caption" if s["cap"] else ""
        m[key] = m.get(key, 0) + 1
        if a is not None and a < i:
            m["shares container or FractionValue with an earlier member"] = m.get(
                "shares container or FractionValue with an earlier member", 0) + 1
    for o in outs:
        if "ok" in o and o["ok"].get("t") in ("cont", "fval"):
            key = "returned %s is the internal object" % o["ok"]["t"] if o["ok"]["shared"] else "returned %s is new" % o["ok"]["t"]
            m[key] = m.get(key, 0) + 1
    return dict(outs=outs, pool=final, aliases=aliases)


EPS = F(1, 2 ** 53)
TOL = 2 ** 20 * EPS      # ~1.2e-10: numbers are a sanity tie here (their accuracy is C01-C04's business)
# a step that reads or produces float32 numbers is computed in single precision; as for doubles (2**20 eps) the
# bound leaves room for the cancellation inside affine conversions (273.15, 459.67, 101325 next to small values)
TOL32 = F(2 ** 14, 2 ** 24)


def _num_ok(real_hex, model_q, M, extra=0, base=TOL):
    """|real - exact| <= (2**20 eps + extra) * max(M, |exact|); `extra` = the relative distance already observed
    between the float operands and their exact counterparts (it is inherited by the result)"""
    r = float.fromhex(real_hex)
    if r != r or r in (float("inf"), float("-inf")):
        return False
    y = qparse(model_q)
    return abs(F(*r.as_integer_ratio()) - y) <= (base + extra) * max(abs(F(M)), abs(y))


def _frac_ok(num, den, model_q, extra=0):
    a, b = F(num, den), qparse(model_q)
    return abs(a - b) <= F(2, 10 ** 8) + abs(b) * (F(1, 10 ** 11) + extra)


def _dev(rs, ms):
    """observed relative distance between the floats of a real object and the exact model values"""
    if rs["cls"] == "scalar":
        pairs = [(rs["v"], ms["v"])]
    elif rs["cls"] == "fscalar":
        pairs = [(rs["n"], ms["n"]), (float(F(rs["num"], rs["den"])).hex(), ms["x"])]
    else:
        pairs = list(zip(rs["xs"], ms["xs"]))
    worst = F(0)
    for a, b in pairs:
        x, y = F(*float.fromhex(a).as_integer_ratio()), qparse(b)
        if x != y:
            worst = max(worst, abs(x - y) / max(abs(y), abs(x)))
    return worst


def _operand_indices(op):
    idx = [op[k] for k in ("i", "j", "qk") if op.get(k) is not None]
    if isinstance(op.get("src"), dict) and "j" in op["src"]:
        idx.append(op["src"]["j"])
    idx += [op[k]["i"] for k in ("a", "b", "v") if isinstance(op.get(k), dict) and "i" in op[k]]
    return idx


def _syms(items):
    return [[unsym(int(c)), unsym(int(u)), int(e)] for c, u, e in items]


def _snap_agree(rs, ms, M, extra=0, base=TOL):
    if rs["cls"] != ms.get("cls"):
        return "class: impl=%s model=%s" % (rs["cls"], ms.get("cls"))
    if rs["items"] != _syms(ms["items"]):
        return "composing units: impl=%s model=%s" % (rs["items"], _syms(ms["items"]))
    if rs["comp"] != _syms(ms["comp"]):
        return "cached composing units: impl=%s model=%s" % (rs["comp"], _syms(ms["comp"]))
    if rs["cap"] != unsym(int(ms["cap"])) or rs["derived"] != ms["derived"]:
        return "caption/derived flag differ"
    if rs["unit"] != unsym(int(ms["unit"])):
        return "unit: impl=%r model=%r" % (rs["unit"], unsym(int(ms["unit"])))
    if rs["cls"] == "scalar":
        if not _num_ok(rs["v"], ms["v"], M, extra, base):
            return "value %r vs %s" % (float.fromhex(rs["v"]), float(qparse(ms["v"])))
    elif rs["cls"] == "fscalar":
        if not _num_ok(rs["n"], ms["n"], M, extra) or not _frac_ok(rs["num"], rs["den"], ms["x"], extra):
            return "fraction value differs: impl=%s %s/%s model=%s %s" % (rs["n"], rs["num"], rs["den"], ms["n"], ms["x"])
    else:
        if rs["kind"] != ms["kind"]:
            return "container kind: impl=%s model=%s" % (rs["kind"], ms["kind"])
        if len(rs["xs"]) != len(ms["xs"]):
            return "length: impl=%d model=%d" % (len(rs["xs"]), len(ms["xs"]))
        for a, b in zip(rs["xs"], ms["xs"]):
            if not _num_ok(a, b, M, extra, base):
                return "element %r vs %s" % (float.fromhex(a), float(qparse(b)))
        if rs["cls"] == "fixed" and rs.get("dim") != ms.get("dim"):
            return "dimension: impl=%s model=%s" % (rs.get("dim"), ms.get("dim"))
    return None


def _agree_step(op, io, mo, extra=0, low=False):
    if op["k"] in ("isValid", "checkValidity", "validateWith") and io.get("near") and not io.get("changed"):
        return None          # a value on a limit after a conversion: the verdict is float rounding
    if io.get("changed") or mo.get("changed"):
        return "operands changed: impl=%s model=%s %s" % (io.get("changed"), mo.get("changed"),
                                                          str(io.get("change"))[:300])
    if ("err" in io) != ("err" in mo):
        return "one side fails: impl=%s model=%s" % (str(io)[:200], str(mo)[:200])
    if "err" in io:
        return None if io["err"] == mo["err"] else "error kinds differ: impl=%s model=%s" % (io["err"], mo["err"])
    a, b = io["ok"], mo["ok"]
    if a["t"] != b["t"]:
        return "result kinds differ: impl=%s model=%s" % (a["t"], b["t"])
    M = qparse(mo["M"])
    base = TOL32 if low or a.get("dt") == "float32" or a.get("snap", {}).get("dt") == "float32" else TOL
    if a["t"] == "obj":
        if a["fresh"] != b["fresh"] or a["i"] != b["i"]:
            return "identity of the result: impl=(%s, fresh=%s) model=(%s, fresh=%s)" % (a["i"], a["fresh"], b["i"], b["fresh"])
        why = _snap_agree(a["snap"], b["snap"], M, extra, base)
        if why:
            return why
        if a["alias"] is not None and a["alias"] != b["snap"].get("alias"):
            return "sharing: impl holds the container of member %s, model of member %s" % (a["alias"], b["snap"].get("alias"))
    elif a["t"] == "num":
        if not _num_ok(a["x"], b["x"], M, extra, base):
            return "value %r vs %s" % (float.fromhex(a["x"]), float(qparse(b["x"])))
    elif a["t"] == "cont":
        if (a["shared"] is not None and a["shared"] != b["shared"]) or a["kind"] != b["kind"] or len(a["xs"]) != len(b["xs"]):
            return "returned container: impl=(shared=%s,%s,%d) model=(shared=%s,%s,%d)" % (
                a["shared"], a["kind"], len(a["xs"]), b["shared"], b["kind"], len(b["xs"]))
        for x, y in zip(a["xs"], b["xs"]):
            if not _num_ok(x, y, M, extra, base):
                return "element %r vs %s" % (float.fromhex(x), float(qparse(y)))
    elif a["t"] == "fval":
        if a["shared"] != b["shared"]:
            return "returned FractionValue shared: impl=%s model=%s" % (a["shared"], b["shared"])
        if not _num_ok(a["n"], b["n"], M, extra) or not _frac_ok(a["num"], a["den"], b["x"], extra):
            return "fraction value: impl=%s %s/%s model=%s %s" % (a["n"], a["num"], a["den"], b["n"], b["x"])
    elif a["t"] == "bool":
        if a["b"] != b["b"] and not a.get("near"):
            return "verdict: impl=%s model=%s" % (a["b"], b["b"])
    return None


def agree(c, io, mo, ctx):
    if c["op"] == "validate":
        if io.get("changed"):
            return "the validation changed the container it looked at"
        if io.get("near"):
            return None
        real = io.get("ok") if "ok" in io else io.get("err")
        model = True if "ok" in mo else (False if mo.get("err") == "value" else mo.get("err"))
        return None if real == model else "verdict: impl=%s model=%s" % (real, model)
    if c["_t"].get("tuples"):
        return _agree_tuples(c, io, mo)
    ops = c["_t"]["ops"]
    if len(io["outs"]) != len(mo.get("outs", [])):
        return "number of steps: impl=%d model=%d (%s)" % (len(io["outs"]), len(mo.get("outs", [])), str(io["outs"][-1])[:200])
    dev = []          # per pool member: observed relative distance float vs exact (inherited by later results)
    dts = [m.get("dt") for m in io["pool"]]
    mags = []         # per pool member: the magnitude M of the step that created it
    for i, (op, a, b) in enumerate(zip(ops, io["outs"], mo["outs"])):
        extra = 4 * sum((dev[x] for x in _operand_indices(op) if x < len(dev)), F(0))
        low = any(dts[x] == "float32" for x in _operand_indices(op) if x < len(dts))
        why = _agree_step(op, a, b, extra, low)
        if why:
            return "step %d %s: %s" % (i, op, why)
        if "ok" in a and a["ok"]["t"] == "obj" and a["ok"]["fresh"]:
            dev.append(_dev(a["ok"]["snap"], b["ok"]["snap"]))
            mags.append(qparse(b["M"]))
            if dev[-1] > F(1, 10 ** 6):
                ctx.notes["results numerically unconstrained after cancellation"] = ctx.notes.get(
                    "results numerically unconstrained after cancellation", 0) + 1
    if len(io["pool"]) != len(mo["pool"]):
        return "pool sizes differ"
    for i, (rs, ms, al) in enumerate(zip(io["pool"], mo["pool"], io["aliases"])):
        # the numbers were compared when the member was created (relative to that step's magnitude M: a conversion
        # that lands on an exact zero leaves float noise); here the same member is looked at again after the history
        why = _snap_agree(rs, ms, mags[i] if i < len(mags) else 0, 2 * dev[i] if i < len(dev) else 0,
                          TOL32 if rs.get("dt") == "float32" else TOL)
        if why:
            return "final pool member %d: %s" % (i, why)
        if al is not None and al != ms.get("alias"):
            return "final pool member %d shares with %s (impl) / %s (model)" % (i, al, ms.get("alias"))
    ctx.notes["model cells allocated"] = ctx.notes.get("model cells allocated", 0) + mo.get("cells", 0)
    return None


def nontrivial(c, io):
    if c["op"] == "validate":
        return len(c["_t"]["xs"]) >= 2
    if c["_t"].get("tuples"):
        return sum(len(r) for r in c["_t"]["rows"]) >= 2
    shares = any(a is not None and a < i for i, a in enumerate(io["aliases"]))
    return shares and len(io["pool"]) > 8


# ------------------------------------------------------------- the property on the real code only
COPYING = ("copy", "createCopy", "pickle")


def oracle(c, ctx):
    """C13 on the real code: no step changes any pool member; results of operations are new objects; copy,
    deepcopy, Copy, CreateCopy() and (Scalar, FixedArray) pickle round trips are equal to the original."""
    from barril.units import Array, FixedArray, Scalar
    from barril.units.unit_database import UnitDatabase

    if c["op"] == "validate":
        try:
            _out, before, after, _near = _run_validate(ctx, c["_t"])
        except Exception as e:
            return dict(clause="the validation scenario cannot be run", error=repr(e)[:300])
        if before != after:
            return dict(clause="a validation operation changed the container of the Array it validated",
                        scenario=c["_t"], before=before[:3], after=after[:3])
        return None
    if c["_t"].get("tuples"):
        try:
            out = _run_tuples(ctx, c["_t"])
        except Exception as e:
            return dict(clause="the tuple-of-tuples scenario cannot be run", error=repr(e)[:300])
        if out["changed"]:
            return dict(clause="a read (GetValues(unit) / IsValid / str / CreateCopy / arithmetic) changed the nested "
                               "container of a tuple-of-tuples Array", scenario=c["_t"])
        if out["copy_eq"] is not True:
            return dict(clause="CreateCopy() of a tuple-of-tuples Array is not equal to the original", scenario=c["_t"])
        return None
    ops = c["_t"]["ops"]
    try:
        outs, _final, _aliases, pool = run_history(ctx, ops, stop_at_change=True)
    except Exception as e:
        return dict(clause="a pool member can no longer be read after the history", error=repr(e)[:300])
    for step, (op, o) in enumerate(zip(ops, outs)):
        if o.get("changed"):
            ch = o["change"]
            diff = {k: (ch["before"].get(k), ch["after"].get(k)) for k in ch["after"] if ch["before"].get(k) != ch["after"].get(k)}
            return dict(clause="an operation changed one of the value objects of the pool", step=step, op=op,
                        member=ch["member"], changed_fields=diff)
    # equality clauses, replayed with the objects at hand
    db = _fresh_db(ctx)
    UnitDatabase.PushSingleton(db)
    try:
        pool = []
        for step, op in enumerate(ops):
            k = op["k"]
            expected = None
            if k in ("getValue", "scribble") and op.get("u") is not None and op["i"] < len(pool) and isinstance(pool[op["i"]], Array):
                # conversion results belong to the caller: a new object on every call
                o = pool[op["i"]]
                try:
                    r1, own = o.GetValues(op["u"]), o.GetValues()
                    if r1 is not own and not _no_identity(r1):
                        r2 = o.GetValues(op["u"])
                        if r2 is r1:
                            return dict(clause="GetValues(unit) handed out the same container twice instead of a new "
                                               "object: the caller's result is shared with the Array", step=step, op=op)
                        expected = [_hex(x) for x in r2]
                except Exception:
                    expected = None
            out, new = _run_op(db, pool, op)
            if k == "scribble" and expected is not None and "ok" in out:
                o = pool[op["i"]]
                again = [_hex(x) for x in o.GetValues(op["u"])]
                copied = [_hex(x) for x in o.CreateCopy(unit=op["u"]).GetValues()]
                if again != expected or copied != expected:
                    return dict(clause="after the caller wrote into a container returned by GetValues(unit), the Array "
                                       "no longer gives the original amounts in that unit", step=step, op=op,
                                expected=expected, GetValues=again, CreateCopy=copied)
            if "ok" in out and out["ok"].get("t") == "obj":
                r = new if new is not None else pool[out["ok"]["i"]]
                src = pool[op["i"]] if "i" in op and op["i"] < len(pool) else None
                plain_copy = k == "copy" or (k == "createCopy" and op.get("u") is None and op.get("c") is None)
                if plain_copy or (k == "pickle" and isinstance(src, (Scalar, FixedArray))):
                    if not (r == src) or (r != src):
                        return dict(clause="a copy / pickle round trip is not equal to the original", step=step, op=op,
                                    original=repr(src), result=repr(r))
                if k in ("arith", "createCopy", "pickle", "changingIndex", "indexAsScalar") and new is None:
                    return dict(clause="the result of an operation is one of its operands, not a new object",
                                step=step, op=op)
            if new is not None:
                pool.append(new)
    finally:
        UnitDatabase.PopSingleton()
    return None


def search(ctx):
    yield from _gen_validate(ctx, "s", 2000)
    yield from _gen_tuples(ctx, "s", 500)
    yield from _gen(ctx, "s", 400 if ctx.tier == "quick" else 3000, 40)


def _remap(op, p):
    """the operation with every pool index above `p` lowered by one; None when it refers to `p` itself"""
    o = dict(op)
    for k in ("i", "j", "qk"):
        if o.get(k) is not None:
            if o[k] == p:
                return None
            if o[k] > p:
                o[k] -= 1
    if isinstance(o.get("src"), dict) and "j" in o["src"]:
        if o["src"]["j"] == p:
            return None
        if o["src"]["j"] > p:
            o["src"] = dict(j=o["src"]["j"] - 1)
    for k in ("a", "b", "v"):
        if isinstance(o.get(k), dict) and "i" in o[k]:
            if o[k]["i"] == p:
                return None
            if o[k]["i"] > p:
                o[k] = dict(i=o[k]["i"] - 1)
    return o


def shrink(case, failure, ctx):
    if case["op"] == "validate" or case["_t"].get("tuples"):
        return case, failure
    return _shrink_history(case, failure, ctx)


def _shrink_history(case, failure, ctx):
    """cut the history after the failing step, then drop steps: those that add nothing to the pool, and those
    whose new pool member nobody refers to later (later indices are renumbered)"""
    ops = list(case["_t"]["ops"])
    if isinstance(failure, dict) and "step" in failure:
        trial = ops[:failure["step"] + 1]
        f = oracle(_history(trial), ctx)
        if f:
            ops, failure = trial, f
    budget = 120
    i = len(ops) - 2
    while i >= 0 and budget > 0:
        try:
            outs, _f, _a, _p = run_history(ctx, ops)
        except Exception:
            break
        o = outs[i] if i < len(outs) else {}
        trial = None
        if "ok" in o and o["ok"].get("t") == "obj" and o["ok"].get("fresh"):
            p = o["ok"]["i"]
            rest = [_remap(x, p) for x in ops[i + 1:]]
            if all(x is not None for x in rest):
                trial = ops[:i] + rest
        else:
            trial = ops[:i] + ops[i + 1:]
        if trial:
            budget -= 1
            f = oracle(_history(trial), ctx)
            if f:
                ops, failure = trial, f
        i -= 1
    return _history(ops), failure
